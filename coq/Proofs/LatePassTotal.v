(* Proofs/LatePassTotal.v — the passes AFTER compile_one never fail on a compiled routine (C20):
     sortBlocks     finds the end block ("End block not present" is never raised),
     flattenBlocks  finds every block it lists defined, every conditional block with both branches
                    and every jump target in the list (none of its assertions / KeyErrors fires),
   for every recipe the lowering handles (If/Cond/While/For/Break/Continue/Assert/Return/...), and the
   composition with the tree-validity half (Proofs/NormalizeLowered.v): once PyTeal's own checks pass,
   one routine goes all the way to a flat instruction list.  With that the C01 end-to-end theorem
   (Proofs/EndToEnd.v) loses its two "the late passes succeeded" hypotheses.

   One side condition on the recipe: no Cond without arms ([nec], Proofs/LatePassTotalReach.v) — the
   constructor Cond() raises TealInputError, [check_expr] models __teal__ only.  It is necessary
   ([sort_needs_cond_arms] in Proofs/LatePassTotalExamples.v). *)
From Coq Require Import List Arith NArith String Bool Lia.
From PV Require Import Base.Bytes AVM.Syntax AVM.Machine Src.Expr Src.Denote Src.WellTyped
  Comp.Blocks Comp.Lower Comp.Passes Comp.GraphSem Comp.LinearSem Comp.SimCheck Comp.Compile
  Proofs.LowerFrame Proofs.LowerLemmas Proofs.LowerCorrect Proofs.LowerShape
  Proofs.NormalizeSem Proofs.NormalizeGraph Proofs.IncomingProof Proofs.NormalizeCorrect
  Proofs.NormalizeLowered Proofs.FlattenCorrect
  Proofs.EndToEndExits Proofs.EndToEndGlue Proofs.EndToEnd Proofs.EndToEndTyped
  Proofs.LatePassTotalReach Proofs.LatePassTotalNorm Proofs.SortCorrect.
Import ListNotations.

Local Notation reach := SortCorrect.reach.

(* =========================================================================================== *)
(* 1. sortBlocks and flattenBlocks on an arbitrary graph: when do they succeed?                 *)
(* =========================================================================================== *)

(* sortBlocks fails in one way only: the end block is not among the blocks found from the start *)
Theorem sort_blocks_total g start end_ :
  wf g -> reach g start end_ -> exists order, sort_blocks g start end_ = Some order.
Proof.
  intros W R. unfold sort_blocks. fold (dfs_order g start).
  destruct (dfs_order_spec g start W) as (_ & Rs & _).
  assert (M : mem_id end_ (dfs_order g start) = true) by (apply SortCorrect.mem_id_In, Rs, R).
  rewrite M. eauto.
Qed.

Theorem sort_blocks_none_iff g start end_ :
  wf g -> (sort_blocks g start end_ = None <-> ~ reach g start end_).
Proof.
  intros W. unfold sort_blocks. fold (dfs_order g start).
  destruct (dfs_order_spec g start W) as (_ & Rs & _).
  destruct (mem_id end_ (dfs_order g start)) eqn:M.
  - split; [discriminate|]. intros N. exfalso. apply N, Rs, SortCorrect.mem_id_In, M.
  - split; [|reflexivity]. intros _ R. apply Rs, SortCorrect.mem_id_In in R. congruence.
Qed.

(* flattenBlocks: what each listed block has to satisfy *)
Definition flat_ready (g : graph) (blocks : list id) (b : id) : Prop :=
  exists bb, g_blk g b = Some bb /\ full_b bb /\ forall x, In x (outgoing bb) -> In x blocks.

Lemma flatten_one_total g blocks i b :
  flat_ready g blocks b -> exists r, flatten_one g blocks i b = Some r.
Proof.
  intros (bb & E & F & C). unfold flatten_one. rewrite E.
  destruct (is_terminal bb); [eauto|].
  destruct bb as [ops [nx|]|ops [t|] [fl|]]; cbn [full_b] in F;
    try (exfalso; apply (proj1 F); reflexivity); try (exfalso; apply (proj2 F); reflexivity); [| |].
  - destruct (index_of_In nx blocks 0 (C nx (or_introl eq_refl))) as (ni & Ni). rewrite Ni.
    destruct (Nat.eqb ni (S i)); eauto.
  - eauto.
  - destruct (index_of_In t blocks 0 (C t (or_introl eq_refl))) as (ti & Ti).
    destruct (index_of_In fl blocks 0 (C fl (or_intror (or_introl eq_refl)))) as (fi & Fi).
    rewrite Ti, Fi. destruct (Nat.eqb fi (S i)); [eauto|]. destruct (Nat.eqb ti (S i)); eauto.
Qed.

Lemma flatten_collect_total g blocks : forall rest i,
  (forall b, In b rest -> flat_ready g blocks b) ->
  exists r, flatten_collect g blocks i rest = Some r.
Proof.
  induction rest as [|b t IH]; intros i H; cbn [flatten_collect]; [eauto|].
  destruct (flatten_one_total g blocks i b (H b (or_introl eq_refl))) as ([code refs] & E1).
  destruct (IH (S i) (fun x Hx => H x (or_intror Hx))) as ([codes refs'] & E2).
  rewrite E1, E2. eauto.
Qed.

Theorem flatten_blocks_total g blocks :
  (forall b, In b blocks -> flat_ready g blocks b) -> exists code, flatten_blocks g blocks = Some code.
Proof.
  intros H. unfold flatten_blocks.
  destruct (flatten_collect_total g blocks blocks 0 H) as ([codes refs] & E). rewrite E. eauto.
Qed.

(* the converse (flattenBlocks succeeded => listed blocks defined, closed) is [flatten_closed] *)

(* a graph in which everything reachable from the start is defined and full flattens in sort order *)
Theorem sort_flatten_total g start end_ :
  wf g -> cond_full g -> dclosed g -> g_blk g start <> None -> reach g start end_ ->
  exists order code, sort_blocks g start end_ = Some order /\ flatten_blocks g order = Some code.
Proof.
  intros W F D Ds R.
  destruct (sort_blocks_total g start end_ W R) as (order & HS). exists order.
  destruct (sort_blocks_complete g start end_ order W HS) as (_ & Ro & _).
  destruct (flatten_blocks_total g order) as (code & HF); [|eauto].
  intros b Hb. apply Ro in Hb.
  pose proof (dclosed_reach_defined g start b D Ds Hb) as Db.
  destruct (g_blk g b) as [bb|] eqn:Eb; [|congruence].
  exists bb. split; [exact Eb|]. split; [exact (F b bb Eb)|].
  intros x Hx. apply Ro. eapply reach_step; [exact Hb|]. unfold out_of. rewrite Eb. exact Hx.
Qed.

(* =========================================================================================== *)
(* 2. the graph compile_one returns                                                             *)
(* =========================================================================================== *)
Lemma blk_eq_gext g g' : g_blk g' = g_blk g -> gext g g'.
Proof. intros B i b E. rewrite B. exact E. Qed.

Theorem compiled_late_facts o sub ast0 cr :
  (match sub with Some r => r_deferred r | None => None end) = None ->
  compile_one o sub ast0 = COk cr ->
  nec (root_ast ast0) = true ->
  wf (cr_graph cr) /\ cond_full (cr_graph cr) /\ late_inv (cr_end cr) (cr_graph cr) (cr_start cr).
Proof.
  intros D E Hn. destruct (compile_one_inv o sub ast0 cr D E) as (Ck & Hb & s & g0 & EL & EN).
  set (c := routine_ctx o sub) in *. set (e := root_ast ast0) in *.
  assert (P : ctx_ok c empty_graph) by (split; exact Logic.I).
  pose proof (lower_ok o e c None empty_graph _ good_empty P Logic.I EL) as X. cbn [fst snd] in X.
  destruct X as ((Cl & F0 & Z0) & _ & Ls & _).
  pose proof (frame_wf _ _ (lower_frame o e c None empty_graph (s, cr_end cr) g0 wf_empty EL)) as W0.
  destruct (lower_root_reach o c e s (cr_end cr) g0 eq_refl eq_refl Ck Hb Hn EL) as [R0 Dn].
  pose proof (lower_root_exits o c e s (cr_end cr) g0 eq_refl eq_refl Ck Hb EL) as [X1 X2].
  assert (ZN : forall b, NoDup (g_inc g0 b)) by (intros b; rewrite Z0; constructor).
  destruct (add_incoming_covers g0 s W0 ZN) as (B1 & N1 & C1 & ND1 & _).
  set (g1 := fst (add_incoming g0 s)) in *.
  assert (F1 : cond_full g1) by (intros i b Eb; rewrite B1 in Eb; exact (F0 i b Eb)).
  destruct (normalize_shape _ _ _ _ F1 EN) as [N3 D3].
  destruct (normalize_tinv _ _ _ _ F1 C1 ND1 EN) as (F3 & _ & _).
  assert (L1 : late_inv (cr_end cr) g1 s).
  { split; [|split; [|split]].
    - split; [intros i bb Ei; rewrite B1 in Ei; exact (X1 i bb Ei)|rewrite B1; exact X2].
    - eapply gext_reach; [apply blk_eq_gext; exact B1|exact R0].
    - intros p x I. unfold out_of in I. rewrite B1. apply Dn. rewrite B1 in I.
      destruct (g_blk g0 p) as [b|] eqn:Eb; [|destruct I]. exact (Cl p b x Eb I).
    - rewrite B1. apply Dn. exact Ls. }
  split; [|split; [exact F3|exact (normalize_late_inv _ _ _ _ _ EN L1)]].
  intros i L. apply D3. rewrite B1. apply W0. unfold id in *. rewrite <- N1, <- N3. exact L.
Qed.

(* =========================================================================================== *)
(* 3. totality of the late passes on a compiled routine                                         *)
(* =========================================================================================== *)
Theorem sort_total o sub ast0 cr :
  (match sub with Some r => r_deferred r | None => None end) = None ->
  compile_one o sub ast0 = COk cr ->
  nec (root_ast ast0) = true ->
  exists order, sort_blocks (cr_graph cr) (cr_start cr) (cr_end cr) = Some order.
Proof.
  intros D E Hn. destruct (compiled_late_facts o sub ast0 cr D E Hn) as (W & _ & _ & R & _).
  exact (sort_blocks_total _ _ _ W R).
Qed.

(* flattenBlocks succeeds on WHATEVER order sortBlocks returned; the Cond side condition is not needed
   here (it only matters for finding the end block) — but success of sortBlocks is the hypothesis *)
Theorem flatten_total o sub ast0 cr order :
  (match sub with Some r => r_deferred r | None => None end) = None ->
  compile_one o sub ast0 = COk cr ->
  nec (root_ast ast0) = true ->
  sort_blocks (cr_graph cr) (cr_start cr) (cr_end cr) = Some order ->
  exists code, flatten_blocks (cr_graph cr) order = Some code.
Proof.
  intros D E Hn HS. destruct (compiled_late_facts o sub ast0 cr D E Hn) as (W & F & _ & R & Dc & Ds).
  destruct (sort_flatten_total _ _ _ W F Dc Ds R) as (order' & code & HS' & HF).
  rewrite HS in HS'. injection HS' as Q. subst order'. eauto.
Qed.

Theorem late_passes_total o sub ast0 cr :
  (match sub with Some r => r_deferred r | None => None end) = None ->
  compile_one o sub ast0 = COk cr ->
  nec (root_ast ast0) = true ->
  exists order code,
    sort_blocks (cr_graph cr) (cr_start cr) (cr_end cr) = Some order /\
    flatten_blocks (cr_graph cr) order = Some code.
Proof.
  intros D E Hn. destruct (compiled_late_facts o sub ast0 cr D E Hn) as (W & F & _ & R & Dc & Ds).
  exact (sort_flatten_total _ _ _ W F Dc Ds R).
Qed.

(* from PyTeal's own checks to the instruction list of the routine *)
Theorem routine_compiles_total o sub ast0 :
  (match sub with Some r => r_deferred r | None => None end) = None ->
  check_expr o (option_map r_ret sub) false (root_ast ast0) = None ->
  has_bad_continue false (root_ast ast0) = false ->
  nec (root_ast ast0) = true ->
  exists cr order code,
    compile_one o sub ast0 = COk cr /\
    sort_blocks (cr_graph cr) (cr_start cr) (cr_end cr) = Some order /\
    flatten_blocks (cr_graph cr) order = Some code.
Proof.
  intros D Ck Hb Hn.
  destruct (compile_one_tree_checks_pass o sub ast0 D Ck Hb) as (cr & E & _).
  destruct (late_passes_total o sub ast0 cr D E Hn) as (order & code & HS & HF).
  exists cr, order, code. auto.
Qed.

(* ---- the side condition ---- *)
Lemma nec_root ast0 : nec ast0 = true -> nec (root_ast ast0) = true.
Proof.
  intros H. unfold root_ast. destruct (has_return ast0); [exact H|].
  destruct (type_of ast0); cbn [nec forallb]; rewrite ?H; reflexivity.
Qed.

Lemma forallb_app' {A} (f : A -> bool) l1 l2 : forallb f l1 = true -> forallb f l2 = true -> forallb f (l1 ++ l2) = true.
Proof. intros H1 H2. rewrite forallb_app, H1, H2. reflexivity. Qed.

Lemma forallb_map_true {A B} (f : B -> bool) (h : A -> B) l : (forall a, f (h a) = true) -> forallb f (map h l) = true.
Proof. intros H. induction l as [|a t IH]; cbn; [reflexivity|]. rewrite H, IH. reflexivity. Qed.

(* the body compileSubroutine builds for a subroutine declaration adds parameter stores only *)
Lemma nec_decl_body o r : nec (r_body r) = true -> nec (root_ast (decl_body o r)) = true.
Proof.
  intros H. apply nec_root. unfold decl_body. destruct (o_use_fp o); cbn [nec].
  - cbn [app forallb nec]. apply forallb_app'.
    + apply forallb_map_true. intros [i [b sl]]. reflexivity.
    + cbn [forallb]. rewrite H. reflexivity.
  - apply forallb_app'.
    + apply forallb_map_true. intros [b sl]. reflexivity.
    + cbn [forallb]. rewrite H. reflexivity.
Qed.

Lemma forallb_and_l {A} (f h : A -> bool) l : forallb (fun a => f a && h a) l = true -> forallb f l = true.
Proof.
  intros H. apply forallb_forall. intros x Hx. rewrite forallb_forall in H. specialize (H x Hx).
  apply andb_prop in H. exact (proj1 H).
Qed.

(* every well-typed recipe (Src/WellTyped.v, the quantifier of C20) satisfies it *)
Lemma wt_nec fty e : forall il, well_typed fty il e = true -> nec e = true.
Proof.
  induction e using expr_ind'; intros il W; cbn [nec]; cbn [well_typed] in W; try reflexivity; try discriminate W.
  - (* EOp *)
    apply andb_prop in W. destruct W as [W _]. apply forallb_forall. intros x Hx.
    rewrite Forall_forall in H. rewrite forallb_forall in W. exact (H x Hx il (W x Hx)).
  - (* ENary *)
    repeat (apply andb_prop in W; destruct W as [W ?]). apply forallb_forall. intros x Hx.
    rewrite Forall_forall in H. rewrite forallb_forall in W. exact (H x Hx il (W x Hx)).
  - (* ESeq *)
    apply andb_prop in W. destruct W as [W _]. apply forallb_forall. intros x Hx.
    rewrite Forall_forall in H. rewrite forallb_forall in W. exact (H x Hx il (W x Hx)).
  - (* EIf *)
    repeat (apply andb_prop in W; destruct W as [W ?]).
    rewrite (IHe1 il W). match goal with Ht : well_typed fty il e2 = true |- _ => rewrite (IHe2 il Ht) end.
    destruct el as [x|]; [|reflexivity]. cbn [andb].
    match goal with Hx : well_typed fty il x && _ = true |- _ => apply andb_prop in Hx; destruct Hx as [Hx _];
      inversion H; subst; eauto end.
  - (* ECond *)
    destruct arms as [|[c0 v0] rest]; [discriminate W|]. cbn [andb].
    apply forallb_forall. intros a Ha. rewrite Forall_forall in H. destruct (H a Ha) as [Hc Hv].
    rewrite forallb_forall in W. specialize (W a Ha).
    repeat (apply andb_prop in W; destruct W as [W ?]).
    rewrite (Hc il W). match goal with Hs : well_typed fty il (snd a) = true |- _ => rewrite (Hv il Hs) end. reflexivity.
  - (* EWhile *)
    repeat (apply andb_prop in W; destruct W as [W ?]).
    rewrite (IHe1 true W). match goal with Hs : well_typed fty true e2 = true |- _ => rewrite (IHe2 true Hs) end. reflexivity.
  - (* EFor *)
    repeat (apply andb_prop in W; destruct W as [W ?]).
    rewrite (IHe1 true W).
    match goal with Hs : well_typed fty true e2 = true |- _ => rewrite (IHe2 true Hs) end.
    match goal with Hs : well_typed fty true e3 = true |- _ => rewrite (IHe3 true Hs) end.
    match goal with Hs : well_typed fty true e4 = true |- _ => rewrite (IHe4 true Hs) end. reflexivity.
  - (* EAssert *)
    apply andb_prop in W. destruct W as [_ W]. apply forallb_and_l in W. apply forallb_forall. intros x Hx.
    rewrite Forall_forall in H. rewrite forallb_forall in W. exact (H x Hx il (W x Hx)).
  - (* EReturn *)
    destruct v as [x|]; [|reflexivity]. apply andb_prop in W. destruct W as [W _].
    inversion H; subst. eauto.
  - (* EExit *)
    apply andb_prop in W. destruct W as [W _]. eauto.
  - (* EWide *)
    destruct ns as [|n0 nr]; [discriminate W|]. destruct ds as [|d0 dr]; [discriminate W|].
    apply andb_prop in W. destruct W as [Wn Wd]. apply forallb_and_l in Wn. apply forallb_and_l in Wd.
    apply andb_true_intro. split; apply forallb_forall; intros x Hx.
    + rewrite Forall_forall in H. rewrite forallb_forall in Wn. exact (H x Hx il (Wn x Hx)).
    + rewrite Forall_forall in H0. rewrite forallb_forall in Wd. exact (H0 x Hx il (Wd x Hx)).
Qed.

Theorem wt_root_nec fty ast0 : well_typed fty false ast0 = true -> nec (root_ast ast0) = true.
Proof. intros W. apply nec_root. exact (wt_nec fty ast0 false W). Qed.

(* =========================================================================================== *)
(* 4. C01 end to end, without the "late passes succeeded" hypotheses                            *)
(* =========================================================================================== *)
Theorem routine_end_to_end_total o sub ast0 cr :
  (match sub with Some r => r_deferred r | None => None end) = None ->
  compile_one o sub ast0 = COk cr ->
  head_loop (root_ast ast0) = false ->
  nec (root_ast ast0) = true ->
  exists order code,
    sort_blocks (cr_graph cr) (cr_start cr) (cr_end cr) = Some order /\
    flatten_blocks (cr_graph cr) order = Some code /\
    pos_of (cr_graph cr) order (cr_start cr) = 0 /\
    forall env, consistent env (routine_ctx o sub) ->
    forall fuel stk st h, halt_of (denote env fuel (root_ast ast0) stk st) = Some h ->
      lstar env code (LAt 0 stk st) h /\
      forall c2, lstar env code (LAt 0 stk st) c2 -> lfinal c2 = true -> c2 = h.
Proof.
  intros D E HL Hn.
  destruct (late_passes_total o sub ast0 cr D E Hn) as (order & code & HS & HF).
  exists order, code. split; [exact HS|]. split; [exact HF|].
  exact (routine_end_to_end o sub ast0 cr order code D E HL HS HF).
Qed.

(* from the checks alone: nothing about the pipeline's success is assumed *)
Theorem routine_checked_end_to_end o sub ast0 :
  (match sub with Some r => r_deferred r | None => None end) = None ->
  check_expr o (option_map r_ret sub) false (root_ast ast0) = None ->
  has_bad_continue false (root_ast ast0) = false ->
  head_loop (root_ast ast0) = false ->
  nec (root_ast ast0) = true ->
  exists cr order code,
    compile_one o sub ast0 = COk cr /\
    sort_blocks (cr_graph cr) (cr_start cr) (cr_end cr) = Some order /\
    flatten_blocks (cr_graph cr) order = Some code /\
    pos_of (cr_graph cr) order (cr_start cr) = 0 /\
    forall env, consistent env (routine_ctx o sub) ->
    forall fuel stk st h, halt_of (denote env fuel (root_ast ast0) stk st) = Some h ->
      lstar env code (LAt 0 stk st) h /\
      forall c2, lstar env code (LAt 0 stk st) c2 -> lfinal c2 = true -> c2 = h.
Proof.
  intros D Ck Hb HL Hn.
  destruct (compile_one_tree_checks_pass o sub ast0 D Ck Hb) as (cr & E & _).
  destruct (routine_end_to_end_total o sub ast0 cr D E HL Hn) as (order & code & H).
  exists cr, order, code. split; [exact E|exact H].
Qed.

(* subroutine bodies as compile_rec compiles them: the only condition is on the user's body *)
Theorem subroutine_end_to_end_total o r cr :
  r_deferred r = None ->
  compile_one o (Some r) (decl_body o r) = COk cr ->
  nec (r_body r) = true ->
  exists order code,
    sort_blocks (cr_graph cr) (cr_start cr) (cr_end cr) = Some order /\
    flatten_blocks (cr_graph cr) order = Some code /\
    pos_of (cr_graph cr) order (cr_start cr) = 0 /\
    forall env, consistent env (routine_ctx o (Some r)) ->
    forall fuel stk st h, halt_of (denote env fuel (root_ast (decl_body o r)) stk st) = Some h ->
      lstar env code (LAt 0 stk st) h /\
      forall c2, lstar env code (LAt 0 stk st) c2 -> lfinal c2 = true -> c2 = h.
Proof.
  intros D E Hn.
  exact (routine_end_to_end_total o (Some r) (decl_body o r) cr D E (decl_body_root_head_loop o r) (nec_decl_body o r Hn)).
Qed.

(* well-typed main routines: no side condition at all *)
Theorem main_end_to_end_well_typed_total fty o ast0 cr :
  well_typed fty false ast0 = true ->
  compile_one o None ast0 = COk cr ->
  exists order code,
    sort_blocks (cr_graph cr) (cr_start cr) (cr_end cr) = Some order /\
    flatten_blocks (cr_graph cr) order = Some code /\
    pos_of (cr_graph cr) order (cr_start cr) = 0 /\
    forall env, consistent env (routine_ctx o None) ->
    forall fuel stk st h, halt_of (denote env fuel (root_ast ast0) stk st) = Some h ->
      lstar env code (LAt 0 stk st) h /\
      forall c2, lstar env code (LAt 0 stk st) c2 -> lfinal c2 = true -> c2 = h.
Proof.
  intros W E.
  exact (routine_end_to_end_total o None ast0 cr eq_refl E (wt_root_head_loop fty ast0 W) (wt_root_nec fty ast0 W)).
Qed.
