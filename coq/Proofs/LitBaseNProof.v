(* Proofs/LitBaseNProof.v — C13: PyTeal's validators accept exactly the well-formed RFC 4648
   texts, and on those the assembler's decoders return the RFC value. *)
From Coq Require Import List Arith NArith Ascii String Bool Lia.
From PV Require Import Base.Bytes Base.Sexp AVM.Parse Lit.Escape Lit.BaseN Lit.RFC4648
  Proofs.LitEscapeProof Proofs.LitLineProof Proofs.LitArith.
Import ListNotations.
Local Open Scope N_scope.

Definition is_some {A} (o : option A) : bool := match o with Some _ => true | None => false end.

Ltac all_chars c := destruct c as [[|] [|] [|] [|] [|] [|] [|] [|]].

(* ---- the alphabets of the model, of the assembler and of the specification agree ---- *)
Lemma b64val_v64 c : b64val c = v64 c. Proof. all_chars c; reflexivity. Qed.
Lemma b32val_v32 c : b32val c = v32 c. Proof. all_chars c; reflexivity. Qed.
Lemma hexval_v16 c : hexval c = v16 c. Proof. all_chars c; reflexivity. Qed.
Lemma is_b64_v64 c : is_b64 c = is_some (v64 c). Proof. all_chars c; reflexivity. Qed.
Lemma is_b32_v32 c : is_b32 c = is_some (v32 c). Proof. all_chars c; reflexivity. Qed.
Lemma is_hex_v16 c : is_hex c = is_some (v16 c). Proof. all_chars c; reflexivity. Qed.
Lemma is_pad_padc c : is_pad c = is_padc c. Proof. reflexivity. Qed.

Lemma v64_facts c : match v64 c with Some v => (v <? 64) && negb (is_padc c) | None => true end = true.
Proof. all_chars c; reflexivity. Qed.
Lemma v32_facts c : match v32 c with Some v => (v <? 32) && negb (is_padc c) | None => true end = true.
Proof. all_chars c; reflexivity. Qed.
Lemma v16_facts c : match v16 c with Some v => (v <? 16) | None => true end = true.
Proof. all_chars c; reflexivity. Qed.

Lemma v64_some c v : v64 c = Some v -> v < 64 /\ is_padc c = false.
Proof.
  intros H. pose proof (v64_facts c) as F. rewrite H in F. apply andb_true_iff in F as [F1 F2].
  split; [now apply N.ltb_lt | now apply negb_true_iff].
Qed.
Lemma v32_some c v : v32 c = Some v -> v < 32 /\ is_padc c = false.
Proof.
  intros H. pose proof (v32_facts c) as F. rewrite H in F. apply andb_true_iff in F as [F1 F2].
  split; [now apply N.ltb_lt | now apply negb_true_iff].
Qed.
Lemma padc_v64 c : is_padc c = true -> v64 c = None.
Proof. intros H. destruct (v64 c) eqn:E; [|reflexivity]. apply v64_some in E as [_ E]. congruence. Qed.
Lemma padc_v32 c : is_padc c = true -> v32 c = None.
Proof. intros H. destruct (v32 c) eqn:E; [|reflexivity]. apply v32_some in E as [_ E]. congruence. Qed.

(* ---- induction principles: two, four, eight characters at a time ---- *)
Lemma pair_ind {A} (P : list A -> Prop) :
  P [] -> (forall a, P [a]) -> (forall a b l, P l -> P (a :: b :: l)) -> forall l, P l.
Proof.
  intros H0 H1 H2. fix IH 1. intros [|a [|b l]]; [exact H0 | apply H1 | apply H2, IH].
Qed.

Lemma quad_ind {A} (P : list A -> Prop) :
  P [] -> (forall a, P [a]) -> (forall a b, P [a; b]) -> (forall a b c, P [a; b; c]) ->
  (forall a b c d l, P l -> P (a :: b :: c :: d :: l)) -> forall l, P l.
Proof.
  intros H0 H1 H2 H3 H4. fix IH 1. intros [|a [|b [|c [|d l]]]];
    [exact H0 | apply H1 | apply H2 | apply H3 | apply H4, IH].
Qed.

Lemma oct_ind {A} (P : list A -> Prop) :
  (forall l, (List.length l < 8)%nat -> P l) ->
  (forall a b c d e f g h l, P l -> P (a :: b :: c :: d :: e :: f :: g :: h :: l)) -> forall l, P l.
Proof.
  intros H0 H8. fix IH 1. intros [|a [|b [|c [|d [|e [|f [|g [|h l]]]]]]]];
    try (apply H0; cbn; lia). apply H8, IH.
Qed.

(* ============================================================================================ *)
(* base16                                                                                        *)
(* ============================================================================================ *)

Lemma b16_is_asm s : bytes_of_hex_l s = b16_decode s.
Proof.
  induction s as [| a | a b l IH] using pair_ind; [reflexivity | reflexivity |].
  cbn [bytes_of_hex_l b16_decode]. rewrite !hexval_v16, IH.
  destruct (v16 a), (v16 b), (b16_decode l); try reflexivity.
  unfold byte_of. now rewrite N.mul_comm.
Qed.

Lemma valid16_spec s : valid_base16_l s = is_some (b16_decode s).
Proof.
  unfold valid_base16_l.
  induction s as [| a | a b l IH] using pair_ind; [reflexivity | |].
  - cbn. reflexivity.
  - cbn [List.length Nat.even forallb b16_decode]. rewrite !is_hex_v16.
    destruct (v16 a); cbn [is_some andb]; [|now rewrite andb_false_r].
    destruct (v16 b); cbn [is_some andb]; [|now rewrite andb_false_r].
    rewrite IH. destruct (b16_decode l); reflexivity.
Qed.

Lemma valid16_chars s : valid_base16_l s = true -> forallb is_hex s = true.
Proof. unfold valid_base16_l. intros H. now apply andb_true_iff in H as [_ H]. Qed.

(* one byte printed in lower-case hex reads back *)
Lemma hex_unit c : forall t,
  b16_decode (hexlow (N_of_ascii c / 16) :: hexlow (N_of_ascii c mod 16) :: t) =
  match b16_decode t with Some r => Some (c :: r) | None => None end.
Proof. all_chars c; intros t; cbn; destruct (b16_decode t); reflexivity. Qed.

Lemma hex_lower_decodes b : b16_decode (hex_lower b) = Some b.
Proof. induction b as [|c b IH]; [reflexivity|]. cbn [hex_lower]. now rewrite hex_unit, IH. Qed.

Lemma strip0x_spec (v : string) :
  strip0x v = match v with String "0" (String "x" r) => r | _ => v end.
Proof.
  destruct v as [|z [|x r]]; [reflexivity | all_chars z; reflexivity |]. unfold strip0x.
  destruct (Ascii.eqb_spec z "0") as [->|N1].
  - destruct (Ascii.eqb_spec x "x") as [->|N2]; cbn [andb]; [reflexivity|].
    all_chars x; try reflexivity. now elim N2.
  - cbn [andb]. all_chars z; try reflexivity. now elim N1.
Qed.

(* ============================================================================================ *)
(* padding and the assembler's strip-then-decode                                                 *)
(* ============================================================================================ *)

Lemma strip_pad_app q X : forallb is_padc q = true -> strip_pad (q ++ X) = strip_pad X.
Proof.
  induction q as [|c q IH]; intros H; [reflexivity|].
  cbn [forallb] in H. apply andb_true_iff in H as [Hc Hq].
  cbn [app strip_pad]. unfold is_padc, pad in Hc. rewrite Hc. now apply IH.
Qed.

Lemma forallb_rev {A} (f : A -> bool) l : forallb f l = true -> forallb f (rev l) = true.
Proof.
  rewrite !forallb_forall. intros H x Hx. apply H. now apply in_rev.
Qed.

Lemma digit_vals_in f chars vals c : digit_vals f chars = Some vals -> In c chars -> f c <> None.
Proof.
  revert vals. induction chars as [|x chars IH]; intros vals H Hin; [contradiction|].
  cbn [digit_vals] in H. destruct (f x) eqn:Fx; [|discriminate]. destruct (digit_vals f chars) eqn:D; [|discriminate].
  destruct Hin as [->|Hin]; [congruence | eapply IH; eauto].
Qed.

Lemma digit_vals_bound f B chars vals :
  (forall c v, f c = Some v -> v < B) -> digit_vals f chars = Some vals -> Forall (fun v => v < B) vals.
Proof.
  intros HB. revert vals. induction chars as [|x chars IH]; intros vals H.
  - inversion H. constructor.
  - cbn [digit_vals] in H. destruct (f x) eqn:Fx; [|discriminate]. destruct (digit_vals f chars) eqn:D; [|discriminate].
    inversion H; subst. constructor; [eapply HB; eauto | now apply IH].
Qed.

(* text = alphabet characters followed by pad characters: the assembler decodes the characters *)
Lemma decode_baseN_struct f w chars p vals :
  (forall c, is_padc c = true -> f c = None) ->
  forallb is_padc p = true ->
  digit_vals f chars = Some vals ->
  decode_baseN f w (string_of_list_ascii (chars ++ p)) = Some (decode_bits w vals).
Proof.
  intros Hf Hp Hd. unfold decode_baseN. rewrite list_ascii_of_string_of_list_ascii.
  rewrite rev_app_distr, strip_pad_app by now apply forallb_rev.
  assert (E : strip_pad (rev chars) = rev chars).
  { destruct (rev chars) as [|c t] eqn:R; [reflexivity|].
    cbn [strip_pad]. destruct (Ascii.eqb c "=") eqn:Ec; [|reflexivity].
    exfalso. apply (digit_vals_in f chars vals c Hd).
    - apply in_rev. rewrite R. now left.
    - apply Hf. exact Ec. }
  rewrite E, rev_involutive, Hd. reflexivity.
Qed.

(* ============================================================================================ *)
(* base64                                                                                        *)
(* ============================================================================================ *)

Lemma valid64_spec s : valid_base64_l s = is_some (b64_decode s).
Proof.
  induction s as [| a | a b | a b c | a b c d l IH] using quad_ind; try reflexivity.
  cbn [valid_base64_l b64_decode]. rewrite IH. unfold tail64.
  rewrite !is_b64_v64. change is_pad with is_padc.
  pose proof (v64_facts c) as Fc. pose proof (v64_facts d) as Fd.
  destruct (v64 a); cbn [is_some andb orb]; [|destruct l; reflexivity].
  destruct (v64 b); cbn [is_some andb orb]; [|destruct l; reflexivity].
  destruct (v64 c) as [z|]; destruct (v64 d) as [w|]; cbn [is_some andb orb].
  - apply andb_true_iff in Fc as [_ Fc]. apply andb_true_iff in Fd as [_ Fd].
    apply negb_true_iff in Fc, Fd. rewrite Fc, Fd. cbn [andb orb].
    destruct l; [|]; destruct (b64_decode _); reflexivity.
  - apply andb_true_iff in Fc as [_ Fc]. apply negb_true_iff in Fc. rewrite Fc. cbn [andb orb].
    destruct l; [|reflexivity]. rewrite orb_false_r. destruct (is_padc d); reflexivity.
  - apply andb_true_iff in Fd as [_ Fd]. apply negb_true_iff in Fd. rewrite Fd.
    rewrite !andb_false_r. destruct l; reflexivity.
  - destruct l; [|reflexivity]. rewrite !orb_false_r.
    destruct (is_padc c && is_padc d); reflexivity.
Qed.

Lemma b64val_bound c v : b64val c = Some v -> v < 2 ^ 6.
Proof. rewrite b64val_v64. intros H. now apply v64_some in H as [H _]. Qed.

Lemma b64_struct s : forall b, b64_decode s = Some b ->
  exists chars p vals, s = chars ++ p /\ forallb is_padc p = true /\
    digit_vals b64val chars = Some vals /\ decode_bits 6 vals = b.
Proof.
  induction s as [| a | a b | a b c | a b c d l IH] using quad_ind; intros out H; try discriminate H.
  - inversion H. exists [], [], []. repeat split; reflexivity.
  - cbn [b64_decode] in H.
    destruct (v64 a) as [x|] eqn:Ea; [|discriminate H].
    destruct (v64 b) as [y|] eqn:Eb; [|discriminate H].
    destruct (v64_some _ _ Ea) as [Hx _]. destruct (v64_some _ _ Eb) as [Hy _].
    destruct (v64 c) as [z|] eqn:Ec; destruct (v64 d) as [w|] eqn:Ed; try discriminate H.
    + destruct (v64_some _ _ Ec) as [Hz _]. destruct (v64_some _ _ Ed) as [Hw _].
      destruct (b64_decode l) as [b'|] eqn:El; [|discriminate H]. cbn in H. inversion H; subst out.
      destruct (IH b' eq_refl) as (chars & p & vals & -> & Hp & Hd & Hb).
      exists (a :: b :: c :: d :: chars), p, (x :: y :: z :: w :: vals). repeat split; [exact Hp | |].
      * cbn [digit_vals]. rewrite !b64val_v64, Ea, Eb, Ec, Ed, Hd. reflexivity.
      * change (x :: y :: z :: w :: vals) with ([x; y; z; w] ++ vals).
        rewrite (decode_bits_app 6 [x; y; z; w] vals 3).
        -- rewrite q64_ok by assumption. now rewrite Hb.
        -- eapply digit_vals_bound; [|exact Hd]. exact b64val_bound.
        -- reflexivity.
    + destruct (v64_some _ _ Ec) as [Hz _].
      destruct l; [|discriminate H]. destruct (is_padc d) eqn:Pd; [|discriminate H]. inversion H; subst out.
      exists [a; b; c], [d], [x; y; z]. repeat split.
      * cbn. now rewrite Pd.
      * cbn [digit_vals]. now rewrite !b64val_v64, Ea, Eb, Ec.
      * now apply q64_3_ok.
    + destruct l; [|discriminate H]. destruct (is_padc c) eqn:Pc; [|discriminate H].
      destruct (is_padc d) eqn:Pd; [|discriminate H]. inversion H; subst out.
      exists [a; b], [c; d], [x; y]. repeat split.
      * cbn. now rewrite Pc, Pd.
      * cbn [digit_vals]. now rewrite !b64val_v64, Ea, Eb.
      * now apply q64_2_ok.
Qed.

(* the assembler's decoder returns the RFC value on every well-formed text *)
Lemma b64_asm_spec s b : b64_decode s = Some b -> decode_base64 (string_of_list_ascii s) = Some b.
Proof.
  intros H. destruct (b64_struct s b H) as (chars & p & vals & -> & Hp & Hd & <-).
  apply decode_baseN_struct; [|exact Hp|exact Hd].
  intros c Hc. rewrite b64val_v64. now apply padc_v64.
Qed.

Lemma valid64_chars s : valid_base64_l s = true -> forallb b64c s = true.
Proof.
  unfold b64c.
  induction s as [| a | a b | a b c | a b c d l IH] using quad_ind; try (intros H; discriminate H); [reflexivity|].
  cbn [valid_base64_l]. intros H. apply orb_true_iff in H as [H|H].
  - unfold tail64 in H. destruct l; [|discriminate H]. cbn [forallb].
    apply andb_true_iff in H as [H H3]. apply andb_true_iff in H as [H1 H2]. rewrite H1, H2. cbn [orb andb].
    apply orb_true_iff in H3 as [H3|H3]; apply andb_true_iff in H3 as [H3 H4]; rewrite H3, H4;
      rewrite ?orb_true_r; reflexivity.
  - repeat (apply andb_true_iff in H as [H ?]). cbn [forallb].
    repeat match goal with X : is_b64 _ = true |- _ => rewrite X; clear X end.
    cbn [orb andb]. apply IH. assumption.
Qed.

(* ============================================================================================ *)
(* base32                                                                                        *)
(* ============================================================================================ *)

(* the three classes a character can be in, with every test rewritten *)
Lemma class32 c :
  (exists v, v32 c = Some v /\ v < 32 /\ is_b32 c = true /\ is_padc c = false /\ Ascii.eqb c "=" = false) \/
  (v32 c = None /\ is_b32 c = false /\ is_padc c = true /\ Ascii.eqb c "=" = true) \/
  (v32 c = None /\ is_b32 c = false /\ is_padc c = false /\ Ascii.eqb c "=" = false).
Proof.
  rewrite is_b32_v32. change (Ascii.eqb c "=") with (is_padc c).
  destruct (v32 c) as [v|] eqn:E.
  - left. exists v. apply v32_some in E as [H1 H2]. repeat split; assumption.
  - destruct (is_padc c); [right; left | right; right]; repeat split; reflexivity.
Qed.

Ltac classify c :=
  let v := fresh "v" in let A := fresh "A" in let B := fresh "B" in let C := fresh "C" in
  let D := fresh "D" in let Hv := fresh "Hv" in
  destruct (class32 c) as [(v & A & Hv & B & C & D)|[(A & B & C & D)|(A & B & C & D)]];
  rewrite ?A, ?B, ?C, ?D; cbn [andb orb negb is_some]; try reflexivity.

Ltac shape32 :=
  unfold tail32, b32_tail, tail_kp, g32_2, g32_4, g32_5, g32_7, all_pad;
  cbn [firstn skipn forallb chars_eqb repeat List.length Nat.eqb Nat.sub andb orb is_some].

(* the short final group: the validator's four alternatives = the specification's final group *)
Lemma tail32_spec s : tail32 s = is_some (b32_tail s).
Proof.
  destruct s as [|c1 s]; [reflexivity|].
  destruct s as [|c2 s]; [shape32; reflexivity|].
  destruct s as [|c3 s]; [shape32; classify c1; classify c2|].
  destruct s as [|c4 s]; [shape32; classify c1; classify c2; classify c3|].
  destruct s as [|c5 s]; [shape32; classify c1; classify c2; classify c3; classify c4|].
  destruct s as [|c6 s]; [shape32; classify c1; classify c2; classify c3; classify c4; classify c5|].
  destruct s as [|c7 s]; [shape32; classify c1; classify c2; classify c3; classify c4; classify c5; classify c6|].
  destruct s as [|c8 s];
    [shape32; classify c1; classify c2; classify c3; classify c4; classify c5; classify c6; classify c7|].
  destruct s as [|c9 s].
  - shape32. classify c1; classify c2; classify c3; classify c4; classify c5; classify c6; classify c7; classify c8.
  - shape32. classify c1; classify c2; classify c3; classify c4; classify c5; classify c6; classify c7; classify c8;
      classify c9.
Qed.

(* a list that starts with eight alphabet characters is not a short final group *)
Lemma tail32_long a b c d e f g h l :
  is_b32 a = true -> is_b32 c = true -> is_b32 e = true -> is_b32 f = true -> is_b32 h = true ->
  tail32 (a :: b :: c :: d :: e :: f :: g :: h :: l) = false.
Proof.
  intros Ha Hc He Hf Hh. rewrite tail32_spec.
  rewrite is_b32_v32 in Ha, Hc, He, Hf, Hh.
  destruct (v32 c) as [vc|] eqn:Ec; [|discriminate Hc]. destruct (v32 e) as [ve|] eqn:Ee; [|discriminate He].
  destruct (v32 f) as [vf|] eqn:Ef; [|discriminate Hf]. destruct (v32 h) as [vh|] eqn:Eh; [|discriminate Hh].
  apply v32_some in Ec as [_ Pc]. apply v32_some in Ee as [_ Pe].
  apply v32_some in Ef as [_ Pf]. apply v32_some in Eh as [_ Ph].
  destruct l; [|reflexivity]. unfold b32_tail, all_pad. cbn [forallb]. rewrite Pc, Pe, Pf, Ph.
  cbn [andb]. rewrite ?andb_false_r. reflexivity.
Qed.

Lemma valid32_spec s : valid_base32_l s = is_some (b32_decode s).
Proof.
  induction s as [l L | a b c d e f g h l IH] using oct_ind.
  - destruct l as [|a [|b [|c [|d [|e [|f [|g [|h l]]]]]]]]; try (cbn in L; lia);
      cbn [valid_base32_l b32_decode]; rewrite orb_false_r; apply tail32_spec.
  - cbn [valid_base32_l b32_decode]. rewrite IH.
    destruct (is_b32 a && is_b32 b && is_b32 c && is_b32 d && is_b32 e && is_b32 f && is_b32 g && is_b32 h) eqn:All.
    + repeat (apply andb_true_iff in All as [All ?]).
      rewrite tail32_long by assumption. cbn [orb andb].
      repeat match goal with X : is_b32 _ = true |- _ => rewrite is_b32_v32 in X end.
      destruct (v32 a); [|discriminate]. destruct (v32 b); [|discriminate]. destruct (v32 c); [|discriminate].
      destruct (v32 d); [|discriminate]. destruct (v32 e); [|discriminate]. destruct (v32 f); [|discriminate].
      destruct (v32 g); [|discriminate]. destruct (v32 h); [|discriminate].
      destruct (b32_decode l); reflexivity.
    + cbn [andb]. rewrite orb_false_r. rewrite tail32_spec. rewrite !is_b32_v32 in All.
      destruct (v32 a); [|reflexivity]. destruct (v32 b); [|reflexivity]. destruct (v32 c); [|reflexivity].
      destruct (v32 d); [|reflexivity]. destruct (v32 e); [|reflexivity]. destruct (v32 f); [|reflexivity].
      destruct (v32 g); [|reflexivity]. destruct (v32 h); [|reflexivity]. discriminate All.
Qed.

Lemma b32val_bound c v : b32val c = Some v -> v < 2 ^ 5.
Proof. rewrite b32val_v32. intros H. now apply v32_some in H as [H _]. Qed.

Ltac some32 c x E H :=
  destruct (v32 c) as [x|] eqn:E; [|discriminate H].

(* the final group in the shape chars ++ pads, with the value the assembler computes *)
Lemma b32_tail_struct s b : b32_tail s = Some b ->
  exists chars p vals, s = chars ++ p /\ forallb is_padc p = true /\
    digit_vals b32val chars = Some vals /\ decode_bits 5 vals = b.
Proof.
  unfold b32_tail, g32_2, g32_4, g32_5, g32_7, all_pad.
  destruct s as [|c1 [|c2 [|c3 [|c4 [|c5 [|c6 [|c7 [|c8 [|c9 s]]]]]]]]]; intros H; try discriminate H.
  - inversion H. exists [], [], []. repeat split; reflexivity.
  - some32 c1 x1 E1 H. some32 c2 x2 E2 H. inversion H.
    exists [c1; c2], [], [x1; x2]. repeat split.
    + cbn [digit_vals]. now rewrite !b32val_v32, E1, E2.
    + apply v32_some in E1 as [? _]. apply v32_some in E2 as [? _]. now apply q32_1_ok.
  - some32 c1 x1 E1 H. some32 c2 x2 E2 H. some32 c3 x3 E3 H. some32 c4 x4 E4 H. inversion H.
    exists [c1; c2; c3; c4], [], [x1; x2; x3; x4]. repeat split.
    + cbn [digit_vals]. now rewrite !b32val_v32, E1, E2, E3, E4.
    + apply v32_some in E1 as [? _]. apply v32_some in E2 as [? _]. apply v32_some in E3 as [? _].
      apply v32_some in E4 as [? _]. now apply q32_2_ok.
  - some32 c1 x1 E1 H. some32 c2 x2 E2 H. some32 c3 x3 E3 H. some32 c4 x4 E4 H. some32 c5 x5 E5 H. inversion H.
    exists [c1; c2; c3; c4; c5], [], [x1; x2; x3; x4; x5]. repeat split.
    + cbn [digit_vals]. now rewrite !b32val_v32, E1, E2, E3, E4, E5.
    + apply v32_some in E1 as [? _]. apply v32_some in E2 as [? _]. apply v32_some in E3 as [? _].
      apply v32_some in E4 as [? _]. apply v32_some in E5 as [? _]. now apply q32_3_ok.
  - some32 c1 x1 E1 H. some32 c2 x2 E2 H. some32 c3 x3 E3 H. some32 c4 x4 E4 H. some32 c5 x5 E5 H.
    some32 c6 x6 E6 H. some32 c7 x7 E7 H. inversion H.
    exists [c1; c2; c3; c4; c5; c6; c7], [], [x1; x2; x3; x4; x5; x6; x7]. repeat split.
    + cbn [digit_vals]. now rewrite !b32val_v32, E1, E2, E3, E4, E5, E6, E7.
    + apply v32_some in E1 as [? _]. apply v32_some in E2 as [? _]. apply v32_some in E3 as [? _].
      apply v32_some in E4 as [? _]. apply v32_some in E5 as [? _]. apply v32_some in E6 as [? _].
      apply v32_some in E7 as [? _]. now apply q32_4_ok.
  - destruct (forallb is_padc [c3; c4; c5; c6; c7; c8]) eqn:P6.
    { some32 c1 x1 E1 H. some32 c2 x2 E2 H. inversion H.
      exists [c1; c2], [c3; c4; c5; c6; c7; c8], [x1; x2]. repeat split; [exact P6 | |].
      + cbn [digit_vals]. now rewrite !b32val_v32, E1, E2.
      + apply v32_some in E1 as [? _]. apply v32_some in E2 as [? _]. now apply q32_1_ok. }
    destruct (forallb is_padc [c5; c6; c7; c8]) eqn:P4.
    { some32 c1 x1 E1 H. some32 c2 x2 E2 H. some32 c3 x3 E3 H. some32 c4 x4 E4 H. inversion H.
      exists [c1; c2; c3; c4], [c5; c6; c7; c8], [x1; x2; x3; x4]. repeat split; [exact P4 | |].
      + cbn [digit_vals]. now rewrite !b32val_v32, E1, E2, E3, E4.
      + apply v32_some in E1 as [? _]. apply v32_some in E2 as [? _]. apply v32_some in E3 as [? _].
        apply v32_some in E4 as [? _]. now apply q32_2_ok. }
    destruct (forallb is_padc [c6; c7; c8]) eqn:P3.
    { some32 c1 x1 E1 H. some32 c2 x2 E2 H. some32 c3 x3 E3 H. some32 c4 x4 E4 H. some32 c5 x5 E5 H. inversion H.
      exists [c1; c2; c3; c4; c5], [c6; c7; c8], [x1; x2; x3; x4; x5]. repeat split; [exact P3 | |].
      + cbn [digit_vals]. now rewrite !b32val_v32, E1, E2, E3, E4, E5.
      + apply v32_some in E1 as [? _]. apply v32_some in E2 as [? _]. apply v32_some in E3 as [? _].
        apply v32_some in E4 as [? _]. apply v32_some in E5 as [? _]. now apply q32_3_ok. }
    destruct (forallb is_padc [c8]) eqn:P1; [|discriminate H].
    some32 c1 x1 E1 H. some32 c2 x2 E2 H. some32 c3 x3 E3 H. some32 c4 x4 E4 H. some32 c5 x5 E5 H.
    some32 c6 x6 E6 H. some32 c7 x7 E7 H. inversion H.
    exists [c1; c2; c3; c4; c5; c6; c7], [c8], [x1; x2; x3; x4; x5; x6; x7]. repeat split; [exact P1 | |].
    + cbn [digit_vals]. now rewrite !b32val_v32, E1, E2, E3, E4, E5, E6, E7.
    + apply v32_some in E1 as [? _]. apply v32_some in E2 as [? _]. apply v32_some in E3 as [? _].
      apply v32_some in E4 as [? _]. apply v32_some in E5 as [? _]. apply v32_some in E6 as [? _].
      apply v32_some in E7 as [? _]. now apply q32_4_ok.
Qed.

Lemma b32_struct s : forall b, b32_decode s = Some b ->
  exists chars p vals, s = chars ++ p /\ forallb is_padc p = true /\
    digit_vals b32val chars = Some vals /\ decode_bits 5 vals = b.
Proof.
  induction s as [l L | c1 c2 c3 c4 c5 c6 c7 c8 l IH] using oct_ind; intros out H.
  - apply b32_tail_struct.
    destruct l as [|a [|b [|c [|d [|e [|f [|g [|h l]]]]]]]]; try (cbn in L; lia); exact H.
  - cbn [b32_decode] in H.
    destruct (v32 c1) as [x1|] eqn:E1; [|now apply b32_tail_struct].
    destruct (v32 c2) as [x2|] eqn:E2; [|now apply b32_tail_struct].
    destruct (v32 c3) as [x3|] eqn:E3; [|now apply b32_tail_struct].
    destruct (v32 c4) as [x4|] eqn:E4; [|now apply b32_tail_struct].
    destruct (v32 c5) as [x5|] eqn:E5; [|now apply b32_tail_struct].
    destruct (v32 c6) as [x6|] eqn:E6; [|now apply b32_tail_struct].
    destruct (v32 c7) as [x7|] eqn:E7; [|now apply b32_tail_struct].
    destruct (v32 c8) as [x8|] eqn:E8; [|now apply b32_tail_struct].
    destruct (b32_decode l) as [b'|] eqn:El; [|discriminate H]. cbn in H. inversion H; subst out.
    destruct (IH b' eq_refl) as (chars & p & vals & -> & Hp & Hd & Hb).
    exists (c1 :: c2 :: c3 :: c4 :: c5 :: c6 :: c7 :: c8 :: chars), p,
           (x1 :: x2 :: x3 :: x4 :: x5 :: x6 :: x7 :: x8 :: vals).
    repeat split; [exact Hp | |].
    + cbn [digit_vals]. rewrite !b32val_v32, E1, E2, E3, E4, E5, E6, E7, E8, Hd. reflexivity.
    + change (x1 :: x2 :: x3 :: x4 :: x5 :: x6 :: x7 :: x8 :: vals)
        with ([x1; x2; x3; x4; x5; x6; x7; x8] ++ vals).
      rewrite (decode_bits_app 5 [x1; x2; x3; x4; x5; x6; x7; x8] vals 5).
      * apply v32_some in E1 as [? _]. apply v32_some in E2 as [? _]. apply v32_some in E3 as [? _].
        apply v32_some in E4 as [? _]. apply v32_some in E5 as [? _]. apply v32_some in E6 as [? _].
        apply v32_some in E7 as [? _]. apply v32_some in E8 as [? _].
        rewrite q32_ok by assumption. now rewrite Hb.
      * eapply digit_vals_bound; [|exact Hd]. exact b32val_bound.
      * reflexivity.
Qed.

Lemma b32_asm_spec s b : b32_decode s = Some b -> decode_base32 (string_of_list_ascii s) = Some b.
Proof.
  intros H. destruct (b32_struct s b H) as (chars & p & vals & -> & Hp & Hd & <-).
  apply decode_baseN_struct; [|exact Hp|exact Hd].
  intros c Hc. rewrite b32val_v32. now apply padc_v32.
Qed.

(* every character of an accepted text is an alphabet or pad character *)
Lemma struct_chars f chars p vals (P : ascii -> bool) :
  (forall c, f c <> None -> P c = true) -> (forall c, is_padc c = true -> P c = true) ->
  digit_vals f chars = Some vals -> forallb is_padc p = true -> forallb P (chars ++ p) = true.
Proof.
  intros Hf Hp Hd Hpad. rewrite forallb_app. apply andb_true_iff. split.
  - apply forallb_forall. intros c Hc. apply Hf. eapply digit_vals_in; eauto.
  - apply forallb_forall. intros c Hc. apply Hp. rewrite forallb_forall in Hpad. now apply Hpad.
Qed.

Lemma valid32_chars s : valid_base32_l s = true -> forallb (fun c => is_b32 c || is_pad c) s = true.
Proof.
  rewrite valid32_spec. destruct (b32_decode s) as [b|] eqn:E; [|discriminate]. intros _.
  destruct (b32_struct s b E) as (chars & p & vals & -> & Hp & Hd & _).
  eapply struct_chars; eauto.
  - intros c Hc. rewrite b32val_v32 in Hc. rewrite is_b32_v32. destruct (v32 c); [reflexivity | congruence].
  - intros c Hc. change (is_pad c) with (is_padc c). rewrite Hc. apply orb_true_r.
Qed.
