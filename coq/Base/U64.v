(* Base/U64.v — unsigned 64/128-bit arithmetic helpers over N. *)
From Coq Require Import NArith Bool List.
Local Open Scope N_scope.

Definition U64 : N := 18446744073709551616.            (* 2^64 *)
Definition U128 : N := U64 * U64.                      (* 2^128 *)
Definition MAXU64 : N := 18446744073709551615.

Definition fits64 (n : N) : bool := n <? U64.

Definition hi64 (n : N) : N := n / U64.
Definition lo64 (n : N) : N := n mod U64.

Definition b2N (b : bool) : N := if b then 1 else 0.

(* integer square root by Newton descent with fuel; exact for all N with enough fuel *)
Fixpoint isqrt_fuel (fuel : nat) (n x : N) : N :=
  match fuel with
  | O => x
  | S f =>
      let y := (x + n / x) / 2 in
      if y <? x then isqrt_fuel f n y else x
  end.
Definition isqrt (n : N) : N :=
  if n =? 0 then 0 else isqrt_fuel (S (N.to_nat (N.size n)) * 2) n (N.shiftl 1 ((N.size n + 1) / 2)).

Definition bitlen_N (n : N) : N := N.size n.
