(* Base/Bytes.v — byte strings as lists of [ascii]; big-endian integer codecs. *)
From Coq Require Import List NArith Ascii String Bool Lia.
Import ListNotations.
Local Open Scope N_scope.

Definition byte := ascii.
Definition bytes := list ascii.

Definition b2n (c : ascii) : N := N_of_ascii c.
Definition n2b (n : N) : ascii := ascii_of_N (n mod 256).

Definition bytes_of_string (s : string) : bytes := list_ascii_of_string s.
Definition string_of_bytes (b : bytes) : string := string_of_list_ascii b.

Fixpoint bytes_eqb (a b : bytes) : bool :=
  match a, b with
  | [], [] => true
  | x :: a', y :: b' => Ascii.eqb x y && bytes_eqb a' b'
  | _, _ => false
  end.

(* lexicographic comparison, used by b< etc. only through integer value, but also for sorting *)
Fixpoint bytes_ltb (a b : bytes) : bool :=
  match a, b with
  | [], [] => false
  | [], _ :: _ => true
  | _ :: _, [] => false
  | x :: a', y :: b' =>
      if N.ltb (b2n x) (b2n y) then true
      else if N.ltb (b2n y) (b2n x) then false
      else bytes_ltb a' b'
  end.

(* big-endian decoding of an arbitrary-length byte string *)
Fixpoint be_decode_acc (acc : N) (b : bytes) : N :=
  match b with
  | [] => acc
  | c :: b' => be_decode_acc (acc * 256 + b2n c) b'
  end.
Definition be_decode (b : bytes) : N := be_decode_acc 0 b.

(* big-endian encoding on exactly [len] bytes (value taken modulo 256^len) *)
Fixpoint be_encode (len : nat) (n : N) : bytes :=
  match len with
  | O => []
  | S l => be_encode l (n / 256) ++ [n2b n]
  end.

(* minimal big-endian encoding (no leading zero bytes; 0 ↦ []) — byte-math results *)
Fixpoint be_min_fuel (fuel : nat) (n : N) (acc : bytes) : bytes :=
  match fuel with
  | O => acc
  | S f => if N.eqb n 0 then acc else be_min_fuel f (n / 256) (n2b n :: acc)
  end.
Definition be_min (n : N) : bytes := be_min_fuel (S (N.to_nat (N.size n))) n [].

Definition blen (b : bytes) : N := N.of_nat (List.length b).

Definition bzero (n : nat) : bytes := repeat zero n.

(* substring [s, e) ; None when out of range *)
Definition bsub (b : bytes) (s e : N) : option bytes :=
  if (s <=? e) && (e <=? blen b)
  then Some (firstn (N.to_nat (e - s)) (skipn (N.to_nat s) b))
  else None.

(* extract start length *)
Definition bextract (b : bytes) (s l : N) : option bytes := bsub b s (s + l).

Fixpoint list_update {A} (l : list A) (i : nat) (x : A) : list A :=
  match l, i with
  | [], _ => []
  | _ :: t, O => x :: t
  | h :: t, S j => h :: list_update t j x
  end.

(* list indexing by a (possibly huge) N without building a huge nat *)
Definition nth_N {A} (l : list A) (i : N) : option A :=
  if N.ltb i (N.of_nat (List.length l)) then nth_error l (N.to_nat i) else None.
