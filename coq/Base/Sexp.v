(* Base/Sexp.v — s-expressions: the wire format between the Python harness and the extracted model.
   Reader and printers live in Coq so that the OCaml driver is a bare read-line/print-line loop. *)
From Coq Require Import List NArith Ascii String Bool.
From PV Require Import Base.Bytes.
Import ListNotations.
Local Open Scope string_scope.

Inductive sexp : Type :=
| Atom (s : string)
| Str (s : string)
| SList (l : list sexp).

Inductive token : Type := TL | TR | TAtom (s : string) | TStr (s : string).

Definition is_ws (c : ascii) : bool :=
  match N_of_ascii c with 32%N | 9%N | 10%N | 13%N => true | _ => false end.

Definition hexval (c : ascii) : option N :=
  let n := N_of_ascii c in
  if andb (N.leb 48 n) (N.leb n 57) then Some (n - 48)%N
  else if andb (N.leb 97 n) (N.leb n 102) then Some (n - 87)%N
  else if andb (N.leb 65 n) (N.leb n 70) then Some (n - 55)%N
  else None.

(* rev_append: linear (List.rev extracts to the quadratic rev l' ++ [x]); whole program texts pass through here *)
Definition rev_string (l : list ascii) : string := string_of_list_ascii (rev_append l []).

(* tokenizer: mode 0 = between tokens, 1 = in atom, 2 = in string *)
Fixpoint tok_str (s : list ascii) (acc : list ascii) : option (string * list ascii) :=
  match s with
  | [] => None
  | c :: t =>
      if Ascii.eqb c """" then Some (rev_string acc, t)
      else if Ascii.eqb c "\" then
        match t with
        | e :: t' =>
            if Ascii.eqb e "x" then
              match t' with
              | h1 :: h2 :: t'' =>
                  match hexval h1, hexval h2 with
                  | Some a, Some b => tok_str t'' (ascii_of_N (a * 16 + b) :: acc)
                  | _, _ => None
                  end
              | _ => None
              end
            else if Ascii.eqb e "n" then tok_str t' (ascii_of_N 10 :: acc)
            else tok_str t' (e :: acc)
        | [] => None
        end
      else tok_str t (c :: acc)
  end.

Fixpoint tok_atom (s : list ascii) (acc : list ascii) : string * list ascii :=
  match s with
  | [] => (rev_string acc, [])
  | c :: t =>
      if is_ws c || Ascii.eqb c "(" || Ascii.eqb c ")" then (rev_string acc, s)
      else tok_atom t (c :: acc)
  end.

Fixpoint tokenize (fuel : nat) (s : list ascii) : option (list token) :=
  match fuel with
  | O => match s with [] => Some [] | _ => None end
  | S f =>
      match s with
      | [] => Some []
      | c :: t =>
          if is_ws c then tokenize f t
          else if Ascii.eqb c "(" then option_map (cons TL) (tokenize f t)
          else if Ascii.eqb c ")" then option_map (cons TR) (tokenize f t)
          else if Ascii.eqb c """" then
            match tok_str t [] with
            | Some (x, rest) => option_map (cons (TStr x)) (tokenize f rest)
            | None => None
            end
          else let '(x, rest) := tok_atom s [] in option_map (cons (TAtom x)) (tokenize f rest)
      end
  end.

(* parser: a stack of partially built lists *)
Fixpoint parse_toks (ts : list token) (stack : list (list sexp)) : option sexp :=
  match ts with
  | [] => match stack with [[x]] => Some x | _ => None end
  | TL :: t => parse_toks t ([] :: stack)
  | TR :: t =>
      match stack with
      | cur :: parent :: rest => parse_toks t ((SList (rev cur) :: parent) :: rest)
      | _ => None
      end
  | TAtom a :: t =>
      match stack with cur :: rest => parse_toks t ((Atom a :: cur) :: rest) | [] => None end
  | TStr a :: t =>
      match stack with cur :: rest => parse_toks t ((Str a :: cur) :: rest) | [] => None end
  end.

Definition parse_sexp (s : string) : option sexp :=
  let l := list_ascii_of_string s in
  match tokenize (S (List.length l)) l with
  | Some ts => parse_toks ts [[]]
  | None => None
  end.

(* ---- numbers ---- *)
Fixpoint dec_acc (s : list ascii) (acc : N) : option N :=
  match s with
  | [] => Some acc
  | c :: t =>
      let n := N_of_ascii c in
      if andb (N.leb 48 n) (N.leb n 57) then dec_acc t (acc * 10 + (n - 48))%N else None
  end.
Definition N_of_dec (s : string) : option N :=
  match list_ascii_of_string s with [] => None | l => dec_acc l 0%N end.

Fixpoint dec_digits (fuel : nat) (n : N) (acc : list ascii) : list ascii :=
  match fuel with
  | O => acc
  | S f =>
      let d := ascii_of_N (48 + n mod 10) in
      if N.ltb n 10 then d :: acc else dec_digits f (n / 10) (d :: acc)
  end.
Definition N_to_dec (n : N) : string :=
  string_of_list_ascii (dec_digits (S (N.to_nat (N.size n))) n []).

Definition hexdigit (n : N) : ascii :=
  if N.ltb n 10 then ascii_of_N (48 + n) else ascii_of_N (87 + n).

Fixpoint hex_of_bytes (b : bytes) : list ascii :=
  match b with
  | [] => []
  | c :: t => hexdigit (N_of_ascii c / 16) :: hexdigit (N_of_ascii c mod 16) :: hex_of_bytes t
  end.
Definition bytes_to_hex (b : bytes) : string := string_of_list_ascii (hex_of_bytes b).

Fixpoint bytes_of_hex_l (s : list ascii) : option bytes :=
  match s with
  | [] => Some []
  | a :: b :: t =>
      match hexval a, hexval b, bytes_of_hex_l t with
      | Some x, Some y, Some r => Some (ascii_of_N (x * 16 + y) :: r)
      | _, _, _ => None
      end
  | _ => None
  end.
Definition bytes_of_hex (s : string) : option bytes := bytes_of_hex_l (list_ascii_of_string s).

(* ---- printing ---- *)
Fixpoint escape_str (s : list ascii) : list ascii :=
  match s with
  | [] => []
  | c :: t =>
      let n := N_of_ascii c in
      if Ascii.eqb c """" then "\"%char :: """"%char :: escape_str t
      else if Ascii.eqb c "\" then "\"%char :: "\"%char :: escape_str t
      else if orb (N.ltb n 32) (N.leb 127 n)
           then "\"%char :: "x"%char :: hexdigit (n / 16) :: hexdigit (n mod 16) :: escape_str t
      else c :: escape_str t
  end.

Definition quote (s : string) : string :=
  """" ++ string_of_list_ascii (escape_str (list_ascii_of_string s)) ++ """".

Fixpoint concat_sep (sep : string) (l : list string) : string :=
  match l with
  | [] => ""
  | [x] => x
  | x :: t => x ++ sep ++ concat_sep sep t
  end.

Fixpoint print_sexp (e : sexp) : string :=
  match e with
  | Atom a => a
  | Str s => quote s
  | SList l => "(" ++ concat_sep " " (map print_sexp l) ++ ")"
  end.

Definition sN (n : N) : sexp := Atom (N_to_dec n).
Definition sHex (b : bytes) : sexp := Atom ("x" ++ bytes_to_hex b).
