(* Hist/Events.v — the process-global state of PyTeal as a state machine (property C11).

   State (class attributes that survive between API calls of one interpreter process):
     g_slot    ScratchSlot.nextSlotId                     pyteal/ast/scratch.py:18
     g_sub     SubroutineDefinition.nextSubroutineId      pyteal/ast/subroutine.py:99
     g_marker  SubroutineEval._current_proto              pyteal/ast/subroutine.py:921
               (None, or the Proto of the frame-pointer subroutine being evaluated; the
                model keeps a tag naming that Proto and the length of its
                mem_layout.local_stack_types, which alloc_abstract_var appends to)

   Every API activity (building an expression, evaluating a subroutine body, probing, compiling,
   building a router) touches this state only through the primitive events below, nested by the
   Python control structures that surround them.  [run_ev] is a big-step interpreter for event
   trees; it returns the new state, the trace of identifiers handed out, and whether a Python
   exception is propagating.

   Two semantics of the context manager _frame_pointer_context (subroutine.py:840-845):
     Faithful  the code as it is: `tmp, cur = cur, proto; yield; cur = tmp` — the last assignment
               is skipped when the body raises;
     Fixed     the same with try/finally.
   Everything else is common to both modes.

   Not modelled: anything that is not a counter or the marker (Tmpl._session_templates only
   collects names; feature gates are only flipped by source-map calls and restored by
   sourcemapping_off_context's own try/finally). *)
From Coq Require Import NArith List Bool.
Import ListNotations.
Local Open Scope N_scope.

Definition NUM_SLOTS : N := 256.
Definition MAX_FRAME_LOCAL_VARS : N := 128.     (* pyteal/ast/frame.py *)

Inductive mode : Type := Faithful | Fixed.

Record gst : Type := mkG { g_slot : N; g_sub : N; g_marker : option (N * N) }.

Definition init_gst : gst := mkG NUM_SLOTS 0 None.

Inductive ev : Type :=
| EAlloc                         (* ScratchSlot() / ScratchVar() / DynamicScratchVar(): id := nextSlotId++ *)
| EReserved (n : N)              (* ScratchSlot(n): no counter involved; TealInputError when n >= 256 *)
| EAbi                           (* alloc_abstract_var (abstractvar.py:43): frame variable when the marker is set and has room, else EAlloc *)
| EDefSub                        (* SubroutineDefinition.__init__: id := nextSubroutineId++ *)
| ECtx (p : option (N * N)) (body : evs)   (* with _frame_pointer_context(p): body; p = (tag, locals so far) *)
| EProbe (body : evs)            (* s = nextSlotId; body; reset_slot_numbering(s) — subroutine.py:58-66 and 933-938, no finally *)
| EClean (body : evs)            (* s = nextSlotId; try: body finally: reset_slot_numbering(s) — router.py:1179-1186 *)
| ECatch (body : evs)            (* try: body except Exception: pass — abi/type.py:229-233 *)
| ERaise                         (* a Python exception is raised here *)
with evs : Type :=
| ENil
| ECons (e : ev) (es : evs).

Fixpoint evs_of_list (l : list ev) : evs :=
  match l with [] => ENil | e :: t => ECons e (evs_of_list t) end.
Fixpoint evs_app (a b : evs) : evs :=
  match a with ENil => b | ECons e t => ECons e (evs_app t b) end.
Fixpoint evs_repeat (e : ev) (n : nat) : evs :=
  match n with O => ENil | S k => ECons e (evs_repeat e k) end.

(* identifiers handed out *)
Inductive titem : Type :=
| TSlot (id : N)        (* automatic scratch slot with this id *)
| TRes (n : N)          (* reserved scratch slot *)
| TFrame (tag : N)      (* frame variable of the Proto tagged [tag] *)
| TSub (id : N).        (* subroutine definition with this id *)

Record res : Type := mkR { r_st : gst; r_tr : list titem; r_raised : bool }.

Definition set_marker (g : gst) (p : option (N * N)) : gst := mkG (g_slot g) (g_sub g) p.
Definition set_slot (g : gst) (s : N) : gst := mkG s (g_sub g) (g_marker g).

Definition alloc_slot (g : gst) : res :=
  mkR (mkG (g_slot g + 1) (g_sub g) (g_marker g)) [TSlot (g_slot g)] false.

Fixpoint run_ev (m : mode) (e : ev) (g : gst) {struct e} : res :=
  match e with
  | EAlloc => alloc_slot g
  | EReserved n =>
      if n <? NUM_SLOTS then mkR g [TRes n] false else mkR g [] true
  | EAbi =>
      match g_marker g with
      | Some (t, n) =>
          if n + 1 <=? MAX_FRAME_LOCAL_VARS
          then mkR (set_marker g (Some (t, n + 1))) [TFrame t] false
          else alloc_slot g
      | None => alloc_slot g
      end
  | EDefSub => mkR (mkG (g_slot g) (g_sub g + 1) (g_marker g)) [TSub (g_sub g)] false
  | ECtx p body =>
      let r := run_evs m body (set_marker g p) in
      if r_raised r then
        match m with
        | Faithful => r                                              (* marker left as the body left it *)
        | Fixed => mkR (set_marker (r_st r) (g_marker g)) (r_tr r) true
        end
      else mkR (set_marker (r_st r) (g_marker g)) (r_tr r) false
  | EProbe body =>
      let r := run_evs m body g in
      if r_raised r then r
      else mkR (set_slot (r_st r) (g_slot g)) (r_tr r) false
  | EClean body =>
      let r := run_evs m body g in
      mkR (set_slot (r_st r) (g_slot g)) (r_tr r) (r_raised r)
  | ECatch body =>
      let r := run_evs m body g in
      mkR (r_st r) (r_tr r) false
  | ERaise => mkR g [] true
  end
with run_evs (m : mode) (es : evs) (g : gst) {struct es} : res :=
  match es with
  | ENil => mkR g [] false
  | ECons e t =>
      let r1 := run_ev m e g in
      if r_raised r1 then r1
      else
        let r2 := run_evs m t (r_st r1) in
        mkR (r_st r2) (r_tr r1 ++ r_tr r2) (r_raised r2)
  end.

(* A history: top-level API calls executed one after the other; each call either returns or
   raises (the caller catches and goes on), the process state is what is carried over. *)
Fixpoint run_history (m : mode) (h : list evs) (g : gst) : gst :=
  match h with
  | [] => g
  | op :: t => run_history m t (r_st (run_evs m op g))
  end.

(* the renumbering a different starting state induces *)
Definition shift_st (a b : N) (g : gst) : gst := mkG (g_slot g + a) (g_sub g + b) (g_marker g).
Definition shift_item (a b : N) (t : titem) : titem :=
  match t with
  | TSlot i => TSlot (i + a)
  | TSub i => TSub (i + b)
  | other => other
  end.
Definition shift_res (a b : N) (r : res) : res :=
  mkR (shift_st a b (r_st r)) (map (shift_item a b) (r_tr r)) (r_raised r).

Definition marker_tag (g : gst) : option N := option_map fst (g_marker g).

(* event trees without the exception-swallowing construct *)
Fixpoint no_catch (e : ev) : bool :=
  match e with
  | ECtx _ b | EProbe b | EClean b => no_catch_s b
  | ECatch _ => false
  | _ => true
  end
with no_catch_s (es : evs) : bool :=
  match es with ENil => true | ECons e t => no_catch e && no_catch_s t end.
