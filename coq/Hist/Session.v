(* Hist/Session.v — the API calls of a session, translated to event trees (Hist/Events.v), with
   the per-subroutine declaration caches (pyteal/ast/subroutine.py:25-90) (property C11).

   A session state is the global state plus the table of subroutine objects known so far.  Each
   API call is translated — given the current caches — into ONE event tree, which is then run by
   [run_evs]; so every lemma about event trees holds for every step of every session.

   What the translation knows about a subroutine is its [subspec]: argument kinds, whether it has
   an ABI output, what its body allocates in order (and where it raises), which subroutines its
   blocks reference.  The harness computes the subspec from the same recipe from which it builds
   the real PyTeal objects.

   Out of this model: subroutine definitions nested in a body and CALLED from it (their object
   changes with every evaluation of the parent) — the harness sends such steps as [OOpaque] with
   the observed deltas, which are then only checked against the invariants proved for all event
   trees. *)
From Coq Require Import NArith List Bool.
From PV Require Import Hist.Events Hist.Assign.
Import ListNotations.
Local Open Scope N_scope.

Inductive decl : Type :=
| DVar                  (* ScratchVar() / ScratchSlot() / DynamicScratchVar() *)
| DRes (n : N)          (* ScratchVar(t, n) / ScratchSlot(n) *)
| DAbi                  (* an ABI value: abi.Uint64(), spec.new_instance(), ... *)
| DDefSub               (* a subroutine defined here and not called *)
| DRaise                (* a Python exception *)
| DStoreInto (h : N)    (* ReturnedValue.store_into of a call to subroutine h (abi/type.py:217-246) *)
| DProbe (h : N).       (* h.type_of() / h.has_return() on a SubroutineFnWrapper *)

Inductive argk : Type := AVal | ARef | AAbi.

Record subspec : Type := mkSpec {
  ss_args : list argk;
  ss_out : bool;              (* ABIReturnSubroutine with an output keyword argument *)
  ss_body : list decl;
  ss_bad_return : bool;       (* evaluate() raises after the body returned (not an Expr / wrong type) *)
  ss_calls : list N           (* subroutines referenced by the blocks of the declaration *)
}.

Record subrec : Type := mkRec {
  sr_h : N; sr_spec : subspec; sr_id : N;
  sr_norm : bool; sr_fp : bool;     (* option_map[False] / option_map[True] is filled *)
  sr_info : bool                    (* has_return / type_of are known *)
}.
Definition tbl : Type := list subrec.

Fixpoint find_sub (h : N) (t : tbl) : option subrec :=
  match t with
  | [] => None
  | r :: t' => if sr_h r =? h then Some r else find_sub h t'
  end.
Fixpoint update_sub (h : N) (f : subrec -> subrec) (t : tbl) : tbl :=
  match t with
  | [] => []
  | r :: t' => if sr_h r =? h then f r :: t' else r :: update_sub h f t'
  end.
Definition cached (r : subrec) (fp : bool) : bool := if fp then sr_fp r else sr_norm r.
Definition set_cached (fp v : bool) (r : subrec) : subrec :=
  if fp then mkRec (sr_h r) (sr_spec r) (sr_id r) (sr_norm r) v (sr_info r)
  else mkRec (sr_h r) (sr_spec r) (sr_id r) v (sr_fp r) (sr_info r).
Definition set_info (r : subrec) : subrec :=
  mkRec (sr_h r) (sr_spec r) (sr_id r) (sr_norm r) (sr_fp r) true.

(* does this tree let an exception escape?  (independent of state and mode: raised_indep_both) *)
Definition raises (es : evs) : bool := r_raised (run_evs Fixed es init_gst).

Definition one (e : ev) : evs := ECons e ENil.

Section WithEval.
  (* get_declaration_by_option of subroutine h, with less fuel *)
  Variable eval_rec : tbl -> N -> bool -> evs * tbl.

  (* __probe_info, subroutine.py:58-66 *)
  Definition probe_events (t : tbl) (h : N) (fp : bool) : evs * tbl :=
    match find_sub h t with
    | None => (ENil, t)
    | Some r =>
        if cached r fp then (ENil, t)
        else
          let '(es, t1) := eval_rec t h fp in
          (one (EProbe es), update_sub h (set_cached fp false) t1)
    end.

  (* __info_prepare, subroutine.py:68-76 *)
  Definition info_events (t : tbl) (h : N) : evs * tbl :=
    match find_sub h t with
    | None => (ENil, t)
    | Some r =>
        if sr_info r then (ENil, t)
        else
          let '(e1, t1) := probe_events t h false in
          if raises e1 then (e1, t1)
          else
            let '(e2, t2) := probe_events t1 h true in
            if raises e2 then (evs_app e1 e2, t2)
            else (evs_app e1 e2, update_sub h set_info t2)
    end.

  Definition decl_events (t : tbl) (d : decl) : evs * tbl :=
    match d with
    | DVar => (one EAlloc, t)
    | DRes n => (one (EReserved n), t)
    | DAbi => (one EAbi, t)
    | DDefSub => (one EDefSub, t)
    | DRaise => (one ERaise, t)
    | DStoreInto h => let '(es, t1) := eval_rec t h false in (one (ECatch es), t1)
    | DProbe h => info_events t h
    end.

  (* events of a sequence of declarations, up to and including the first one that raises *)
  Fixpoint body_events (t : tbl) (ds : list decl) : evs * tbl :=
    match ds with
    | [] => (ENil, t)
    | d :: ds' =>
        let '(e, t1) := decl_events t d in
        if raises e then (e, t1)
        else let '(es, t2) := body_events t1 ds' in (evs_app e es, t2)
    end.

  (* SubroutineEval.evaluate, subroutine.py:1028-1114 *)
  Definition arg_events (fp : bool) (a : argk) : evs :=
    match a, fp with
    | AVal, false => one EAlloc                                   (* ScratchVar(anytype) *)
    | AVal, true => ENil                                          (* FrameVar(proto, i).load() *)
    | ARef, _ => one EAlloc                                       (* DynamicScratchVar *)
    | AAbi, false => one (ECtx None (one EAbi))                   (* with _frame_pointer_context(None): new_instance() *)
    | AAbi, true => one (EProbe (one (ECtx None (one EAbi))))     (* _new_abi_instance_from_storage: allocate, rebind, rewind *)
    end.
  Fixpoint args_events (fp : bool) (l : list argk) : evs :=
    match l with [] => ENil | a :: t => evs_app (arg_events fp a) (args_events fp t) end.

  Definition eval_body (t : tbl) (h : N) (fp : bool) : evs * tbl :=
    match find_sub h t with
    | None => (ENil, t)
    | Some r =>
        if cached r fp then (ENil, t)
        else
          let sp := sr_spec r in
          let '(body, t1) := body_events t (ss_body sp) in
          let es :=
            evs_app (args_events fp (ss_args sp))
              (evs_app (if ss_out sp then arg_events fp AAbi else ENil)
                 (evs_app (one (ECtx (if fp then Some (h, if ss_out sp then 1 else 0) else None) body))
                    (if ss_bad_return sp then one ERaise else ENil))) in
          (es, if raises es then t1 else update_sub h (set_cached fp true) t1)
    end.
End WithEval.

Fixpoint eval_sub (fuel : nat) (t : tbl) (h : N) (fp : bool) : evs * tbl :=
  match fuel with
  | O => (ENil, t)
  | S k => eval_body (eval_sub k) t h fp
  end.

(* compileSubroutine's walk (compiler.py:139-231): for every node of [nodes] (first-visit order,
   Assign.corder) ask for its declaration, then lower it; stop at the first failure.
   [bad]: the subroutines whose declaration fails to lower in this compilation (__teal__ raises,
   e.g. an op above the program version) — after their evaluation, before their callees. *)
Fixpoint eval_nodes (fuel : nat) (t : tbl) (fp : bool) (bad : list N) (nodes : list N) : evs * tbl :=
  match nodes with
  | [] => (ENil, t)
  | h :: rest =>
      match find_sub h t with
      | None => eval_nodes fuel t fp bad rest            (* the main routine *)
      | Some r =>
          let '(e, t1) := eval_sub fuel t h fp in
          if raises e then (e, t1)
          else if memN h bad then (evs_app e (one ERaise), t1)
          else let '(es, t2) := eval_nodes fuel t1 fp bad rest in (evs_app e es, t2)
      end
  end.

Definition MAIN : N := 4294967295.       (* node of the main routine; never a handle *)

Definition key_of (t : tbl) (h : N) : N := match find_sub h t with Some r => sr_id r | None => 0 end.
Definition calls_of (t : tbl) (main_calls : list N) (h : N) : list N :=
  if h =? MAIN then main_calls else match find_sub h t with Some r => ss_calls (sr_spec r) | None => [] end.

(* one method of a router: handle of its ABIReturnSubroutine, number of arguments, returns a value? *)
Record rmethod : Type := mkM { rm_h : N; rm_nargs : nat; rm_returns : bool }.

Inductive op : Type :=
| OBuild (ds : list decl)                              (* building expressions at top level *)
| ODefSub (h : N) (sp : subspec)                       (* Subroutine(...)(fn) / ABIReturnSubroutine(fn) *)
| OProbe (h : N)                                       (* h.type_of() *)
| OCompile (calls : list N) (fp : bool) (main_fails : bool) (bad : list N)   (* compileTeal of an expression referencing [calls] *)
| ORouter (ms : list rmethod) (bare : list N) (fp : bool) (bad : list N)   (* Router.compile_program; [bad] as in OCompile *)
| OResetMarker                                         (* the session runner clears a stuck marker *)
| OOpaque (dslot dsub dlocals : N).                    (* a step outside the model: observed deltas (slot counter,
                                                          subroutine counter, locals of the Proto the marker names) *)

Record sstate : Type := mkS { s_g : gst; s_tbl : tbl }.
Definition init_sstate : sstate := mkS init_gst [].

Definition FUEL : nat := 64.

(* ASTBuilder.wrap_handler for a method, router.py:632-873 *)
Definition method_build_events (t : tbl) (fp : bool) (m : rmethod) : evs * tbl :=
  let args := evs_repeat EAbi (rm_nargs m) in
  let '(ret, t1) :=
    if rm_returns m then
      let '(es, t1) := eval_sub FUEL t (rm_h m) false in
      (ECons EAbi (one (ECatch es)), t1)                  (* output_temp; store_into asks for the declaration *)
    else (ENil, t) in
  (evs_app args (evs_app ret (if fp then one EDefSub else ENil)), t1).

Fixpoint methods_build_events (t : tbl) (fp : bool) (ms : list rmethod) : evs * tbl :=
  match ms with
  | [] => (ENil, t)
  | m :: rest =>
      let '(e, t1) := method_build_events t fp m in
      if raises e then (e, t1)
      else let '(es, t2) := methods_build_events t1 fp rest in (evs_app e es, t2)
  end.

(* compile of the approval program with frame pointers: each method is reached through a caster
   subroutine created by this build (ids above every existing one, in method order) *)
Fixpoint router_fp_walk (t : tbl) (bad : list N) (ms : list rmethod) (vis : list N) : evs * tbl :=
  match ms with
  | [] => (ENil, t)
  | m :: rest =>
      (* the caster's Proto(0, 0) already lists the decoded arguments and the output as locals *)
      let caster := one (ECtx (Some (rm_h m + MAIN, N.of_nat (rm_nargs m) + (if rm_returns m then 1 else 0))) ENil) in
      let vis1 := corder FUEL (key_of t) (calls_of t []) (rm_h m) vis in
      let fresh := filter (fun h => negb (memN h vis)) vis1 in
      let '(e, t1) := eval_nodes FUEL t true bad fresh in
      if raises e then (evs_app caster e, t1)
      else let '(es, t2) := router_fp_walk t1 bad rest vis1 in (evs_app caster (evs_app e es), t2)
  end.

(* BareCallActions.approval_construction: wrap_handler(False, h) asks h.type_of() of every
   subroutine used as a bare-call handler (router.py:596-607) *)
Fixpoint bare_events (t : tbl) (bare : list N) : evs * tbl :=
  match bare with
  | [] => (ENil, t)
  | h :: rest =>
      let '(e, t1) := info_events (eval_sub FUEL) t h in
      if raises e then (e, t1)
      else let '(es, t2) := bare_events t1 rest in (evs_app e es, t2)
  end.

Definition op_events (st : sstate) (o : op) : evs * tbl :=
  let t := s_tbl st in
  match o with
  | OBuild ds => body_events (eval_sub FUEL) t ds
  | ODefSub h sp => (one EDefSub, mkRec h sp (g_sub (s_g st)) false false false :: t)
  | OProbe h => info_events (eval_sub FUEL) t h
  | OCompile calls fp main_fails bad =>
      if main_fails then (one ERaise, t)
      else eval_nodes FUEL t fp bad (corder FUEL (key_of t) (calls_of t calls) MAIN [])
  | ORouter ms bare fp bad =>
      let '(b0, t0) := bare_events t bare in
      if raises b0 then (one (EClean b0), t0) else
      let '(b1, t1) := methods_build_events t0 fp ms in
      let b := evs_app b0 b1 in
      if raises b then (one (EClean b), t1)
      else if fp then
        let vis0 := corder FUEL (key_of t1) (calls_of t1 bare) MAIN [] in
        let '(e0, t2) := eval_nodes FUEL t1 true bad vis0 in
        if raises e0 then (one (EClean (evs_app b e0)), t2)
        else let '(e1, t3) := router_fp_walk t2 bad ms vis0 in (one (EClean (evs_app b (evs_app e0 e1))), t3)
      else
        let '(e, t2) := eval_nodes FUEL t1 false bad
                          (corder FUEL (key_of t1) (calls_of t1 (bare ++ map rm_h ms)) MAIN []) in
        (one (EClean (evs_app b e)), t2)
  | OResetMarker => (ENil, t)
  | OOpaque _ _ _ => (ENil, t)
  end.

Definition step (m : mode) (st : sstate) (o : op) : sstate * bool :=
  let '(es, t') := op_events st o in
  let r := run_evs m es (s_g st) in
  let g' :=
    match o with
    | OResetMarker => set_marker (r_st r) None
    | OOpaque ds du dl => mkG (g_slot (r_st r) + ds) (g_sub (r_st r) + du)
                              (match g_marker (r_st r) with Some (tg, n) => Some (tg, n + dl) | None => None end)
    | _ => r_st r
    end in
  (mkS g' t', r_raised r).

Fixpoint run_session (m : mode) (st : sstate) (ops : list op) : list (gst * bool) :=
  match ops with
  | [] => []
  | o :: rest => let '(st', raised) := step m st o in (s_g st', raised) :: run_session m st' rest
  end.

(* the identifiers handed out by each step (for statements about which objects hold which ids) *)
Fixpoint run_session_tr (m : mode) (st : sstate) (ops : list op) : list (list titem) :=
  match ops with
  | [] => []
  | o :: rest =>
      let '(es, _) := op_events st o in
      r_tr (run_evs m es (s_g st)) :: run_session_tr m (fst (step m st o)) rest
  end.
