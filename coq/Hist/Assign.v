(* Hist/Assign.v — the places of the compiler where slot ids and subroutine ids are USED (C11).

   ids are data here: a scratch-slot object is (object identity, id, reserved?), a subroutine object
   is (object identity, id).  Three functions of the compiler look at ids, and all three only sort:

     assign_slots   pyteal/compiler/scratchslots.py:90-170  assignScratchSlotsToSubroutines
                    `for slot in sorted(allSlots, key=lambda slot: slot.id)`
     resolve        pyteal/compiler/subroutines.py:276-283  resolveSubroutines
                    `sorted(allButMainRoutine, key=lambda subroutine: subroutine.id)` + enumerate
     corder         pyteal/compiler/compiler.py:139-231     compileSubroutine
                    `for subroutine in sorted(newSubroutines, key=lambda subroutine: subroutine.id)`

   Python sets are represented by lists (the iteration order of the set).  Python's sorted() is
   stable, so is [sort_by].  With distinct ids the iteration order is irrelevant
   (Proofs/HistoryAssign.v, assign_perm_invariant); with tied ids it is not (assign_tie_order_dependent),
   and for objects hashed by address that order is not a function of the program. *)
From Coq Require Import NArith List Bool.
Import ListNotations.
Local Open Scope N_scope.

(* ---------------- stable sort by a numeric key (Python: sorted(xs, key=...)) ---------------- *)
Section Sort.
  Context {A : Type}.
  Fixpoint insert_by (key : A -> N) (x : A) (l : list A) : list A :=
    match l with
    | [] => [x]
    | y :: t => if key x <=? key y then x :: y :: t else y :: insert_by key x t
    end.
  Definition sort_by (key : A -> N) (l : list A) : list A := fold_right (insert_by key) [] l.
End Sort.

Fixpoint enumerate_from {A} (n : N) (l : list A) : list (A * N) :=
  match l with [] => [] | x :: t => (x, n) :: enumerate_from (n + 1) t end.

Definition memN (x : N) (l : list N) : bool := existsb (N.eqb x) l.

(* ---------------- scratch slots ---------------- *)
Record slotobj : Type := mkSlot { so_oid : N; so_id : N; so_res : bool }.
Definition so_auto (o : slotobj) : bool := negb (so_res o).

(* `while nextSlotIndex in slotIds: nextSlotIndex += 1` — terminates because slotIds is finite;
   |slotIds| + 1 probes are always enough (next_free_spec). *)
Fixpoint next_free_fuel (fuel : nat) (used : list N) (n : N) : N :=
  match fuel with
  | O => n
  | S k => if memN n used then next_free_fuel k used (n + 1) else n
  end.
Definition next_free (used : list N) (n : N) : N := next_free_fuel (S (length used)) used n.

(* the numbering loop, scratchslots.py:148-159; result = slotAssignments in iteration order *)
Fixpoint assign_loop (L : list slotobj) (next : N) (used : list N) : list (slotobj * N) :=
  match L with
  | [] => []
  | o :: L' =>
      let next' := next_free used next in
      if so_res o then (o, so_id o) :: assign_loop L' next' used
      else (o, next') :: assign_loop L' next' (next' :: used)
  end.

Fixpoint first_dup (l : list N) (seen : list N) : option N :=
  match l with
  | [] => None
  | x :: t => if memN x seen then Some x else first_dup t (x :: seen)
  end.

Inductive assign_result : Type :=
| AssignOk (m : list (slotobj * N))
| AssignDupReserved (id : N)          (* TealInternalError "Slot ID .. has been assigned multiple times" *)
| AssignTooMany (n : nat).            (* TealInternalError "Too many slots in use" *)

Definition MAX_SLOTS : nat := 256.

Definition assign_slots (all : list slotobj) : assign_result :=
  let reserved := map so_id (filter so_res all) in
  match first_dup reserved [] with
  | Some d => AssignDupReserved d
  | None =>
      if Nat.ltb MAX_SLOTS (length all) then AssignTooMany (length all)
      else AssignOk (assign_loop (sort_by so_id all) 0 reserved)
  end.

(* renumbering of the automatic ids; reserved ids are requests of the user and stay *)
Definition rename_slot (f : N -> N) (o : slotobj) : slotobj :=
  if so_res o then o else mkSlot (so_oid o) (f (so_id o)) false.

Definition strictly_monotone (f : N -> N) : Prop := forall a b, a < b -> f a < f b.

(* "the object o gets number k" *)
Definition assigned (r : assign_result) (o : slotobj) (k : N) : Prop :=
  match r with AssignOk m => In (o, k) m | _ => False end.
Definition same_failure (r r' : assign_result) : Prop :=
  match r, r' with
  | AssignOk _, AssignOk _ => True
  | AssignDupReserved a, AssignDupReserved b => a = b
  | AssignTooMany a, AssignTooMany b => a = b
  | _, _ => False
  end.

(* ---------------- subroutine labels ---------------- *)
Record subobj : Type := mkSub { su_oid : N; su_id : N }.
Definition rename_sub (f : N -> N) (s : subobj) : subobj := mkSub (su_oid s) (f (su_id s)).

(* index i of the label "<name>_<i>" of every subroutine, in output order *)
Definition resolve (subs : list subobj) : list (subobj * N) :=
  enumerate_from 0 (sort_by su_id subs).

(* ---------------- compile order ---------------- *)
(* Nodes are object identities; [key o] is the id of subroutine object o; [calls o] the set of
   subroutines referenced by the blocks of o (the main routine is a node too).  Result: the keys of
   subroutine_start_blocks in insertion order = the order in which declarations are first asked for.
   A node that was in newSubroutines of its parent but got compiled deeper in the meantime is
   compiled again by the parent loop (the code does not re-check); it keeps its dict position. *)
Fixpoint dedup (l : list N) (seen : list N) : list N :=
  match l with
  | [] => []
  | x :: t => if memN x seen then dedup t seen else x :: dedup t (x :: seen)
  end.

Fixpoint corder (fuel : nat) (key : N -> N) (calls : N -> list N) (cur : N) (vis : list N) : list N :=
  match fuel with
  | O => vis
  | S k =>
      let vis1 := if memN cur vis then vis else vis ++ [cur] in
      let new := filter (fun s => negb (memN s vis1)) (dedup (calls cur) []) in
      fold_left (fun v s => corder k key calls s v) (sort_by key new) vis1
  end.

(* ---------------- reading objects off a trace of handed-out identifiers ---------------- *)
From PV Require Import Hist.Events.

Definition slot_at (tr : list titem) (pos : nat) : option slotobj :=
  match nth_error tr pos with
  | Some (TSlot i) => Some (mkSlot (N.of_nat pos) i false)
  | Some (TRes n) => Some (mkSlot (N.of_nat pos) n true)
  | _ => None
  end.
Definition sub_at (tr : list titem) (pos : nat) : option subobj :=
  match nth_error tr pos with
  | Some (TSub i) => Some (mkSub (N.of_nat pos) i)
  | _ => None
  end.
Fixpoint pick {A} (f : nat -> option A) (ps : list nat) : list A :=
  match ps with
  | [] => []
  | p :: t => match f p with Some x => x :: pick f t | None => pick f t end
  end.
Definition sub_key (tr : list titem) (oid : N) : N :=
  match nth_error tr (N.to_nat oid) with Some (TSub i) => i | _ => 0 end.

(* A program, as far as ids are concerned: the events from building it to the end of compiling it,
   and which of the objects created on the way are the slots / subroutines of the compiled blocks. *)
Record program : Type := mkP {
  p_events : evs;
  p_slots : list nat;        (* trace positions of the ScratchSlot objects in the blocks (set order) *)
  p_subs : list nat;         (* trace positions of the subroutine objects compiled *)
  p_main : N;                (* node of the main routine in the call graph *)
  p_calls : N -> list N;     (* call graph over trace positions (main: p_main) *)
  p_fuel : nat
}.

Record view : Type := mkV {
  v_slots : assign_result;            (* which object gets which slot number *)
  v_labels : list (N * N);            (* object identity, label index *)
  v_order : list N                    (* compile order *)
}.

Definition compile_view (m : mode) (p : program) (g : gst) : view :=
  let tr := r_tr (run_evs m (p_events p) g) in
  mkV (assign_slots (pick (slot_at tr) (p_slots p)))
      (map (fun '(s, k) => (su_oid s, k)) (resolve (pick (sub_at tr) (p_subs p))))
      (corder (p_fuel p) (sub_key tr) (p_calls p) (p_main p) []).

Definition same_view (a b : view) : Prop :=
  same_failure (v_slots a) (v_slots b) /\
  (forall oid k, (exists o, so_oid o = oid /\ assigned (v_slots a) o k) <->
                 (exists o, so_oid o = oid /\ assigned (v_slots b) o k)) /\
  v_labels a = v_labels b /\ v_order a = v_order b.
