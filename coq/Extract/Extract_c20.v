From Coq Require Import Extraction ExtrOcamlBasic ExtrOcamlNativeString. From PV Require Import Extract.Main_c20. Extraction "pv_c20.ml" handle.
