From Coq Require Import Extraction ExtrOcamlBasic ExtrOcamlNativeString. From PV Require Import Extract.Main_c08. Extraction "pv_c08.ml" handle.
