From Coq Require Import Extraction ExtrOcamlBasic ExtrOcamlNativeString. From PV Require Import Extract.Main_c04. Extraction "pv_c04.ml" handle.
