From Coq Require Import Extraction ExtrOcamlBasic ExtrOcamlNativeString. From PV Require Import Extract.Main_c07. Extraction "pv_c07.ml" handle.
