From Coq Require Import Extraction ExtrOcamlBasic ExtrOcamlNativeString. From PV Require Import Extract.Main_c06. Extraction "pv_c06.ml" handle.
