(* Extract/Main_c14.v — request handler of the extracted binary ocaml/pv_c14 (C14: InnerTxnBuilder.MethodCall).
   One request per line, one response per line.  Commands:
     (methodcall xSEL SIG APPID (ARG ...) (FIELD ...))   -> (ok TX ...) | (err CLASS)
           what MethodCall adds to the open inner group; TX = (("Field" VALUE) ...);
           xSEL = the selector of the signature string (the hash is not computed in Coq)
     (setfields (FIELD ...))                              -> (ok TX) | (err CLASS)
     (sigstr SIG)                                         -> "name(types)ret"
     (encode TYPE VAL)                                    -> (some xHEX) | (none)          arc4_encode
     (assignable A B)                                     -> true | false
     (pack (TYPE VAL) ...)                                -> (some xHEX ...) | (none)      Args.pack
   SIG    ::= (sig "name" (TYPE ...) void|TYPE)           TYPE / VAL: see ABI/Wire.v
   APPID  ::= none | other | XEXPR
   XEXPR  ::= (x uint|bytes|any|none VALUE) | (enum "name")      VALUE ::= N | xHEX
   FVAL   ::= XEXPR | (list XEXPR|bad ...) | (arr uint|bytes|any|none VALUE ...) | other
   FIELD  ::= ("Name" FVAL)
   ARG    ::= (expr XEXPR) | (abi TYPE VAL) | (refinst account|asset|application VALUE) | (dict FIELD ...) | other
   CLASS  ::= TealInputError | TealTypeError | TypeError | SdkError | outside-model *)
From Coq Require Import List Arith NArith Ascii String Bool.
From PV Require Import Base.Bytes Base.Sexp AVM.Syntax ABI.Types ABI.Spec ABI.Assignable ABI.Wire
  Router.Args Router.Itxn.
Import ListNotations.
Local Open Scope string_scope.

Definition err (m : string) : sexp := SList [Atom "error"; Str m].

Definition w_value (e : sexp) : option value :=
  match e with
  | Atom a => match N_of_dec a with
              | Some n => Some (VI n)
              | None => option_map VB (wa_hex a)
              end
  | _ => None
  end.

Definition p_value (v : value) : sexp := match v with VI n => sN n | VB b => sHex b end.

Definition w_tt (e : sexp) : option tt :=
  match e with
  | Atom a => if String.eqb a "uint" then Some T_uint else if String.eqb a "bytes" then Some T_bytes
              else if String.eqb a "any" then Some T_any else if String.eqb a "none" then Some T_none else None
  | _ => None
  end.

Definition w_xexpr (e : sexp) : option xexpr :=
  match e with
  | SList [Atom "x"; t; v] => match w_tt t, w_value v with Some t', Some v' => Some (XE t' v') | _, _ => None end
  | SList [Atom "enum"; Str n] => Some (XEnum n)
  | _ => None
  end.

Fixpoint w_all {A} (f : sexp -> option A) (l : list sexp) : option (list A) :=
  match l with
  | [] => Some []
  | x :: r => match f x, w_all f r with Some a, Some b => Some (a :: b) | _, _ => None end
  end.

Definition w_elem (e : sexp) : option (option xexpr) :=
  match e with
  | Atom "bad" => Some None
  | _ => option_map Some (w_xexpr e)
  end.

Definition w_fval (e : sexp) : option fval :=
  match e with
  | Atom "other" => Some FOther
  | SList (Atom "list" :: es) => option_map FList (w_all w_elem es)
  | SList (Atom "arr" :: t :: vs) =>
      match w_tt t, w_all w_value vs with Some t', Some vs' => Some (FArr t' vs') | _, _ => None end
  | _ => option_map FExpr (w_xexpr e)
  end.

Definition w_field (e : sexp) : option (string * fval) :=
  match e with
  | SList [Str f; v] => option_map (fun x => (f, x)) (w_fval v)
  | _ => None
  end.

Definition w_arg (e : sexp) : option iarg :=
  match e with
  | Atom "other" => Some IOther
  | SList [Atom "expr"; x] => option_map IExpr (w_xexpr x)
  | SList [Atom "abi"; t; v] => match w_ty t, w_val v with Some t', Some v' => Some (IAbi t' v') | _, _ => None end
  | SList [Atom "refinst"; Atom k; v] =>
      match w_ref_kind k, w_value v with Some k', Some v' => Some (IRefInst k' v') | _, _ => None end
  | SList (Atom "dict" :: fs) => option_map IDict (w_all w_field fs)
  | _ => None
  end.

Definition w_aid (e : sexp) : option aid :=
  match e with
  | Atom "none" => Some AidNone
  | Atom "other" => Some AidOther
  | _ => option_map AidExpr (w_xexpr e)
  end.

Definition w_sig (e : sexp) : option msig :=
  match e with
  | SList [Atom "sig"; Str name; SList ps; r] =>
      match w_all w_ty ps with
      | Some ps' =>
          match r with
          | Atom "void" => Some (mkSig name ps' None)
          | _ => option_map (fun t => mkSig name ps' (Some t)) (w_ty r)
          end
      | None => None
      end
  | _ => None
  end.

Definition p_ecls (e : ecls) : sexp :=
  SList [Atom "err"; Atom (match e with
                           | E_Input => "TealInputError" | E_Type => "TealTypeError" | E_PyType => "TypeError"
                           | E_Sdk => "SdkError" | E_Model => "outside-model"
                           end)].

Definition p_itx (x : itx) : sexp := SList (map (fun kv => SList [Str (fst kv); p_value (snd kv)]) x).

Definition do_methodcall (body : list sexp) : sexp :=
  match body with
  | [Atom sel; s; a; SList args; SList extra] =>
      match wa_hex sel, w_sig s, w_aid a, w_all w_arg args, w_all w_field extra with
      | Some sel', Some s', Some a', Some args', Some extra' =>
          match method_call (fun _ => sel') s' a' args' extra' with
          | Ok g => SList (Atom "ok" :: map p_itx g)
          | Err e => p_ecls e
          end
      | None, _, _, _, _ => err "bad selector"
      | _, None, _, _, _ => err "bad signature"
      | _, _, None, _, _ => err "bad app id"
      | _, _, _, None, _ => err "bad argument"
      | _, _, _, _, None => err "bad extra field"
      end
  | _ => err "methodcall: expected xSEL SIG APPID (ARG ...) (FIELD ...)"
  end.

Definition do_setfields (body : list sexp) : sexp :=
  match body with
  | [SList fs] =>
      match w_all w_field fs with
      | Some fs' => match set_fields fs' with Ok x => SList [Atom "ok"; p_itx x] | Err e => p_ecls e end
      | None => err "bad field"
      end
  | _ => err "setfields: expected (FIELD ...)"
  end.

Definition w_tv (e : sexp) : option (ty * val) :=
  match e with
  | SList [t; v] => match w_ty t, w_val v with Some t', Some v' => Some (t', v') | _, _ => None end
  | _ => None
  end.

Definition dispatch (e : sexp) : sexp :=
  match e with
  | SList (Atom cmd :: body) =>
      if String.eqb cmd "methodcall" then do_methodcall body
      else if String.eqb cmd "setfields" then do_setfields body
      else if String.eqb cmd "sigstr" then
        match body with
        | [s] => match w_sig s with Some s' => Str (arc4_sig_str s') | None => err "bad signature" end
        | _ => err "sigstr: expected SIG"
        end
      else if String.eqb cmd "encode" then
        match body with
        | [t; v] => match w_ty t, w_val v with
                    | Some t', Some v' => p_obytes (arc4_encode t' v')
                    | _, _ => err "bad type or value"
                    end
        | _ => err "encode: expected TYPE VAL"
        end
      else if String.eqb cmd "assignable" then
        match body with
        | [a; b] => match w_ty a, w_ty b with
                    | Some a', Some b' => p_bool (assignable a' b')
                    | _, _ => err "bad type"
                    end
        | _ => err "assignable: expected two types"
        end
      else if String.eqb cmd "pack" then
        match w_all w_tv body with
        | Some w => match pack w with
                    | Some bs => SList (Atom "some" :: map sHex bs)
                    | None => SList [Atom "none"]
                    end
        | None => err "pack: expected (TYPE VAL) ..."
        end
      else err ("unknown command " ++ cmd)
  | _ => err "expected (command ...)"
  end.

Definition handle (line : string) : string :=
  match parse_sexp line with
  | Some e => print_sexp (dispatch e)
  | None => print_sexp (err "unreadable request")
  end.
