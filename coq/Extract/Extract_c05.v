From Coq Require Import Extraction ExtrOcamlBasic ExtrOcamlNativeString. From PV Require Import Extract.Main_c05. Extraction "pv_c05.ml" handle.
