(* Extract/Main_c18.v — request handler of the C18 binary (ocaml/pv_c18).
   Requests (one per line):
     (splitlines "text")                 -> (ok "line" ...)            Comp.Annotate.splitlines
     (stream "teal text")                -> (ok ("tok" ...) ...)       statements of the text as the tokeniser reads them
                                                                       (comments gone), labels renamed by first occurrence
     (statements "teal text")            -> (ok ("tok" ...) ...)       the same without renaming
     (sublabel "name" INDEX)             -> (ok "label" "header text" (("tok" ...) ...))
                                            label, assembled header, statements the header reads as
     (compile (opts ...) (prog ...))     -> (ok "line" ...) | (err KIND)
                                            compile_model of the program after [expand] (marker nodes replaced by the
                                            annotation constructors of Comp/Annotate.v); lines = assembled components
*)
From Coq Require Import List Arith NArith Ascii String Bool.
From PV Require Import Base.Bytes Base.Sexp AVM.Syntax AVM.Parse Comp.Assemble Src.Expr Comp.Lower Comp.Compile
  Comp.Annotate Extract.Wire Extract.WireExpr.
Import ListNotations.
Local Open Scope string_scope.

Definition err (m : string) : sexp := SList [Atom "error"; Str m].

Definition p_stmts (ss : list (list string)) : list sexp := map (fun ts => SList (map Str ts)) ss.

Definition do_splitlines (body : list sexp) : sexp :=
  match body with
  | [Str text] => SList (Atom "ok" :: map Str (splitlines text))
  | _ => err "splitlines: expected a string"
  end.

Definition do_stream (body : list sexp) : sexp :=
  match body with
  | [Str text] => SList (Atom "ok" :: p_stmts (text_stream text))
  | _ => err "stream: expected a string"
  end.

Definition do_statements (body : list sexp) : sexp :=
  match body with
  | [Str text] => SList (Atom "ok" :: p_stmts (text_statements text))
  | _ => err "statements: expected a string"
  end.

Definition do_sublabel (body : list sexp) : sexp :=
  match body with
  | [Str name; i] =>
      match w_N i with
      | Some idx =>
          match assemble_comp (sub_header name idx) with
          | Some h => SList [Atom "ok"; Str (sub_label name idx); Str h; SList (p_stmts (text_statements h))]
          | None => err "sublabel: cannot assemble"
          end
      | None => err "sublabel: bad index"
      end
  | _ => err "sublabel: expected a name and an index"
  end.

Definition do_compile (body : list sexp) : sexp :=
  match body with
  | [SList (Atom "opts" :: ob); pe] =>
      match w_opts ob, w_prog pe with
      | Some (inl o), Some p =>
          match compile_model o gen_modes (expand_prog p) with
          | COk lines => SList (Atom "ok" :: map Str lines)
          | CErr e => SList [Atom "err"; p_cerr e]
          end
      | Some (inr e), Some _ => SList [Atom "err"; p_cerr e]
      | None, _ => err "compile: bad options"
      | _, None => err "compile: unreadable program recipe"
      end
  | _ => err "compile: expected (opts ...) (prog ...)"
  end.

Definition dispatch (e : sexp) : sexp :=
  match e with
  | SList (Atom cmd :: body) =>
      if String.eqb cmd "splitlines" then do_splitlines body
      else if String.eqb cmd "stream" then do_stream body
      else if String.eqb cmd "statements" then do_statements body
      else if String.eqb cmd "sublabel" then do_sublabel body
      else if String.eqb cmd "compile" then do_compile body
      else err ("unknown command " ++ cmd)
  | _ => err "expected (command ...)"
  end.

Definition handle (line : string) : string :=
  match parse_sexp line with
  | Some e => print_sexp (dispatch e)
  | None => print_sexp (err "unreadable request")
  end.
