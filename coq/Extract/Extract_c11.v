From Coq Require Import Extraction ExtrOcamlBasic ExtrOcamlNativeString. From PV Require Import Extract.Main_c11. Extraction "pv_c11.ml" handle.
