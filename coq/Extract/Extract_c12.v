From Coq Require Import Extraction ExtrOcamlBasic ExtrOcamlNativeString. From PV Require Import Extract.Main_c12. Extraction "pv_c12.ml" handle.
