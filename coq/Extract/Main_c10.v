(* Extract/Main_c10.v — request handler of the C10 model binary (ocaml/pv_c10).
   Requests (one s-expression per line):
     (assign VALID ROUTINE ...)      VALID = true | false (the validateSlots parameter)
        ROUTINE = (OP ...)   OP = (KIND ARG ...)   KIND = load | store | int | other
        ARG = (s UID ID RES) with RES = 0 | 1, or a decimal number, or a "string"
        -> (ok (map ((UID ID RES) N) ...) (ops ((ARG' ...) ...) ...) (locals (N ...) ...))
           | (err dup ID (conflicts ID ...)) | (err toomany N) | (err validate)
     (collect ROUTINE ...)           -> (collected (global UID ...) (locals (UID ...) ...) (all UID ...))
     (newslot UID COUNTER REQ)       REQ = none | (pos N) | (neg N)
        -> (slot UID ID RES COUNTER') | (invalid)
     (alloc STATE K)                 STATE = none | N  -> (allocs (KINDS ...) STATE')   KINDS = (f N) | s *)
From Coq Require Import List Arith NArith ZArith Ascii String Bool.
From PV Require Import Base.Bytes Base.Sexp Gen.SlotConfig Comp.Slots Extract.Wire.
Import ListNotations.
Local Open Scope string_scope.

Definition err (m : string) : sexp := SList [Atom "error"; Str m].

Definition w_slot (l : list sexp) : option slot :=
  match l with
  | [u; i; r] =>
      match w_N u, w_N i, w_N r with
      | Some u', Some i', Some r' => Some (mkSlot u' i' (negb (N.eqb r' 0)))
      | _, _, _ => None
      end
  | _ => None
  end.

Definition w_arg (e : sexp) : option oarg :=
  match e with
  | SList (Atom "s" :: rest) => option_map ASlot (w_slot rest)
  | Atom a => option_map ANum (N_of_dec a)
  | Str s => Some (AText s)
  | _ => None
  end.

Definition w_kind (e : sexp) : option okind :=
  match e with
  | Atom a =>
      if String.eqb a "load" then Some KLoad
      else if String.eqb a "store" then Some KStore
      else if String.eqb a "int" then Some KInt
      else if String.eqb a "other" then Some KOther
      else None
  | _ => None
  end.

Definition w_op (e : sexp) : option op :=
  match e with
  | SList (k :: args) =>
      match w_kind k, w_list w_arg args with
      | Some k', Some a => Some (mkOp k' a)
      | _, _ => None
      end
  | _ => None
  end.

Definition w_routine (e : sexp) : option routine :=
  match e with SList ops => w_list w_op ops | _ => None end.

Definition p_slot (s : slot) : sexp := SList [sN (sl_uid s); sN (sl_id s); sN (if sl_res s then 1%N else 0%N)].

Definition p_arg (a : oarg) : sexp :=
  match a with
  | ASlot s => SList [Atom "s"; sN (sl_uid s)]
  | ANum n => sN n
  | AText s => Str s
  end.

Definition do_assign (body : list sexp) : sexp :=
  match body with
  | Atom v :: rs =>
      match w_list w_routine rs with
      | Some inp =>
          match assign inp (String.eqb v "true") with
          | Ok a =>
              SList [Atom "ok";
                     SList (Atom "map" :: map (fun kv => SList [p_slot (fst kv); sN (snd kv)]) (r_map a));
                     SList (Atom "ops" :: map (fun r => SList (map (fun o => SList (map p_arg (o_args o))) r)) (r_ops a));
                     SList (Atom "locals" :: map (fun l => SList (map sN l)) (r_locals a))]
          | Err (SlotIdAssignedTwice i) =>
              SList [Atom "err"; Atom "dup"; sN i; SList (Atom "conflicts" :: map sN (conflict_ids (all_slots inp)))]
          | Err (TooManySlots n) => SList [Atom "err"; Atom "toomany"; sN n]
          | Err ValidateFailed => SList [Atom "err"; Atom "validate"]
          end
      | None => err "assign: bad routines"
      end
  | _ => err "assign: expected true|false and routines"
  end.

Definition do_collect (body : list sexp) : sexp :=
  match w_list w_routine body with
  | Some inp =>
      let '(g, ls) := collect inp in
      SList [Atom "collected";
             SList (Atom "global" :: map (fun s => sN (sl_uid s)) g);
             SList (Atom "locals" :: map (fun l => SList (map (fun s => sN (sl_uid s)) l)) ls);
             SList (Atom "all" :: map (fun s => sN (sl_uid s)) (all_slots inp))]
  | None => err "collect: bad routines"
  end.

Definition do_newslot (body : list sexp) : sexp :=
  match body with
  | [u; c; r] =>
      match w_N u, w_N c with
      | Some u', Some c' =>
          let req : option (option Z) :=
            match r with
            | Atom _ => Some None
            | SList [Atom sg; n] =>
                match w_N n with
                | Some n' => Some (Some (if String.eqb sg "neg" then Z.opp (Z.of_N n') else Z.of_N n'))
                | None => None
                end
            | _ => None
            end in
          match req with
          | Some rq =>
              match new_slot u' rq c' with
              | NewSlot s c'' => SList [Atom "slot"; sN (sl_uid s); sN (sl_id s); sN (if sl_res s then 1%N else 0%N); sN c'']
              | InvalidSlotId => SList [Atom "invalid"]
              end
          | None => err "newslot: bad request"
          end
      | _, _ => err "newslot: bad numbers"
      end
  | _ => err "newslot: expected uid counter req"
  end.

Definition p_state (st : option N) : sexp := match st with Some n => sN n | None => Atom "none" end.

Definition do_alloc (body : list sexp) : sexp :=
  match body with
  | [s; k] =>
      match w_nat k with
      | Some k' =>
          let st := match s with Atom a => N_of_dec a | _ => None end in
          let '(vs, st') := alloc_many k' st in
          SList [Atom "allocs";
                 SList (map (fun v => match v with FrameVarAt n => SList [Atom "f"; sN n] | ScratchVarNew => Atom "s" end) vs);
                 p_state st']
      | None => err "alloc: bad count"
      end
  | _ => err "alloc: expected state and count"
  end.

Definition do_config (_ : list sexp) : sexp :=
  SList [Atom "config"; sN NUM_SLOTS; sN MAX_FRAME_LOCAL_VARS].

Definition dispatch (e : sexp) : sexp :=
  match e with
  | SList (Atom cmd :: body) =>
      if String.eqb cmd "assign" then do_assign body
      else if String.eqb cmd "collect" then do_collect body
      else if String.eqb cmd "newslot" then do_newslot body
      else if String.eqb cmd "alloc" then do_alloc body
      else if String.eqb cmd "config" then do_config body
      else err ("unknown command " ++ cmd)
  | _ => err "expected (command ...)"
  end.

Definition handle (line : string) : string :=
  match parse_sexp line with
  | Some e => print_sexp (dispatch e)
  | None => print_sexp (err "unreadable request")
  end.
