(* Extract/Main_c09.v — request handler of the extracted binary ocaml/pv_c09 (C09: router argument
   binding / return logging).  One request per line, one response per line.  Commands:
     (run (ctx ...) "teal")                      -> as the main binary: execute TEAL on the AVM model
     (encode T V)                                -> (some xHEX) | (none)            arc4_encode
     (member (T ...) J xHEX)                     -> (some xHEX) | (none)            member_bytes (wire types)
     (sigstr "subname" "regname" (T ...) RET)    -> (sig "arc4 signature" "dispatched signature" "contract signature" ROUTABLE)
     (plan (T ...))                              -> (plan (tupled T ...) B ...)      binding_plan
     (client xSEL xSENDER APPID (T ...) (A ...)) -> (call (args x..) (accounts x..) (assets n..) (apps n..) (txns (TYPE xBODY)..)) | (none)
     (bind xSEL xSENDER APPID (T ...) (A ...) (G ...))
                                                 -> (bounds R ...) | (none)   eval_all member_bytes of binding_plan on
                                                    client_encode, group = G ++ txns ++ [call], gi = |G| + |txns|
     (glue FL RET xSEL xSENDER APPID (T ...) (A ...) (G ...))
                                                 -> (bounds R ...) | (none)   decode_steps FL executed, then read_args
   RET ::= void | T      FL ::= scratch | fp     G ::= (TYPE xBODY)
   A ::= (val V) | (txn TYPE xBODY) | (account xADDR) | (asset N) | (app N)
   B ::= (val SRC T) | (ref SRC KIND) | (txn BACK KIND)     SRC ::= (arg I) | (member SLOT J)
   R ::= (bytes xHEX) | (index KIND N) | (txn GIDX TYPE xBODY)
   Types / values: ABI/Wire.v. *)
From Coq Require Import List Arith NArith Ascii String Bool.
From PV Require Import Base.Bytes Base.Sexp AVM.Syntax AVM.Ops AVM.Machine AVM.Parse
  ABI.Types ABI.Spec ABI.Layout ABI.Wire Router.Args Extract.Wire.
Import ListNotations.
Local Open Scope string_scope.

Definition err (m : string) : sexp := SList [Atom "error"; Str m].

Definition do_run (body : list sexp) : sexp :=
  match body with
  | [SList (Atom "ctx" :: cb); Str text] =>
      match w_ctx cb with
      | None => err "bad ctx"
      | Some ri =>
          match parse_program (ri_msel ri) text with
          | None => SList [Atom "parse-error"]
          | Some p =>
              let '(v, m) := run (ri_fuel ri) (ri_ctx ri) p (init_mach (ri_state ri)) in
              SList [Atom "ran"; p_verdict v;
                     SList (Atom "stack" :: map p_value (m_stack m));
                     SList (Atom "trace" :: map p_event (rev (s_trace (m_st m))));
                     SList [Atom "scratch"; p_scratch (s_scratch (m_st m))];
                     SList [Atom "pc"; sN (N.of_nat (m_pc m))]]
          end
      end
  | _ => err "run: expected (ctx ...) and a program text"
  end.

Fixpoint w_tys (l : list sexp) : option (list ty) :=
  match l with
  | [] => Some []
  | x :: r => match w_ty x, w_tys r with Some t, Some ts => Some (t :: ts) | _, _ => None end
  end.

Definition w_ret (e : sexp) : option (option ty) :=
  match e with
  | Atom "void" => Some None
  | _ => option_map Some (w_ty e)
  end.

Definition w_gtx (e : sexp) : option gtx :=
  match e with
  | SList [ty; Atom b] =>
      match wa_N ty, wa_hex b with
      | Some n, Some bs => Some (mkGtx n bs)
      | _, _ => None
      end
  | _ => None
  end.

Definition w_carg (e : sexp) : option carg :=
  match e with
  | SList [Atom "val"; v] => option_map CVal (w_val v)
  | SList [Atom "txn"; ty; Atom b] =>
      match wa_N ty, wa_hex b with
      | Some n, Some bs => Some (CTxn (mkGtx n bs))
      | _, _ => None
      end
  | SList [Atom "account"; Atom a] => option_map CAccount (wa_hex a)
  | SList [Atom "asset"; n] => option_map CAsset (wa_N n)
  | SList [Atom "app"; n] => option_map CApp (wa_N n)
  | _ => None
  end.

Definition p_gtx (x : gtx) : sexp := SList [sN (g_type x); sHex (g_body x)].

Definition p_source (s : source) : sexp :=
  match s with
  | SArg i => SList [Atom "arg"; sN (N.of_nat i)]
  | SMember slot _ j => SList [Atom "member"; sN (N.of_nat slot); sN (N.of_nat j)]
  end.

Definition p_binding (b : binding) : sexp :=
  match b with
  | BVal s t => SList [Atom "val"; p_source s; p_ty t]
  | BRef s k => SList [Atom "ref"; p_source s; Atom (p_ref_kind k)]
  | BTxn back k => SList [Atom "txn"; sN (N.of_nat back); Atom (p_txn_kind k)]
  end.

Definition p_bound (r : bound) : sexp :=
  match r with
  | RBytes bs => SList [Atom "bytes"; sHex bs]
  | RIndex k i => SList [Atom "index"; Atom (p_ref_kind k); sN i]
  | RTxn g x => SList [Atom "txn"; sN (N.of_nat g); sN (g_type x); sHex (g_body x)]
  end.

Definition do_plan (body : list sexp) : sexp :=
  match body with
  | [SList ts] =>
      match w_tys ts with
      | Some tys =>
          SList (Atom "plan" :: SList (Atom "tupled" :: map p_ty (tupled_types tys)) :: map p_binding (binding_plan tys))
      | None => err "plan: bad type"
      end
  | _ => err "plan: expected a type list"
  end.

Definition p_call (c : call) : sexp :=
  SList [Atom "call";
         SList (Atom "args" :: map sHex (c_args c));
         SList (Atom "accounts" :: map sHex (c_accounts c));
         SList (Atom "assets" :: map sN (c_assets c));
         SList (Atom "apps" :: map sN (c_apps c));
         SList (Atom "txns" :: map p_gtx (c_txns c))].

Definition with_call (body : list sexp) (k : list ty -> call -> list sexp -> sexp) : sexp :=
  match body with
  | Atom sel :: Atom sender :: app :: SList ts :: SList args :: rest =>
      match wa_hex sel, wa_hex sender, wa_N app, w_tys ts, w_list w_carg args with
      | Some sel', Some sender', Some app', Some tys, Some args' =>
          match client_encode sel' sender' app' (mkSig "" tys None) args' with
          | Some c => k tys c rest
          | None => SList [Atom "none"]
          end
      | _, _, _, _, _ => err "unreadable call"
      end
  | _ => err "expected xSEL xSENDER APPID (types) (args) ..."
  end.

Definition me_gtx : gtx := mkGtx 6 [].

Definition do_bind (body : list sexp) : sexp :=
  with_call body (fun tys c rest =>
    match rest with
    | [SList g] =>
        match w_list w_gtx g with
        | Some before =>
            match eval_all member_bytes (c_args c) (group_of before c me_gtx []) (group_index_of before c) (binding_plan tys) with
            | Some bs => SList (Atom "bounds" :: map p_bound bs)
            | None => SList [Atom "none"]
            end
        | None => err "bind: bad group"
        end
    | _ => err "bind: expected the transactions before"
    end).

Definition do_glue (body : list sexp) : sexp :=
  match body with
  | Atom fl :: ret :: rest =>
      let flv := if String.eqb fl "fp" then FramePointer else Scratch in
      match w_ret ret with
      | Some r =>
          let has_out := match r with Some _ => true | None => false end in
          with_call rest (fun tys c rest' =>
            match rest' with
            | [SList g] =>
                match w_list w_gtx g with
                | Some before =>
                    match exec_gsteps member_bytes (c_args c) (group_of before c me_gtx []) (group_index_of before c) []
                                      (decode_steps flv has_out tys) with
                    | Some cs =>
                        match read_args cs (map (arg_cell flv has_out) (seq 0 (List.length tys))) with
                        | Some bs => SList (Atom "bounds" :: map p_bound bs)
                        | None => SList [Atom "none"]
                        end
                    | None => SList [Atom "none"]
                    end
                | None => err "glue: bad group"
                end
            | _ => err "glue: expected the transactions before"
            end)
      | None => err "glue: bad return type"
      end
  | _ => err "glue: expected FLAVOUR RET ..."
  end.

Definition do_sigstr (body : list sexp) : sexp :=
  match body with
  | [Str subname; Str regname; SList ts; ret] =>
      match w_tys ts, w_ret ret with
      | Some tys, Some r =>
          let reg := mkReg (mkSig subname tys r) None (if String.eqb subname regname then None else Some regname) None in
          SList [Atom "sig"; Str (arc4_sig_str (registered_sig reg)); Str (dispatched_sig_str reg);
                 Str (spec_sig_str (spec_of reg)); p_bool (routable (r_sig reg))]
      | _, _ => err "sigstr: bad type"
      end
  | _ => err "sigstr: expected subroutine name, registered name, types, return"
  end.

Definition do_member (body : list sexp) : sexp :=
  match body with
  | [SList ts; j; Atom h] =>
      match w_tys ts, wa_N j, wa_hex h with
      | Some tys, Some j', Some bs => p_obytes (member_bytes tys (N.to_nat j') bs)
      | _, _, _ => err "member: unreadable"
      end
  | _ => err "member: expected (types) J xHEX"
  end.

Definition do_encode (body : list sexp) : sexp :=
  match body with
  | [t; v] => match w_ty t, w_val v with
              | Some t', Some v' => p_obytes (arc4_encode t' v')
              | None, _ => err "bad type"
              | _, None => err "bad value"
              end
  | _ => err "expected a type and a value"
  end.

Definition dispatch (e : sexp) : sexp :=
  match e with
  | SList (Atom cmd :: body) =>
      if String.eqb cmd "run" then do_run body
      else if String.eqb cmd "encode" then do_encode body
      else if String.eqb cmd "member" then do_member body
      else if String.eqb cmd "sigstr" then do_sigstr body
      else if String.eqb cmd "plan" then do_plan body
      else if String.eqb cmd "client" then with_call body (fun _ c _ => p_call c)
      else if String.eqb cmd "bind" then do_bind body
      else if String.eqb cmd "glue" then do_glue body
      else err ("unknown command " ++ cmd)
  | _ => err "expected (command ...)"
  end.

Definition handle (line : string) : string :=
  match parse_sexp line with
  | Some e => print_sexp (dispatch e)
  | None => print_sexp (err "unreadable request")
  end.
