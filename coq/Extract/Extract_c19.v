From Coq Require Import Extraction ExtrOcamlBasic ExtrOcamlNativeString. From PV Require Import Extract.Main_c19. Extraction "pv_c19.ml" handle.
