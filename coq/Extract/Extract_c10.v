From Coq Require Import Extraction ExtrOcamlBasic ExtrOcamlNativeString. From PV Require Import Extract.Main_c10. Extraction "pv_c10.ml" handle.
