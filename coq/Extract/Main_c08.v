(* Extract/Main_c08.v — request handler of the extracted binary ocaml/pv_c08 (Router dispatch, C08).
   One request per line, one response per line.  Wire forms:
     cc    := never | call | create | all           oc := 0..5 (protocol numbering)
     mc    := (mc cc cc cc cc cc cc)                 no_op opt_in close_out clear_state update delete
     oca   := (oca none|N cc)                        action handler id, call_config
     ba    := (ba oca oca oca oca oca oca)           same order as mc
     m     := (m xSEL mc N)                          selector, config, handler id
     cfg   := (cfg ba none|N (m ...))                bare actions, clear_state handler, methods in order
     call  := (call (xARG ...) oc 0|1)               application args, OnCompletion, 1 = ApplicationID is 0
   Commands:
     (run (ctx ...) "teal")            as in the main binary: execute TEAL on the AVM model
     (runs (msel ...) "teal" (c (xARG ...) oc appid) ...) -> (r (verdict xLOG ...) ...)   one program, many application calls
     (register ba none|N (m ...))      -> (ok) | (err kind)
     (cfgok cfg)                       -> true | false
     (table cfg call ...)              -> (t (D A) ...)  D = dispatch: (runs N) | rejects | fails ; A = allowed: (some N) | none
     (clear cfg call ...)              -> (t (D A) ...)  the clear-state program / clear_allowed
     (acond mc)                        -> (K "bits") K = zero | one | (expr "pyteal str") ; bits: acond_holds for oc 0..5 x create 0,1 (x = fails)
     (mcinfo mc)                       -> (postinit-ok is-never)
     (bare ba)                         -> none | (some PROG "outcomes")   approval_construction and its outcome for oc 0..5 x create 0,1 with no args
     (program cfg)                     -> (APPROVAL CLEAR)  printed skeletons
     (decorator o o o o o o)           -> (ok mc) | (err kind)    o = none | cc ; no_op opt_in close_out clear_state update delete
*)
From Coq Require Import List Arith NArith Ascii String Bool.
From PV Require Import Base.Bytes Base.Sexp AVM.Syntax AVM.Ops AVM.Machine AVM.Parse Extract.Wire Router.Dispatch.
Import ListNotations.
Local Open Scope string_scope.

Definition err (m : string) : sexp := SList [Atom "error"; Str m].

Definition do_run (body : list sexp) : sexp :=
  match body with
  | [SList (Atom "ctx" :: cb); Str text] =>
      match w_ctx cb with
      | None => err "bad ctx"
      | Some ri =>
          match parse_program (ri_msel ri) text with
          | None => SList [Atom "parse-error"]
          | Some p =>
              let '(v, m) := run (ri_fuel ri) (ri_ctx ri) p (init_mach (ri_state ri)) in
              SList [Atom "ran"; p_verdict v;
                     SList (Atom "stack" :: map p_value (m_stack m));
                     SList (Atom "trace" :: map p_event (rev (s_trace (m_st m))));
                     SList [Atom "pc"; sN (N.of_nat (m_pc m))]]
          end
      end
  | _ => err "run: expected (ctx ...) and a program text"
  end.

(* (runs (msel ("sig" xSEL) ...) "teal" (c (xARG ...) oc appid) ...) -> (r (verdict xLOG ...) ...)
   the program is parsed once and run on one application-call context per (c ...) form: a single-transaction
   group, TypeEnum appl, the given ApplicationArgs / NumAppArgs / OnCompletion / ApplicationID (CurrentApplicationID
   is 1234 on creation), fuel 6000 *)
Definition zero32 : bytes := repeat Ascii.zero 32.

Definition call_ctx (args : list bytes) (oc appid : N) : ctx :=
  let fields := [("OnCompletion", VI oc); ("ApplicationID", VI appid); ("NumAppArgs", VI (N.of_nat (List.length args)));
                 ("TypeEnum", VI 6); ("GroupIndex", VI 0); ("Fee", VI 1000); ("Sender", VB zero32)] in
  let t := mkTxn fields [("ApplicationArgs", map VB args)] [] 0 in
  mkCtx true [t] 0 [("MinTxnFee", VI 1000); ("GroupSize", VI 1); ("ZeroAddress", VB zero32)] []
        (if N.eqb appid 0 then 1234%N else appid).

Definition w_cctx (e : sexp) : option ctx :=
  match e with
  | SList [Atom "c"; SList args; o; a] =>
      match w_list w_bytes args, w_N o, w_N a with
      | Some args, Some o, Some a => Some (call_ctx args o a)
      | _, _, _ => None
      end
  | _ => None
  end.

Definition logs_of (tr : list event) : list sexp :=
  flat_map (fun e => match e with ELog b => [sHex b] | _ => [] end) tr.

Definition do_runs (body : list sexp) : sexp :=
  match body with
  | SList (Atom "msel" :: ms) :: Str text :: calls =>
      match w_list (w_pair w_string w_bytes) ms, w_list w_cctx calls with
      | Some msel, Some cxs =>
          match parse_program msel text with
          | None => SList [Atom "parse-error"]
          | Some p =>
              SList (Atom "r" :: map (fun cx =>
                let '(v, m) := run (N.to_nat 6000) cx p (init_mach (init_state [] [] [])) in
                SList (p_verdict v :: logs_of (rev (s_trace (m_st m))))) cxs)
          end
      | _, _ => err "runs: unreadable"
      end
  | _ => err "runs: expected (msel ...) teal calls"
  end.

(* ---- readers ---- *)
Definition w_cc (e : sexp) : option call_config :=
  match e with
  | Atom a => if String.eqb a "never" then Some NEVER else if String.eqb a "call" then Some CALL
              else if String.eqb a "create" then Some CREATE else if String.eqb a "all" then Some ALL else None
  | _ => None
  end.

Definition w_oc (e : sexp) : option on_complete :=
  match w_N e with
  | Some 0%N => Some NoOp | Some 1%N => Some OptIn | Some 2%N => Some CloseOut | Some 3%N => Some ClearState
  | Some 4%N => Some UpdateApplication | Some 5%N => Some DeleteApplication
  | _ => None
  end.

Definition w_opt {A} (f : sexp -> option A) (e : sexp) : option (option A) :=
  match e with
  | Atom a => if String.eqb a "none" then Some None else option_map Some (f e)
  | _ => option_map Some (f e)
  end.

Definition w_mc (e : sexp) : option method_config :=
  match e with
  | SList [Atom "mc"; a; b; c; d; e'; f] =>
      match w_cc a, w_cc b, w_cc c, w_cc d, w_cc e', w_cc f with
      | Some a, Some b, Some c, Some d, Some e', Some f => Some (mkMC a b c d e' f)
      | _, _, _, _, _, _ => None
      end
  | _ => None
  end.

Definition w_oca (e : sexp) : option oc_action :=
  match e with
  | SList [Atom "oca"; a; c] =>
      match w_opt w_N a, w_cc c with Some a, Some c => Some (mkOCA a c) | _, _ => None end
  | _ => None
  end.

Definition w_ba (e : sexp) : option bare_actions :=
  match e with
  | SList [Atom "ba"; a; b; c; d; e'; f] =>
      match w_oca a, w_oca b, w_oca c, w_oca d, w_oca e', w_oca f with
      | Some a, Some b, Some c, Some d, Some e', Some f => Some (mkBA a b c d e' f)
      | _, _, _, _, _, _ => None
      end
  | _ => None
  end.

Definition w_method (e : sexp) : option method :=
  match e with
  | SList [Atom "m"; s; c; h] =>
      match w_bytes s, w_mc c, w_N h with Some s, Some c, Some h => Some (mkMethod s c h) | _, _, _ => None end
  | _ => None
  end.

Definition w_cfg (e : sexp) : option router_cfg :=
  match e with
  | SList [Atom "cfg"; b; cl; SList ms] =>
      match w_ba b, w_opt w_N cl, w_list w_method ms with
      | Some b, Some cl, Some ms => Some (mkRouter b cl ms)
      | _, _, _ => None
      end
  | _ => None
  end.

Definition w_call (e : sexp) : option call :=
  match e with
  | SList [Atom "call"; SList args; o; cr] =>
      match w_list w_bytes args, w_oc o, w_N cr with
      | Some a, Some o, Some n => Some (mkCall a o (negb (N.eqb n 0)))
      | _, _, _ => None
      end
  | _ => None
  end.

(* ---- printers ---- *)
Definition p_cc (c : call_config) : sexp :=
  Atom (match c with NEVER => "never" | CALL => "call" | CREATE => "create" | ALL => "all" end).

Definition oc_name (o : on_complete) : string :=
  match o with
  | NoOp => "NoOp" | OptIn => "OptIn" | CloseOut => "CloseOut" | ClearState => "ClearState"
  | UpdateApplication => "UpdateApplication" | DeleteApplication => "DeleteApplication"
  end.

(* the text str(expr) gives for the real expression; a method selector prints as (MethodSignature xHEX) *)
Fixpoint show_c (e : cexpr) : string :=
  match e with
  | EOcEq o => "(== (Txn OnCompletion) (IntEnum " ++ oc_name o ++ "))"
  | EAppIdNe0 => "(!= (Txn ApplicationID) (Int 0))"
  | EAppIdEq0 => "(== (Txn ApplicationID) (Int 0))"
  | EAnd a b => "(&& " ++ show_c a ++ " " ++ show_c b ++ ")"
  | EOr l => "(||" ++ (fix go (l : list cexpr) : string :=
                         match l with [] => "" | x :: t => " " ++ show_c x ++ go t end) l ++ ")"
  | ENumArgsEq0 => "(== (Txn NumAppArgs) (Int 0))"
  | EArg0Eq s => "(== (Txna ApplicationArgs 0) (MethodSignature x" ++ bytes_to_hex s ++ "))"
  end.

Fixpoint p_prog (p : prog) : sexp :=
  match p with
  | PReject => SList [Atom "reject"]
  | PHandler h => SList [Atom "handler"; sN h]
  | PAssert e k => SList [Atom "assert"; Str (show_c e); p_prog k]
  | PCond arms => SList (Atom "cond" :: (fix go (l : list (cexpr * prog)) : list sexp :=
                                           match l with
                                           | [] => []
                                           | a :: t => SList [Str (show_c (fst a)); p_prog (snd a)] :: go t
                                           end) arms)
  end.

Definition p_outcome (o : outcome) : sexp :=
  match o with
  | RunsHandler h => SList [Atom "runs"; sN h]
  | Rejects => Atom "rejects"
  | Fails => Atom "fails"
  end.

Definition p_bool (b : bool) : sexp := Atom (if b then "true" else "false").

Definition p_opt_h (o : option handler) : sexp :=
  match o with Some h => SList [Atom "some"; sN h] | None => Atom "none" end.

Definition p_regerr (e : reg_error) : sexp :=
  Atom (match e with
        | ErrActionContradicts => "action-contradicts" | ErrBareClearState => "bare-clear-state"
        | ErrMethodClearState => "method-clear-state" | ErrNeverExecuted => "never-executed"
        | ErrReRegistering => "re-registering"
        end).

Definition p_mc (m : method_config) : sexp :=
  SList [Atom "mc"; p_cc (mc_no_op m); p_cc (mc_opt_in m); p_cc (mc_close_out m); p_cc (mc_clear_state m);
         p_cc (mc_update_application m); p_cc (mc_delete_application m)].

Definition all_oc : list on_complete := [NoOp; OptIn; CloseOut; ClearState; UpdateApplication; DeleteApplication].

(* the 12 calls (oc 0..5) x (create 0, 1) with the given arguments *)
Definition calls12 (args : list bytes) : list call :=
  flat_map (fun o => [mkCall args o false; mkCall args o true]) all_oc.

Definition bit_of (o : option bool) : ascii :=
  match o with Some true => "1"%char | Some false => "0"%char | None => "x"%char end.

Definition outcome_char (o : outcome) : list ascii :=
  match o with
  | RunsHandler h => list_ascii_of_string ("h" ++ N_to_dec h ++ ";")
  | Rejects => list_ascii_of_string "r;"
  | Fails => list_ascii_of_string "f;"
  end.

(* ---- commands ---- *)
Definition do_register (body : list sexp) : sexp :=
  match body with
  | [b; cl; SList ms] =>
      match w_ba b, w_opt w_N cl, w_list w_method ms with
      | Some b, Some cl, Some ms =>
          match register b cl ms with
          | RegOk _ => SList [Atom "ok"]
          | RegErr e => SList [Atom "err"; p_regerr e]
          end
      | _, _, _ => err "register: unreadable"
      end
  | _ => err "register: expected ba clear (methods)"
  end.

Definition do_table (clear : bool) (body : list sexp) : sexp :=
  match body with
  | c :: calls =>
      match w_cfg c, w_list w_call calls with
      | Some r, Some cs =>
          SList (Atom "t" :: map (fun c =>
                                    if clear then SList [p_outcome (dispatch_clear r c); p_opt_h (clear_allowed r)]
                                    else SList [p_outcome (dispatch r c); p_opt_h (allowed r c)]) cs)
      | _, _ => err "table: unreadable"
      end
  | _ => err "table: expected cfg call ..."
  end.

Definition do_acond (body : list sexp) : sexp :=
  match body with
  | [m] =>
      match w_mc m with
      | Some m =>
          let a := approval_cond m in
          SList [match a with AC0 => Atom "zero" | AC1 => Atom "one" | ACE e => SList [Atom "expr"; Str (show_c e)] end;
                 Str (string_of_list_ascii (map (fun c => bit_of (acond_holds a c)) (calls12 [])))]
      | None => err "acond: unreadable"
      end
  | _ => err "acond: expected mc"
  end.

Definition do_mcinfo (body : list sexp) : sexp :=
  match body with
  | [m] => match w_mc m with
           | Some m => SList [p_bool (mc_post_init_ok m); p_bool (mc_is_never m)]
           | None => err "mcinfo: unreadable"
           end
  | _ => err "mcinfo: expected mc"
  end.

Definition do_bare (body : list sexp) : sexp :=
  match body with
  | [b] =>
      match w_ba b with
      | Some b =>
          match approval_construction b with
          | None => Atom "none"
          | Some p => SList [Atom "some"; p_prog p;
                             Str (string_of_list_ascii (flat_map (fun c => outcome_char (run_prog p c)) (calls12 [])))]
          end
      | None => err "bare: unreadable"
      end
  | _ => err "bare: expected ba"
  end.

Definition do_program (body : list sexp) : sexp :=
  match body with
  | [c] => match w_cfg c with
           | Some r => SList [p_prog (approval_program r); p_prog (clear_program r)]
           | None => err "program: unreadable"
           end
  | _ => err "program: expected cfg"
  end.

Definition do_decorator (body : list sexp) : sexp :=
  match w_list (w_opt w_cc) body with
  | Some [a; b; c; d; e; f] =>
      match decorator_config a b c d e f with
      | RegOk m => SList [Atom "ok"; p_mc m]
      | RegErr x => SList [Atom "err"; p_regerr x]
      end
  | _ => err "decorator: expected six optional call configs"
  end.

Definition do_cfgok (body : list sexp) : sexp :=
  match body with
  | [c] => match w_cfg c with Some r => p_bool (cfg_ok r) | None => err "cfgok: unreadable" end
  | _ => err "cfgok: expected cfg"
  end.

Definition dispatch_cmd (e : sexp) : sexp :=
  match e with
  | SList (Atom cmd :: body) =>
      if String.eqb cmd "run" then do_run body
      else if String.eqb cmd "runs" then do_runs body
      else if String.eqb cmd "register" then do_register body
      else if String.eqb cmd "cfgok" then do_cfgok body
      else if String.eqb cmd "table" then do_table false body
      else if String.eqb cmd "clear" then do_table true body
      else if String.eqb cmd "acond" then do_acond body
      else if String.eqb cmd "mcinfo" then do_mcinfo body
      else if String.eqb cmd "bare" then do_bare body
      else if String.eqb cmd "program" then do_program body
      else if String.eqb cmd "decorator" then do_decorator body
      else err ("unknown command " ++ cmd)
  | _ => err "expected (command ...)"
  end.

Definition handle (line : string) : string :=
  match parse_sexp line with
  | Some e => print_sexp (dispatch_cmd e)
  | None => print_sexp (err "unreadable request")
  end.
