(* Extract/Main_c13.v — commands of the C13 model binary (ocaml/pv_c13): the literal models of
   Lit/, the RFC 4648 specification, and the assembler's reading of one TEAL line (AVM/Parse.v).
   Every command takes a list of items and answers with the list of results (batching). *)
From Coq Require Import List Arith NArith ZArith Ascii String Bool.
From PV Require Import Base.Bytes Base.Sexp AVM.Syntax AVM.Machine AVM.Parse Extract.Wire
  Lit.Escape Lit.BaseN Lit.RFC4648 Lit.GoTok.
Import ListNotations.
Local Open Scope string_scope.

Definition err (m : string) : sexp := SList [Atom "error"; Str m].
Definition p_bool (b : bool) : sexp := Atom (if b then "true" else "false").
Definition p_ostr (o : option string) : sexp :=
  match o with Some s => SList [Atom "some"; Str s] | None => SList [Atom "none"] end.
Definition p_obytes (o : option bytes) : sexp :=
  match o with Some b => SList [Atom "some"; sHex b] | None => SList [Atom "none"] end.

Definition each (f : sexp -> sexp) (body : list sexp) : sexp := SList (Atom "ok" :: map f body).

Definition on_bytes (f : bytes -> sexp) (e : sexp) : sexp :=
  match w_bytes e with Some b => f b | None => err "expected bytes" end.
Definition on_str (f : string -> sexp) (e : sexp) : sexp :=
  match e with Str s => f s | _ => err "expected a string" end.

(* a possibly negative decimal integer *)
Definition w_Z (e : sexp) : option Z :=
  match e with
  | Atom (String c r as a) =>
      if Ascii.eqb c "-" then option_map (fun n => Z.opp (Z.of_N n)) (N_of_dec r)
      else option_map Z.of_N (N_of_dec a)
  | _ => None
  end.

Definition w_bytes_arg (e : sexp) : option bytes_arg :=
  match e with
  | SList [Atom k; x] =>
      if String.eqb k "utf8" then option_map BUtf8 (w_bytes x)
      else if String.eqb k "raw" then option_map BRaw (w_bytes x)
      else None
  | SList [Atom k; Str b; Str v] => if String.eqb k "base" then Some (BBase b v) else None
  | _ => None
  end.

Definition p_imm (i : imm) : sexp :=
  match i with
  | IInt n => SList [Atom "int"; sN n]
  | IBytes b => SList [Atom "bytes"; sHex b]
  | IName s => SList [Atom "name"; Str s]
  end.

Definition p_stmt (r : option (option stmt)) : sexp :=
  match r with
  | None => SList [Atom "bad"]
  | Some None => SList [Atom "empty"]
  | Some (Some (SInstr i)) => SList (Atom "instr" :: Str (opc_name (p_op i)) :: map p_imm (p_imms i))
  | Some (Some (SLabel l)) => SList [Atom "label"; Str l]
  | Some (Some (SPragma v)) => SList [Atom "pragma"; sN v]
  end.

(* (asm (msel ("sig" xSEL) ...) "line" ...) : tokens and statements of each line *)
Definition do_asm (tokf : string -> list string) (body : list sexp) : sexp :=
  match body with
  | SList (Atom _ :: ms) :: lines =>
      match w_list (w_pair w_string w_bytes) ms with
      | Some msel =>
          each (on_str (fun line =>
            let ts := tokf line in
            SList [SList (Atom "tokens" :: map Str ts);
                   SList (Atom "stmts" :: map (fun g => p_stmt (parse_stmt msel g)) (split_semis ts []))])) lines
      | None => err "asm: bad msel"
      end
  | _ => err "asm: expected (msel ...) and lines"
  end.

Definition dispatch (e : sexp) : sexp :=
  match e with
  | SList (Atom cmd :: body) =>
      if String.eqb cmd "escape" then each (on_bytes (fun b => Str (escape_str b))) body
      else if String.eqb cmd "bytes-line" then
        each (fun x => match w_bytes_arg x with Some a => p_ostr (bytes_line a) | None => err "bad bytes arg" end) body
      else if String.eqb cmd "int-line" then
        each (fun x => match w_Z x with Some z => p_ostr (int_line z) | None => err "bad integer" end) body
      else if String.eqb cmd "addr-line" then each (on_str (fun s => p_ostr (addr_line s))) body
      else if String.eqb cmd "method-line" then each (on_str (fun s => p_ostr (method_line s))) body
      else if String.eqb cmd "valid16" then each (on_str (fun s => p_bool (valid_base16 s))) body
      else if String.eqb cmd "valid32" then each (on_str (fun s => p_bool (valid_base32 s))) body
      else if String.eqb cmd "valid64" then each (on_str (fun s => p_bool (valid_base64 s))) body
      else if String.eqb cmd "validaddr" then each (on_str (fun s => p_bool (valid_address s))) body
      else if String.eqb cmd "spec-dec16" then each (on_str (fun s => p_obytes (b16_decode (list_ascii_of_string s)))) body
      else if String.eqb cmd "spec-dec32" then each (on_str (fun s => p_obytes (b32_decode (list_ascii_of_string s)))) body
      else if String.eqb cmd "spec-dec64" then each (on_str (fun s => p_obytes (b64_decode (list_ascii_of_string s)))) body
      else if String.eqb cmd "spec-enc64" then each (on_bytes (fun b => Str (string_of_list_ascii (b64_encode b)))) body
      else if String.eqb cmd "spec-enc32" then each (on_bytes (fun b => Str (string_of_list_ascii (b32_encode true b)))) body
      else if String.eqb cmd "spec-enc32np" then each (on_bytes (fun b => Str (string_of_list_ascii (b32_encode false b)))) body
      else if String.eqb cmd "asm-dec32" then each (on_str (fun s => p_obytes (decode_base32 s))) body
      else if String.eqb cmd "asm-dec64" then each (on_str (fun s => p_obytes (decode_base64 s))) body
      else if String.eqb cmd "asm-dechex" then each (on_str (fun s => p_obytes (decode_hex0x s))) body
      else if String.eqb cmd "asm-strlit" then each (on_str (fun s => p_obytes (parse_string_literal s))) body
      else if String.eqb cmd "asm" then do_asm tokens_of_line body
      else if String.eqb cmd "asm-prevchar" then do_asm go_tokens_of_line body
      else err ("unknown command " ++ cmd)
  | _ => err "expected (command ...)"
  end.

Definition handle (line : string) : string :=
  match parse_sexp line with
  | Some e => print_sexp (dispatch e)
  | None => print_sexp (err "unreadable request")
  end.
