(* Extract/WireExpr.v — s-expression reader for recipes (Src/Expr.v) and compile options. *)
From Coq Require Import List Arith NArith Ascii String Bool.
From PV Require Import Base.Bytes Base.Sexp AVM.Syntax Src.Expr Comp.Lower Extract.Wire Gen.Tables.
Import ListNotations.
Local Open Scope string_scope.

Definition w_ty (e : sexp) : option ty :=
  match e with
  | Atom "u" => Some TUint | Atom "b" => Some TBytes | Atom "a" => Some TAny | Atom "n" => Some TNone
  | _ => None
  end.

Definition w_opc (e : sexp) : option opc :=
  match e with
  | Str s | Atom s => if String.eqb s "//" then Some O_comment else parse_opc s
  | _ => None
  end.

Definition w_arg (e : sexp) : option arg :=
  match e with
  | Atom a => option_map AInt (N_of_dec a)
  | Str s => Some (AStr s)
  | SList [Atom "slot"; n] => option_map ASlot (w_N n)
  | SList [Atom "sub"; n] => option_map ASub (w_N n)
  | SList [Atom "lbl"; Str s] => Some (ALbl s)
  | _ => None
  end.

Definition w_bool (e : sexp) : option bool :=
  match e with Atom "true" => Some true | Atom "false" => Some false | _ => None end.

Fixpoint w_expr (fuel : nat) (e : sexp) : option expr :=
  match fuel with
  | O => None
  | S f =>
      let we := w_expr f in
      let wl := w_list we in
      match e with
      | Atom "break" => Some EBreak
      | Atom "continue" => Some EContinue
      | SList [Atom "op"; o; SList imms; t; SList args] =>
          match w_opc o, w_list w_arg imms, w_ty t, wl args with
          | Some o', Some i', Some t', Some a' => Some (EOp o' i' t' a')
          | _, _, _, _ => None
          end
      | SList [Atom "nary"; o; t; SList args] =>
          match w_opc o, w_ty t, wl args with
          | Some o', Some t', Some a' => Some (ENary o' t' a')
          | _, _, _ => None
          end
      | SList (Atom "seq" :: es) => option_map ESeq (wl es)
      | SList [Atom "if"; c; t] =>
          match we c, we t with Some c', Some t' => Some (EIf c' t' None) | _, _ => None end
      | SList [Atom "if"; c; t; el] =>
          match we c, we t, we el with Some c', Some t', Some e' => Some (EIf c' t' (Some e')) | _, _, _ => None end
      | SList (Atom "cond" :: arms) =>
          option_map ECond (w_list (fun a => match a with
                                             | SList [c; v] => match we c, we v with Some c', Some v' => Some (c', v') | _, _ => None end
                                             | _ => None end) arms)
      | SList [Atom "while"; c; b] =>
          match we c, we b with Some c', Some b' => Some (EWhile c' b') | _, _ => None end
      | SList [Atom "for"; i; c; s; b] =>
          match we i, we c, we s, we b with Some i', Some c', Some s', Some b' => Some (EFor i' c' s' b') | _, _, _, _ => None end
      | SList [Atom "assert"; SList conds] => option_map (fun c => EAssert c None) (wl conds)
      | SList [Atom "assert"; SList conds; SList (Atom "comment" :: lines)] =>
          match wl conds, w_list w_string lines with
          | Some c, Some l => Some (EAssert c (Some l)) | _, _ => None end
      | SList [Atom "return"] => Some (EReturn None)
      | SList [Atom "return"; v] => option_map (fun x => EReturn (Some x)) (we v)
      | SList [Atom "exit"; v] => option_map EExit (we v)
      | SList [Atom "multi"; o; SList imms; SList args; SList outs] =>
          match w_opc o, w_list w_arg imms, wl args, w_list w_N outs with
          | Some o', Some i', Some a', Some s' => Some (EMulti o' i' a' s')
          | _, _, _, _ => None
          end
      | SList [Atom "call"; s; t; SList args] =>
          match w_N s, w_ty t, wl args with
          | Some s', Some t', Some a' => Some (ECall s' t' a') | _, _, _ => None end
      | SList [Atom "param"; i] => option_map EParam (w_N i)
      | SList [Atom "wide"; SList ns; SList ds] =>
          match wl ns, wl ds with Some n, Some d => Some (EWide n d) | _, _ => None end
      | _ => None
      end
  end.

Definition FUEL : nat := N.to_nat 100000.

Definition w_param (e : sexp) : option (bool * N) :=
  match e with
  | SList [b; n] => match w_bool b, w_N n with Some b', Some n' => Some (b', n') | _, _ => None end
  | _ => None
  end.

(* (sub ID "name" RET (params (BYREF SLOTUID)...) BODY [DEFERRED]) *)
Definition w_routine (e : sexp) : option routine :=
  match e with
  | SList (Atom "sub" :: i :: Str name :: rt :: SList (Atom "params" :: ps) :: body :: rest) =>
      match w_N i, w_ty rt, w_list w_param ps, w_expr FUEL body with
      | Some i', Some rt', Some ps', Some b' =>
          match rest with
          | [] => Some (mkRoutine i' name rt' ps' b' None)
          | [d] => option_map (fun d' => mkRoutine i' name rt' ps' b' (Some d')) (w_expr FUEL d)
          | _ => None
          end
      | _, _, _, _ => None
      end
  | _ => None
  end.

Definition w_slotinfo (e : sexp) : option (N * (N * bool)) :=
  match e with
  | SList [u; i; r] => match w_N u, w_N i, w_bool r with Some u', Some i', Some r' => Some (u', (i', r')) | _, _, _ => None end
  | _ => None
  end.

Definition w_prog (e : sexp) : option prog :=
  match e with
  | SList [Atom "prog"; main; SList (Atom "subs" :: subs); SList (Atom "slots" :: slots)] =>
      match w_expr FUEL main, w_list w_routine subs, w_list w_slotinfo slots with
      | Some m, Some s, Some sl => Some (mkProgram m s sl)
      | _, _, _ => None
      end
  | _ => None
  end.

(* ---- options: user-level (None/True/False) resolved exactly as OptimizeOptions does ---- *)
Definition w_tri (e : sexp) : option (option bool) :=
  match e with Atom "none" => Some None | Atom "true" => Some (Some true) | Atom "false" => Some (Some false) | _ => None end.

Definition gen_minv (o : opc) : N :=
  match find (fun r => String.eqb (fst (fst (fst r))) (opc_name o)) gen_optable with
  | Some (_, v, _, _) => v
  | None => 1000%N            (* an op PyTeal does not have cannot be emitted *)
  end.
Definition gen_modes (o : opc) : bool * bool :=
  match find (fun r => String.eqb (fst (fst (fst r))) (opc_name o)) gen_optable with
  | Some (_, _, s, a) => (s, a)
  | None => (false, false)
  end.
Definition field_family (opname : string) : string :=
  if String.eqb opname "global" then "global" else "txn".
Definition gen_field_minv (opname f : string) : N :=
  match find (fun r => String.eqb (fst (fst (fst r))) (field_family opname) && String.eqb (snd (fst (fst r))) f) gen_fields with
  | Some (_, _, v, _) => v
  | None => 0%N
  end.

(* result: Some (inl opts) | Some (inr err) — frame_pointers=True below the frame-pointer version is a TealInputError *)
Definition w_opts (body : list sexp) : option (copts + cerr) :=
  match field "version" body, field "mode" body, field "scratch-slots" body, field "frame-pointers" body with
  | Some [v], Some [Atom m], Some [ss], Some [fp] =>
      match w_N v, w_tri ss, w_tri fp with
      | Some v', Some ss', Some fp' =>
          let opt := match ss' with Some b => b | None => N.leb gen_DEFAULT_SCRATCH_SLOT_OPTIMIZE_VERSION v' end in
          match fp' with
          | Some true =>
              if N.ltb v' gen_FRAME_POINTERS_VERSION then Some (inr ErrInput)
              else Some (inl (mkOpts v' (String.eqb m "app") opt true gen_minv gen_field_minv))
          | Some false => Some (inl (mkOpts v' (String.eqb m "app") opt false gen_minv gen_field_minv))
          | None => Some (inl (mkOpts v' (String.eqb m "app") opt (N.leb gen_FRAME_POINTERS_VERSION v') gen_minv gen_field_minv))
          end
      | _, _, _ => None
      end
  | _, _, _, _ => None
  end.

Definition p_cerr (e : cerr) : sexp :=
  match e with
  | ErrInput => Atom "TealInputError"
  | ErrCompile => Atom "TealCompileError"
  | ErrType => Atom "TealTypeError"
  | ErrInternal => Atom "TealInternalError"
  | CrashAssertion => Atom "AssertionError"
  | CrashRecursion => Atom "RecursionError"
  | CrashOther w => SList [Atom "crash"; Str w]
  | Unsupported w => SList [Atom "unsupported"; Str w]
  end.
