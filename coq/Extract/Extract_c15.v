From Coq Require Import Extraction ExtrOcamlBasic ExtrOcamlNativeString. From PV Require Import Extract.Main_c15. Extraction "pv_c15.ml" handle.
