(* Extract/Main_c04.v — request handler of the C04 binary (ocaml/pv_c04).

   (legal VERSION app|sig (msel (SIG SELECTOR) ...) TEXT)
        VERSION decimal; SIG a string; SELECTOR xHEX (4 bytes); TEXT the TEAL text: (lines "l1" "l2" ...) (joined with LF), or one string
     -> (ok)
      | (bad KIND PC DETAIL)          first failure, PC = instruction index (0 where not applicable)
      | (uncovered KIND PC DETAIL)    the decision needs a langspec row marked Unknown
        for KIND = parse the DETAIL is the first statement that does not parse (its tokens)
   (regions (msel ...) TEXT) -> (regions (entries N ...) (reach B ...) (len N))   for diagnostics
   (unknowns) -> (unknowns (ops NAME ...) (itxn-fields NAME ...))
   (langspec-op NAME) -> (op MINV SIG APP NIMMS) | (none) *)
From Coq Require Import List Arith NArith Ascii String Bool.
From PV Require Import Base.Bytes Base.Sexp AVM.Syntax AVM.Machine AVM.Parse AVM.Langspec AVM.LegalCheck Extract.Wire.
Import ListNotations.
Local Open Scope string_scope.

Definition err (m : string) : sexp := SList [Atom "error"; Str m].

(* The text travels as a list of its lines: Base/Sexp.v reverses every token with the quadratic
   List.rev, so one 50 kB string token would cost seconds; [w_text] joins the lines with LF again. *)
Definition nl : string := String (ascii_of_N 10) EmptyString.

Definition w_text (e : sexp) : option string :=
  match e with
  | Str s => Some s
  | Atom a => option_map string_of_bytes (w_hex a)
  | SList (Atom "lines" :: ls) => option_map (concat_sep nl) (w_list w_string ls)
  | _ => None
  end.

Definition w_msel (e : sexp) : option (list (string * bytes)) :=
  match e with
  | SList (Atom "msel" :: l) => w_list (w_pair w_string w_bytes) l
  | _ => None
  end.

Definition p_nat (n : nat) : sexp := sN (N.of_nat n).

Definition p_result (msel : list (string * bytes)) (text : string) (r : legal_result) : sexp :=
  match r with
  | LOk => SList [Atom "ok"]
  | LBad k pc d =>
      if String.eqb k "parse" then
        match unparsed_line msel text with
        | Some (n, ts) => SList [Atom "bad"; Atom k; p_nat n; Str (concat_sep " " ts)]
        | None => SList [Atom "bad"; Atom k; p_nat pc; Str d]
        end
      else SList [Atom "bad"; Atom k; p_nat pc; Str d]
  | LUncovered k pc d => SList [Atom "uncovered"; Atom k; p_nat pc; Str d]
  end.

Definition do_legal (body : list sexp) : sexp :=
  match body with
  | [v; Atom m; ms; t] =>
      match w_N v, w_msel ms, w_text t with
      | Some version, Some msel, Some text =>
          if String.eqb m "app" then p_result msel text (legal_check version true msel text)
          else if String.eqb m "sig" then p_result msel text (legal_check version false msel text)
          else err "legal: mode must be app or sig"
      | _, _, _ => err "legal: bad version, msel or text"
      end
  | _ => err "legal: expected VERSION MODE (msel ...) TEXT"
  end.

Definition do_regions (body : list sexp) : sexp :=
  match body with
  | [ms; t] =>
      match w_msel ms, w_text t with
      | Some msel, Some text =>
          match parse_program msel text with
          | Some p =>
              let ents := entries_of p in
              SList [Atom "regions"; SList (Atom "entries" :: map p_nat ents);
                     SList (Atom "reach" :: map (fun b : bool => if b then Atom "1" else Atom "0") (reach_set p ents));
                     SList [Atom "len"; p_nat (List.length (pr_code p))]]
          | None => SList [Atom "parse-error"]
          end
      | _, _ => err "regions: bad msel or text"
      end
  | _ => err "regions: expected (msel ...) TEXT"
  end.

Definition do_op (body : list sexp) : sexp :=
  match body with
  | [nm] =>
      match w_string nm with
      | Some s =>
          match parse_opc s with
          | Some o =>
              match ls_op o with
              | Known sp => SList [Atom "op"; sN (os_minv sp); Atom (if os_sig sp then "true" else "false");
                                   Atom (if os_app sp then "true" else "false"); p_nat (List.length (os_imms sp))]
              | Unknown => SList [Atom "unknown"]
              end
          | None => SList [Atom "none"]
          end
      | None => err "langspec-op: expected a name"
      end
  | _ => err "langspec-op: expected a name"
  end.

Definition dispatch (e : sexp) : sexp :=
  match e with
  | SList (Atom cmd :: body) =>
      if String.eqb cmd "legal" then do_legal body
      else if String.eqb cmd "regions" then do_regions body
      else if String.eqb cmd "unknowns" then
        SList [Atom "unknowns"; SList (Atom "ops" :: map Str unknown_ops); SList (Atom "itxn-fields" :: map Str unknown_itxn_fields)]
      else if String.eqb cmd "langspec-op" then do_op body
      else err ("unknown command " ++ cmd)
  | _ => err "expected (command ...)"
  end.

Definition handle (line : string) : string :=
  match parse_sexp line with
  | Some e => print_sexp (dispatch e)
  | None => print_sexp (err "unreadable request")
  end.
