(* Extract/Extract.v — extraction of the executable model to OCaml.
   Directives in force: those of ExtrOcamlBasic (bool, option, unit, list, prod, sumbool, comparison
   to OCaml natives) and ExtrOcamlNativeString (ascii -> char, string -> OCaml string).
   N / positive / nat stay the extracted inductive types.  No Extract Constant of our own. *)
From Coq Require Import Extraction ExtrOcamlBasic ExtrOcamlNativeString.
From PV Require Import Extract.Main.
Extraction "pvextracted.ml" handle.
