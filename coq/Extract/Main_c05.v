(* Extract/Main_c05.v — request handler of the C05 binary (ocaml/pv_c05).

   Requests (one line each):
     (check (decl (LABEL (TY ...) (TY ...)) ...) (msel (SIG xSEL) ...) "teal text")
         TY ::= u | b | a ; argument and result types TOP FIRST.  Runs AVM.StackCheck.stack_check.
         -> (accept (strict BOOL) (pcs N) (routines (ENTRY (TY..) (TY..)) ...))
          | (reject PC "message" "opcode") | (uncovered PC "message") | (fuel) | (parse-error)
     (fieldty txn|global NAME) -> u | b | a       the field-type table of AVM/StackSig.v
     (run5 (ctx ...) "teal text")
         executes the program on AVM.Machine like the main binary's (run ...) and classifies a failing last step:
         -> (ran VERDICT (pc N) (class CLASS) (typed BOOL) (calls DEPTH) (op "opcode at pc") (stack V ...))
            CLASS ::= none | shape | value | err | overflow | const-index | frame | label | off-end
            shape  = the operands the opcode needs (StackSig) are missing or have the wrong type
            typed  = the context satisfies StackSig.ctx_typed
   Both commands first rewrite negative frame immediates (frame_dig -1 => 255), which AVM/Parse.v leaves as names. *)
From Coq Require Import List Arith NArith Ascii String Bool.
From PV Require Import Base.Bytes Base.Sexp AVM.Syntax AVM.Ops AVM.Machine AVM.Parse AVM.StackSig AVM.StackCheck Extract.Wire.
Import ListNotations.
Local Open Scope string_scope.

Definition err (m : string) : sexp := SList [Atom "error"; Str m].

Definition neg_imm (i : imm) : imm :=
  match i with
  | IName (String c rest) =>
      if Ascii.eqb c "-" then
        match N_of_dec rest with
        | Some k => if ((0 <? k) && (k <=? 128))%N then IInt (256 - k) else i
        | None => i
        end
      else i
  | _ => i
  end.

Definition norm_instr (i : pinstr) : pinstr :=
  match p_op i with
  | O_frame_dig | O_frame_bury => mkP (p_op i) (map neg_imm (p_imms i))
  | _ => i
  end.

Definition norm_prog (p : program) : program :=
  mkProg (pr_version p) (map norm_instr (pr_code p)) (pr_labels p).

Definition r_ty (e : sexp) : option ty :=
  match e with
  | Atom a => if String.eqb a "u" then Some TU else if String.eqb a "b" then Some TB
              else if String.eqb a "a" then Some TA else None
  | _ => None
  end.
Definition p_ty (t : ty) : sexp := Atom (match t with TU => "u" | TB => "b" | TA => "a" end).

Definition r_decl (e : sexp) : option (string * list ty * list ty) :=
  match e with
  | SList [l; SList args; SList rets] =>
      match w_string l, w_list r_ty args, w_list r_ty rets with
      | Some l', Some a, Some r => Some (l', a, r)
      | _, _, _ => None
      end
  | _ => None
  end.

Definition sbool (b : bool) : sexp := Atom (if b then "true" else "false").
Definition snat (n : nat) : sexp := sN (N.of_nat n).

Definition opname_at (p : program) (pc : nat) : string :=
  match nth_error (pr_code p) pc with Some i => opc_name (p_op i) | None => "<end>" end.

Definition do_check (body : list sexp) : sexp :=
  match body with
  | [SList (Atom "decl" :: ds); SList (Atom "msel" :: ms); Str text] =>
      match w_list r_decl ds, w_list (w_pair w_string w_bytes) ms with
      | Some decl, Some msel =>
          match parse_program msel text with
          | None => SList [Atom "parse-error"]
          | Some p0 =>
              let p := norm_prog p0 in
              match stack_check p decl with
              | V5Accept rt ann strict =>
                  SList [Atom "accept"; SList [Atom "strict"; sbool strict];
                         SList [Atom "pcs"; snat (List.length (filter (fun x => match x with Some _ => true | None => false end) ann))];
                         SList (Atom "routines" :: map (fun r => SList [snat (r_entry r); SList (map p_ty (r_args r)); SList (map p_ty (r_rets r))]) rt)]
              | V5Reject pc m => SList [Atom "reject"; snat pc; Str m; Str (opname_at p pc)]
              | V5NotCovered pc m => SList [Atom "uncovered"; snat pc; Str m]
              | V5Fuel => SList [Atom "fuel"]
              end
          end
      | _, _ => err "check: bad declarations"
      end
  | _ => err "check: expected (decl ...) (msel ...) and a program text"
  end.

Definition fail_class (p : program) (m : mach) : string :=
  match nth_error (pr_code p) (m_pc m) with
  | None => "off-end"
  | Some i =>
      if (STACK_MAX <? height m)%nat then "overflow" else
      match sig_of (p_op i) (p_imms i) with
      | SCtl =>
          match p_op i with
          | O_err => "err"
          | O_return_ | O_bz | O_bnz => match m_stack m with VI _ :: _ => "label" | _ => "shape" end
          | O_retsub | O_proto | O_frame_dig | O_frame_bury => "frame"
          | O_b | O_callsub => "label"
          | _ => "const-index"
          end
      | SUnknown => "value"
      | sd => if operands_ok sd (m_stack m) then "value" else "shape"
      end
  end.

Definition do_run5 (body : list sexp) : sexp :=
  match body with
  | [SList (Atom "ctx" :: cb); Str text] =>
      match w_ctx cb with
      | None => err "bad ctx"
      | Some ri =>
          match parse_program (ri_msel ri) text with
          | None => SList [Atom "parse-error"]
          | Some p0 =>
              let p := norm_prog p0 in
              let '(v, m) := run (ri_fuel ri) (ri_ctx ri) p (init_mach (ri_state ri)) in
              SList [Atom "ran"; p_verdict v;
                     SList [Atom "pc"; snat (m_pc m)];
                     SList [Atom "class"; Atom (match v with VFail => fail_class p m | _ => "none" end)];
                     SList [Atom "typed"; sbool (ctx_typedb (ri_ctx ri))];
                     SList [Atom "calls"; snat (List.length (m_calls m))];
                     SList [Atom "op"; Str (opname_at p (m_pc m))];
                     SList (Atom "stack" :: map p_value (m_stack m))]
          end
      end
  | _ => err "run5: expected (ctx ...) and a program text"
  end.

(* (fieldty txn|global NAME) -> u | b | a : the hand-maintained field-type tables of AVM/StackSig.v *)
Definition do_fieldty (body : list sexp) : sexp :=
  match body with
  | [Atom g; f] =>
      match w_string f with
      | Some name =>
          if String.eqb g "txn" then p_ty (txn_field_ty name)
          else if String.eqb g "global" then p_ty (global_field_ty name)
          else err "fieldty: unknown group"
      | None => err "fieldty: bad name"
      end
  | _ => err "fieldty: expected a group and a name"
  end.

Definition dispatch (e : sexp) : sexp :=
  match e with
  | SList (Atom cmd :: body) =>
      if String.eqb cmd "check" then do_check body
      else if String.eqb cmd "run5" then do_run5 body
      else if String.eqb cmd "fieldty" then do_fieldty body
      else err ("unknown command " ++ cmd)
  | _ => err "expected (command ...)"
  end.

Definition handle (line : string) : string :=
  match parse_sexp line with
  | Some e => print_sexp (dispatch e)
  | None => print_sexp (err "unreadable request")
  end.
