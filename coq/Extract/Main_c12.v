(* Extract/Main_c12.v — commands of the C12 binary (ocaml/pv_c12):
     (ccb (addr-hashes (xKEY xDIGEST) ...) (sig-hashes ("sig" xDIGEST) ...) (comps COMP ...))
         -> (ok "assembled line" ...) | (raises) | (asm-error)
     (extract KIND (addr-hashes ...) (sig-hashes ...) ARG ...)   KIND = int | byte | addr | method
         -> (int n) | (bytes xHEX) | (tmpl "name") | (raises)
     (norm (msel ("sig" xSEL) ...) "teal text")
         -> (ok (stmts S ...) (max-index k) (intc n ...) (bytec xHEX ...)) | (parse-error)
            every constant load is replaced by (const VALUE) (block loads resolved against the blocks in
            force), block declarations are dropped, everything else is printed as parsed
     (decode-bytes "spelling") -> (some xHEX) | (none)        the assembler's reading (AVM/Parse.v)
     (decode-int "spelling")   -> (some n) | (none)
   COMP = (op "name" ARG ...) | (label "l") | (label "l" "comment") | (pragma n)
   ARG  = n | "string" | (lbl "l") | (slot n) | (sub n) *)
From Coq Require Import List Arith NArith Ascii String Bool.
From PV Require Import Base.Bytes Base.Sexp AVM.Syntax AVM.Machine AVM.Parse
  Comp.Assemble Comp.ConstantsLit Comp.Constants Extract.Wire.
Import ListNotations.
Local Open Scope string_scope.

Definition err (m : string) : sexp := SList [Atom "error"; Str m].

Definition w_arg (e : sexp) : option arg :=
  match e with
  | Atom a => option_map AInt (N_of_dec a)
  | Str s => Some (AStr s)
  | SList [Atom k; x] =>
      if String.eqb k "lbl" then option_map ALbl (w_string x)
      else if String.eqb k "slot" then option_map ASlot (w_N x)
      else if String.eqb k "sub" then option_map ASub (w_N x)
      else None
  | _ => None
  end.

Definition w_opc (s : string) : option opc :=
  if String.eqb s "//" then Some O_comment else parse_opc s.

Definition w_comp (e : sexp) : option comp :=
  match e with
  | SList (Atom "op" :: Str name :: args) =>
      match w_opc name, w_list w_arg args with
      | Some o, Some a => Some (COp (mkI o a))
      | _, _ => None
      end
  | SList [Atom "label"; Str l] => Some (CLabel l None)
  | SList [Atom "label"; Str l; Str c] => Some (CLabel l (Some c))
  | SList [Atom "pragma"; v] => option_map CPragma (w_N v)
  | _ => None
  end.

Fixpoint lookup_bytes (k : bytes) (l : list (bytes * bytes)) : bytes :=
  match l with
  | [] => []
  | (k', v) :: t => if bytes_eqb k k' then v else lookup_bytes k t
  end.
Fixpoint lookup_str (k : string) (l : list (string * bytes)) : bytes :=
  match l with
  | [] => []
  | (k', v) :: t => if String.eqb k k' then v else lookup_str k t
  end.

Definition w_oracles (body : list sexp) : option ((bytes -> bytes) * (string -> bytes)) :=
  match w_list (w_pair w_bytes w_bytes) (field_or_nil "addr-hashes" body),
        w_list (w_pair w_string w_bytes) (field_or_nil "sig-hashes" body) with
  | Some ah, Some sh => Some (fun k => lookup_bytes k ah, fun s => lookup_str s sh)
  | _, _ => None
  end.

Definition do_ccb (body : list sexp) : sexp :=
  match w_oracles body, w_list w_comp (field_or_nil "comps" body) with
  | Some (ah, sh), Some ops =>
      match create_constant_blocks ah sh ops with
      | None => SList [Atom "raises"]
      | Some out =>
          match assemble_all out with
          | Some lines => SList (Atom "ok" :: map Str lines)
          | None => SList [Atom "asm-error"]
          end
      end
  | _, _ => err "ccb: unreadable request"
  end.

Definition p_key (k : option ckey) : sexp :=
  match k with
  | Some (KInt n) => SList [Atom "int"; sN n]
  | Some (KBytes b) => SList [Atom "bytes"; sHex b]
  | Some (KTmpl s) => SList [Atom "tmpl"; Str s]
  | None => SList [Atom "raises"]
  end.

Definition do_extract (body : list sexp) : sexp :=
  match body with
  | Atom kind :: rest =>
      match w_oracles rest with
      | Some (ah, sh) =>
          let args := filter (fun e => match e with SList (Atom "addr-hashes" :: _) | SList (Atom "sig-hashes" :: _) => false | _ => true end) rest in
          match w_list w_arg args with
          | Some a =>
              if String.eqb kind "int" then p_key (extract_int a)
              else if String.eqb kind "byte" then p_key (extract_bytes a)
              else if String.eqb kind "addr" then p_key (extract_addr ah a)
              else if String.eqb kind "method" then p_key (extract_method sh a)
              else err "extract: unknown kind"
          | None => err "extract: bad args"
          end
      | None => err "extract: bad oracles"
      end
  | _ => err "extract: expected a kind"
  end.

(* ---- normal form of a parsed program: constant loads resolved ---- *)
Definition p_imm (i : imm) : sexp :=
  match i with IInt n => sN n | IBytes b => sHex b | IName s => Str s end.

Definition const_int (n : N) : sexp := SList [Atom "const"; sN n].
Definition const_bytes (b : bytes) : sexp := SList [Atom "const"; sHex b].
Definition bad_index (k : N) : sexp := SList [Atom "bad-index"; sN k].

Definition ld_int (ib : list N) (k : N) : sexp :=
  match nth_error ib (N.to_nat k) with Some n => const_int n | None => bad_index k end.
Definition ld_bytes (bb : list bytes) (k : N) : sexp :=
  match nth_error bb (N.to_nat k) with Some b => const_bytes b | None => bad_index k end.

Fixpoint norm_stmts (ss : list stmt) (ib : list N) (bb : list bytes) (mx : N) (acc : list sexp)
  : list sexp * N * list N * list bytes :=
  match ss with
  | [] => (rev acc, mx, ib, bb)
  | SLabel l :: r => norm_stmts r ib bb mx (SList [Atom "label"; Str l] :: acc)
  | SPragma v :: r => norm_stmts r ib bb mx (SList [Atom "pragma"; sN v] :: acc)
  | SInstr p :: r =>
      let generic := SList (Atom "i" :: Str (opc_name (p_op p)) :: map p_imm (p_imms p)) in
      match p_op p, p_imms p with
      | O_intcblock, l => match imm_ints l with Some ns => norm_stmts r ns bb mx acc | None => norm_stmts r ib bb mx (generic :: acc) end
      | O_bytecblock, l => match imm_bytes l with Some bs => norm_stmts r ib bs mx acc | None => norm_stmts r ib bb mx (generic :: acc) end
      | (O_int | O_pushint), [IInt n] => norm_stmts r ib bb mx (const_int n :: acc)
      | (O_byte | O_pushbytes | O_addr | O_method_signature), [IBytes b] => norm_stmts r ib bb mx (const_bytes b :: acc)
      | O_intc, [IInt k] => norm_stmts r ib bb (N.max mx k) (ld_int ib k :: acc)
      | O_intc_0, [] => norm_stmts r ib bb mx (ld_int ib 0 :: acc)
      | O_intc_1, [] => norm_stmts r ib bb mx (ld_int ib 1 :: acc)
      | O_intc_2, [] => norm_stmts r ib bb mx (ld_int ib 2 :: acc)
      | O_intc_3, [] => norm_stmts r ib bb mx (ld_int ib 3 :: acc)
      | O_bytec, [IInt k] => norm_stmts r ib bb (N.max mx k) (ld_bytes bb k :: acc)
      | O_bytec_0, [] => norm_stmts r ib bb mx (ld_bytes bb 0 :: acc)
      | O_bytec_1, [] => norm_stmts r ib bb mx (ld_bytes bb 1 :: acc)
      | O_bytec_2, [] => norm_stmts r ib bb mx (ld_bytes bb 2 :: acc)
      | O_bytec_3, [] => norm_stmts r ib bb mx (ld_bytes bb 3 :: acc)
      | _, _ => norm_stmts r ib bb mx (generic :: acc)
      end
  end.

Definition do_norm (body : list sexp) : sexp :=
  match body with
  | [SList (Atom "msel" :: ms); Str text] =>
      match w_list (w_pair w_string w_bytes) ms with
      | Some msel =>
          match statements_of_text msel text with
          | Some ss =>
              let '(out, mx, ib, bb) := norm_stmts ss [] [] 0%N [] in
              SList [Atom "ok"; SList (Atom "stmts" :: out); SList [Atom "max-index"; sN mx];
                     SList (Atom "intc" :: map sN ib); SList (Atom "bytec" :: map sHex bb)]
          | None => SList [Atom "parse-error"]
          end
      | None => err "norm: bad msel"
      end
  | _ => err "norm: expected (msel ...) and a text"
  end.

Definition do_decode_bytes (body : list sexp) : sexp :=
  match body with
  | [Str s] => match parse_bytes_arg [s] with
               | Some (b, []) => SList [Atom "some"; sHex b]
               | _ => SList [Atom "none"]
               end
  | _ => err "decode-bytes: expected a string"
  end.

Definition do_decode_int (body : list sexp) : sexp :=
  match body with
  | [Str s] => match parse_int_arg s with
               | Some n => SList [Atom "some"; sN n]
               | None => SList [Atom "none"]
               end
  | _ => err "decode-int: expected a string"
  end.

Definition dispatch (e : sexp) : sexp :=
  match e with
  | SList (Atom cmd :: body) =>
      if String.eqb cmd "ccb" then do_ccb body
      else if String.eqb cmd "extract" then do_extract body
      else if String.eqb cmd "norm" then do_norm body
      else if String.eqb cmd "decode-bytes" then do_decode_bytes body
      else if String.eqb cmd "decode-int" then do_decode_int body
      else err ("unknown command " ++ cmd)
  | _ => err "expected (command ...)"
  end.

Definition handle (line : string) : string :=
  match parse_sexp line with
  | Some e => print_sexp (dispatch e)
  | None => print_sexp (err "unreadable request")
  end.
