From Coq Require Import Extraction ExtrOcamlBasic ExtrOcamlNativeString. From PV Require Import Extract.Main_c09. Extraction "pv_c09.ml" handle.
