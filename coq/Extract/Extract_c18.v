From Coq Require Import Extraction ExtrOcamlBasic ExtrOcamlNativeString. From PV Require Import Extract.Main_c18. Extraction "pv_c18.ml" handle.
