(* Extract/Main_c19.v — request handler of the extracted binary ocaml/pv_c19 (ABI layer + C19).
   One request per line, one response per line.  Commands:
     (assignable A B)          -> true | false          type_spec_is_assignable_to model
     (pyeq A B)                -> true | false          model of Python  A == B
     (matrix (A ...) (B ...))  -> (m "0110...")         assignable, row-major, |A| x |B| characters
     (eqmatrix (A ...) (B ...))-> (m "...")             py_eq, same shape
     (setmatrix (S ...) (D ...)) / (elemmatrix ..) / (cvmatrix ..) -> (m "...")   set_admits / elem_admits /
                                                       computed_admits, rows = source specs, columns = targets
     (simatrix (S ...) (D ...)) -> (m "...")            store_into_admits (ComputedValue.store_into), rows = produced specs
     (mcmatrix (ARG ...) (PARAM ...)) -> (m "...")      method_arg_admits;  (fromsdk T) -> true | false   sdk_supported
     (pairs (A B) (A B) ...)   -> (m "xyxy...")         per pair: x = assignable A B, y = py_eq A B
     (subclass C D)            -> true | false          issubclass table
     (descr T)                 -> (descr "type_str" "py_str" <is_dynamic> <static_len | none> <layout> <encodable> CLASS)
     (encode T V)              -> (some xHEX) | (none)  arc4_encode
     (lencode T V)             -> (some xHEX) | (none)  layout_encode (canon T)
     (typed T V)               -> true | false          val_has_type
     (decode T xHEX)           -> (some V) | (none)     arc4_decode
   Types / values: see ABI/Wire.v. *)
From Coq Require Import List Arith NArith Ascii String Bool.
From PV Require Import Base.Bytes Base.Sexp ABI.Types ABI.Spec ABI.Layout ABI.Descr ABI.Assignable ABI.Wire.
Import ListNotations.
Local Open Scope string_scope.

Definition err (m : string) : sexp := SList [Atom "error"; Str m].

Definition w_pyclass (e : sexp) : option pyclass :=
  match e with
  | Atom a =>
      if String.eqb a "TypeSpec" then Some C_TypeSpec
      else if String.eqb a "Bool" then Some C_Bool
      else if String.eqb a "Uint" then Some C_Uint
      else if String.eqb a "Byte" then Some C_Byte
      else if String.eqb a "Array" then Some C_Array
      else if String.eqb a "StaticArray" then Some C_StaticArray
      else if String.eqb a "StaticBytes" then Some C_StaticBytes
      else if String.eqb a "Address" then Some C_Address
      else if String.eqb a "DynamicArray" then Some C_DynamicArray
      else if String.eqb a "DynamicBytes" then Some C_DynamicBytes
      else if String.eqb a "String" then Some C_String
      else if String.eqb a "Tuple" then Some C_Tuple
      else if String.eqb a "NamedTuple" then Some C_NamedTuple
      else if String.eqb a "Reference" then Some C_Reference
      else None
  | SList [Atom h; x] =>
      if String.eqb h "UintN" then option_map C_UintN (wa_N x)
      else if String.eqb h "Txn" then match x with Atom k => option_map C_Txn (w_txn_kind k) | _ => None end
      else if String.eqb h "Ref" then match x with Atom k => option_map C_Ref (w_ref_kind k) | _ => None end
      else None
  | _ => None
  end.

Definition p_pyclass (c : pyclass) : sexp :=
  match c with
  | C_TypeSpec => Atom "TypeSpec" | C_Bool => Atom "Bool" | C_Uint => Atom "Uint" | C_Byte => Atom "Byte"
  | C_UintN n => SList [Atom "UintN"; sN n]
  | C_Array => Atom "Array" | C_StaticArray => Atom "StaticArray" | C_StaticBytes => Atom "StaticBytes"
  | C_Address => Atom "Address" | C_DynamicArray => Atom "DynamicArray" | C_DynamicBytes => Atom "DynamicBytes"
  | C_String => Atom "String" | C_Tuple => Atom "Tuple" | C_NamedTuple => Atom "NamedTuple"
  | C_Txn k => SList [Atom "Txn"; Atom (p_txn_kind k)]
  | C_Reference => Atom "Reference"
  | C_Ref k => SList [Atom "Ref"; Atom (p_ref_kind k)]
  end.

Fixpoint w_tys (l : list sexp) : option (list ty) :=
  match l with
  | [] => Some []
  | x :: r => match w_ty x, w_tys r with Some t, Some ts => Some (t :: ts) | _, _ => None end
  end.

Definition bit (b : bool) : ascii := if b then "1"%char else "0"%char.

Definition rel_matrix (f : ty -> ty -> bool) (rows cols : list ty) : string :=
  string_of_list_ascii (flat_map (fun a => map (fun b => bit (f a b)) cols) rows).

Definition do_rel2 (f : ty -> ty -> bool) (body : list sexp) : sexp :=
  match body with
  | [a; b] => match w_ty a, w_ty b with
              | Some a', Some b' => p_bool (f a' b')
              | _, _ => err "bad type"
              end
  | _ => err "expected two types"
  end.

Definition do_matrix (f : ty -> ty -> bool) (body : list sexp) : sexp :=
  match body with
  | [SList rows; SList cols] =>
      match w_tys rows, w_tys cols with
      | Some r, Some c => SList [Atom "m"; Str (rel_matrix f r c)]
      | _, _ => err "bad type in matrix"
      end
  | _ => err "matrix: expected two lists"
  end.

Fixpoint pairs_bits (l : list sexp) : option (list ascii) :=
  match l with
  | [] => Some []
  | SList [a; b] :: r =>
      match w_ty a, w_ty b, pairs_bits r with
      | Some a', Some b', Some rest => Some (bit (assignable a' b') :: bit (py_eq a' b') :: rest)
      | _, _, _ => None
      end
  | _ => None
  end.

Definition do_pairs (body : list sexp) : sexp :=
  match pairs_bits body with
  | Some l => SList [Atom "m"; Str (string_of_list_ascii l)]
  | None => err "pairs: expected (A B) ..."
  end.

Definition do_descr (body : list sexp) : sexp :=
  match body with
  | [t] =>
      match w_ty t with
      | Some t' =>
          SList [Atom "descr"; Str (type_str t'); Str (py_str t'); p_bool (is_dynamic t');
                 match static_len_opt t' with Some n => sN n | None => Atom "none" end;
                 p_layout (canon t'); p_bool (encodable t'); p_pyclass (cls_of t')]
      | None => err "bad type"
      end
  | _ => err "descr: expected one type"
  end.

Definition do_tv (f : ty -> val -> sexp) (body : list sexp) : sexp :=
  match body with
  | [t; v] => match w_ty t, w_val v with
              | Some t', Some v' => f t' v'
              | None, _ => err "bad type"
              | _, None => err "bad value"
              end
  | _ => err "expected a type and a value"
  end.

Definition do_decode (body : list sexp) : sexp :=
  match body with
  | [t; Atom h] =>
      match w_ty t, wa_hex h with
      | Some t', Some bs =>
          match arc4_decode t' bs with
          | Some v => SList [Atom "some"; p_val v]
          | None => SList [Atom "none"]
          end
      | _, _ => err "decode: bad type or bytes"
      end
  | _ => err "decode: expected a type and xHEX"
  end.

Definition do_subclass (body : list sexp) : sexp :=
  match body with
  | [c; d] => match w_pyclass c, w_pyclass d with
              | Some c', Some d' => p_bool (subclass c' d')
              | _, _ => err "bad class"
              end
  | _ => err "subclass: expected two classes"
  end.

Definition dispatch (e : sexp) : sexp :=
  match e with
  | SList (Atom cmd :: body) =>
      if String.eqb cmd "assignable" then do_rel2 assignable body
      else if String.eqb cmd "pyeq" then do_rel2 py_eq body
      else if String.eqb cmd "matrix" then do_matrix assignable body
      else if String.eqb cmd "eqmatrix" then do_matrix py_eq body
      else if String.eqb cmd "pairs" then do_pairs body
      else if String.eqb cmd "setmatrix" then do_matrix set_admits body
      else if String.eqb cmd "elemmatrix" then do_matrix elem_admits body
      else if String.eqb cmd "cvmatrix" then do_matrix computed_admits body
      else if String.eqb cmd "simatrix" then do_matrix store_into_admits body
      else if String.eqb cmd "mcmatrix" then do_matrix method_arg_admits body
      else if String.eqb cmd "fromsdk" then
        match body with
        | [t] => match w_ty t with Some t' => p_bool (sdk_supported t') | None => err "bad type" end
        | _ => err "fromsdk: expected one type"
        end
      else if String.eqb cmd "subclass" then do_subclass body
      else if String.eqb cmd "descr" then do_descr body
      else if String.eqb cmd "encode" then do_tv (fun t v => p_obytes (arc4_encode t v)) body
      else if String.eqb cmd "lencode" then do_tv (fun t v => p_obytes (layout_encode (canon t) v)) body
      else if String.eqb cmd "decode" then do_decode body
      else if String.eqb cmd "typed" then do_tv (fun t v => p_bool (val_has_type t v)) body
      else err ("unknown command " ++ cmd)
  | _ => err "expected (command ...)"
  end.

Definition handle (line : string) : string :=
  match parse_sexp line with
  | Some e => print_sexp (dispatch e)
  | None => print_sexp (err "unreadable request")
  end.
