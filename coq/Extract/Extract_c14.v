From Coq Require Import Extraction ExtrOcamlBasic ExtrOcamlNativeString. From PV Require Import Extract.Main_c14. Extraction "pv_c14.ml" handle.
