(* Extract/Main_c11.v — request handler of the C11 model binary (ocaml/pv_c11).
   (session faithful|fixed OP...)        -> (ok (SLOT SUB MARKER RAISED) ...)   one entry per op
   (assign (OID ID RES)...)              -> (ok (OID K)...) | (dup ID) | (toomany N)
   (resolve (OID ID)...)                 -> (ok (OID K)...)
   (order ROOT (NODE ID (CALLEE...))...) -> (ok NODE...)                        compile order *)
From Coq Require Import List NArith Ascii String Bool.
From PV Require Import Base.Sexp Hist.Events Hist.Assign Hist.Session.
Import ListNotations.
Local Open Scope string_scope.

Definition err (m : string) : sexp := SList [Atom "error"; Str m].

Definition rN (e : sexp) : option N := match e with Atom a => N_of_dec a | _ => None end.
Definition rB (e : sexp) : option bool :=
  match e with
  | Atom a => if String.eqb a "true" then Some true else if String.eqb a "false" then Some false else None
  | _ => None
  end.
Fixpoint rL {A} (f : sexp -> option A) (l : list sexp) : option (list A) :=
  match l with
  | [] => Some []
  | x :: t => match f x, rL f t with Some a, Some r => Some (a :: r) | _, _ => None end
  end.
Definition rLs {A} (f : sexp -> option A) (e : sexp) : option (list A) :=
  match e with SList l => rL f l | _ => None end.
Definition sB (b : bool) : sexp := Atom (if b then "true" else "false").

Definition r_decl (e : sexp) : option decl :=
  match e with
  | Atom a =>
      if String.eqb a "var" then Some DVar
      else if String.eqb a "abi" then Some DAbi
      else if String.eqb a "defsub" then Some DDefSub
      else if String.eqb a "raise" then Some DRaise
      else None
  | SList [Atom k; x] =>
      match rN x with
      | Some n =>
          if String.eqb k "res" then Some (DRes n)
          else if String.eqb k "store-into" then Some (DStoreInto n)
          else if String.eqb k "probe" then Some (DProbe n)
          else None
      | None => None
      end
  | _ => None
  end.

Definition r_argk (e : sexp) : option argk :=
  match e with
  | Atom a =>
      if String.eqb a "val" then Some AVal
      else if String.eqb a "ref" then Some ARef
      else if String.eqb a "abi" then Some AAbi
      else None
  | _ => None
  end.

Definition r_method (e : sexp) : option rmethod :=
  match e with
  | SList [h; n; r] =>
      match rN h, rN n, rB r with
      | Some h', Some n', Some r' => Some (mkM h' (N.to_nat n') r')
      | _, _, _ => None
      end
  | _ => None
  end.

Definition r_op (e : sexp) : option op :=
  match e with
  | SList (Atom k :: body) =>
      if String.eqb k "build" then option_map OBuild (rL r_decl body)
      else if String.eqb k "defsub" then
        match body with
        | [h; args; out; ds; bad; calls] =>
            match rN h, rLs r_argk args, rB out, rLs r_decl ds, rB bad, rLs rN calls with
            | Some h', Some a', Some o', Some d', Some b', Some c' =>
                Some (ODefSub h' (mkSpec a' o' d' b' c'))
            | _, _, _, _, _, _ => None
            end
        | _ => None
        end
      else if String.eqb k "probe" then
        match body with [h] => option_map OProbe (rN h) | _ => None end
      else if String.eqb k "compile" then
        match body with
        | [calls; fp; mf; bad] =>
            match rLs rN calls, rB fp, rB mf, rLs rN bad with
            | Some c', Some f', Some m', Some b' => Some (OCompile c' f' m' b')
            | _, _, _, _ => None
            end
        | _ => None
        end
      else if String.eqb k "router" then
        match body with
        | [ms; bare; fp; bad] =>
            match rLs r_method ms, rLs rN bare, rB fp, rLs rN bad with
            | Some m', Some b', Some f', Some x' => Some (ORouter m' b' f' x')
            | _, _, _, _ => None
            end
        | _ => None
        end
      else if String.eqb k "reset-marker" then Some OResetMarker
      else if String.eqb k "opaque" then
        match body with
        | [a; b; c] => match rN a, rN b, rN c with Some a', Some b', Some c' => Some (OOpaque a' b' c') | _, _, _ => None end
        | _ => None
        end
      else None
  | _ => None
  end.

Definition p_step (x : gst * bool) : sexp :=
  let '(g, raised) := x in
  SList [sN (g_slot g); sN (g_sub g);
         match g_marker g with Some (t, n) => SList [sN t; sN n] | None => Atom "none" end;
         sB raised].

Definition do_session (body : list sexp) : sexp :=
  match body with
  | Atom md :: ops =>
      let m := if String.eqb md "fixed" then Fixed else Faithful in
      match rL r_op ops with
      | Some l => SList (Atom "ok" :: map p_step (run_session m init_sstate l))
      | None => err "session: unreadable op"
      end
  | _ => err "session: expected a mode"
  end.

Definition r_slot (e : sexp) : option slotobj :=
  match e with
  | SList [o; i; r] =>
      match rN o, rN i, rB r with
      | Some o', Some i', Some r' => Some (mkSlot o' i' r')
      | _, _, _ => None
      end
  | _ => None
  end.

Definition do_assign (body : list sexp) : sexp :=
  match rL r_slot body with
  | Some l =>
      match assign_slots l with
      | AssignOk m => SList (Atom "ok" :: map (fun p => SList [sN (so_oid (fst p)); sN (snd p)]) m)
      | AssignDupReserved d => SList [Atom "dup"; sN d]
      | AssignTooMany n => SList [Atom "toomany"; sN (N.of_nat n)]
      end
  | None => err "assign: unreadable slot"
  end.

Definition r_sub (e : sexp) : option subobj :=
  match e with
  | SList [o; i] => match rN o, rN i with Some o', Some i' => Some (mkSub o' i') | _, _ => None end
  | _ => None
  end.

Definition do_resolve (body : list sexp) : sexp :=
  match rL r_sub body with
  | Some l => SList (Atom "ok" :: map (fun p => SList [sN (su_oid (fst p)); sN (snd p)]) (resolve l))
  | None => err "resolve: unreadable subroutine"
  end.

Definition r_node (e : sexp) : option (N * N * list N) :=
  match e with
  | SList [n; i; cs] =>
      match rN n, rN i, rLs rN cs with
      | Some n', Some i', Some c' => Some (n', i', c')
      | _, _, _ => None
      end
  | _ => None
  end.

Fixpoint node_find (n : N) (l : list (N * N * list N)) : option (N * list N) :=
  match l with
  | [] => None
  | (n', i, c) :: t => if N.eqb n n' then Some (i, c) else node_find n t
  end.

Definition do_order (body : list sexp) : sexp :=
  match body with
  | root :: nodes =>
      match rN root, rL r_node nodes with
      | Some r, Some l =>
          let key := fun n => match node_find n l with Some (i, _) => i | None => 0%N end in
          let calls := fun n => match node_find n l with Some (_, c) => c | None => [] end in
          let fuel := S (List.length l * List.length l + List.length l) in
          SList (Atom "ok" :: map sN (corder fuel key calls r []))
      | _, _ => err "order: unreadable graph"
      end
  | _ => err "order: expected a root"
  end.

Definition dispatch (e : sexp) : sexp :=
  match e with
  | SList (Atom cmd :: body) =>
      if String.eqb cmd "session" then do_session body
      else if String.eqb cmd "assign" then do_assign body
      else if String.eqb cmd "resolve" then do_resolve body
      else if String.eqb cmd "order" then do_order body
      else err ("unknown command " ++ cmd)
  | _ => err "expected (command ...)"
  end.

Definition handle (line : string) : string :=
  match parse_sexp line with
  | Some e => print_sexp (dispatch e)
  | None => print_sexp (err "unreadable request")
  end.
