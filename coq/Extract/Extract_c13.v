From Coq Require Import Extraction ExtrOcamlBasic ExtrOcamlNativeString. From PV Require Import Extract.Main_c13. Extraction "pv_c13.ml" handle.
