(* Extract/Main.v — one request per line in, one response per line out. *)
From Coq Require Import List Arith NArith Ascii String Bool.
From PV Require Import Base.Bytes Base.Sexp AVM.Syntax AVM.Ops AVM.Machine AVM.Parse
  Comp.Assemble Comp.WideRatio Src.Expr Src.Denote Src.DenoteCall Comp.Lower Comp.Compile Extract.Wire Extract.WireExpr.
Import ListNotations.
Local Open Scope string_scope.

Definition err (m : string) : sexp := SList [Atom "error"; Str m].

Definition do_run (body : list sexp) : sexp :=
  match body with
  | [SList (Atom "ctx" :: cb); Str text] =>
      match w_ctx cb with
      | None => err "bad ctx"
      | Some ri =>
          match parse_program (ri_msel ri) text with
          | None => SList [Atom "parse-error"]
          | Some p =>
              let '(v, m) := run (ri_fuel ri) (ri_ctx ri) p (init_mach (ri_state ri)) in
              SList [Atom "ran"; p_verdict v;
                     SList (Atom "stack" :: map p_value (m_stack m));
                     SList (Atom "trace" :: map p_event (rev (s_trace (m_st m))));
                     SList [Atom "scratch"; p_scratch (s_scratch (m_st m))];
                     SList [Atom "pc"; sN (N.of_nat (m_pc m))]]
          end
      end
  | _ => err "run: expected (ctx ...) and a program text"
  end.

Definition do_wide_ops (body : list sexp) : sexp :=
  match body with
  | [SList ns; SList ds] =>
      match w_list w_N ns, w_list w_N ds with
      | Some n, Some d =>
          SList (Atom "ok" :: map (fun i => match assemble_instr i with Some s => Str s | None => Atom "?" end)
                                  (wide_ratio_ops (map const_code n) (map const_code d)))
      | _, _ => err "wide-ops: bad numbers"
      end
  | _ => err "wide-ops: expected two lists"
  end.

Definition do_wide_spec (body : list sexp) : sexp :=
  match body with
  | [SList ns; SList ds] =>
      match w_list w_N ns, w_list w_N ds with
      | Some n, Some d =>
          match wide_ratio_spec n d with
          | Some q => SList [Atom "some"; sN q]
          | None => SList [Atom "none"]
          end
      | _, _ => err "wide-spec: bad numbers"
      end
  | _ => err "wide-spec: expected two lists"
  end.

Definition do_tokens (body : list sexp) : sexp :=
  match body with
  | [Str line] => SList (Atom "ok" :: map Str (tokens_of_line line))
  | _ => err "tokens: expected a string"
  end.

Definition do_compile (body : list sexp) : sexp :=
  match body with
  | [SList (Atom "opts" :: ob); pe] =>
      match w_opts ob, w_prog pe with
      | Some (inl o), Some p =>
          match compile_model o gen_modes p with
          | COk lines => SList (Atom "ok" :: map Str lines)
          | CErr e => SList [Atom "err"; p_cerr e]
          end
      | Some (inr e), Some _ => SList [Atom "err"; p_cerr e]
      | None, _ => err "compile: bad options"
      | _, None => err "compile: unreadable program recipe"
      end
  | _ => err "compile: expected (opts ...) (prog ...)"
  end.

Definition p_dverdict (v : dverdict) : sexp :=
  match v with
  | DVApprove => Atom "approve"
  | DVReject => Atom "reject"
  | DVFail => Atom "fail"
  | DVFuel => Atom "fuel"
  | DVUnsup o => SList [Atom "unsup"; Str (opc_name o)]
  end.

(* (denote (ctx ...) (opts ...) (prog ...)) : evaluate the recipe directly.  Slots that the optimiser removed
   have no number; they get fresh numbers above every assigned one (they are private cells). *)
Definition do_denote (body : list sexp) : sexp :=
  match body with
  | [SList (Atom "ctx" :: cb); SList (Atom "opts" :: ob); pe] =>
      match w_ctx cb, w_opts ob, w_prog pe with
      | Some ri, Some (inl o), Some p =>
          match model_assignment o p with
          | CErr e => SList [Atom "err"; p_cerr e]
          | COk asg =>
              let look (u : N) : N :=
                match find (fun x => N.eqb (fst x) u) asg with
                | Some (_, n) => n
                | None => (1000 + u)%N
                end in
              let env := mkEnv (ri_ctx ri) look (ri_msel ri) (p_subs p) false main_param in
              let '(v, st) := run_main env (ri_fuel ri) (p_main p) (ri_state ri) in
              SList [Atom "ran"; p_dverdict v;
                     SList [Atom "stack"];
                     SList (Atom "trace" :: map p_event (rev (s_trace st)));
                     SList [Atom "scratch"; p_scratch (s_scratch st)]]
          end
      | _, Some (inr e), _ => SList [Atom "err"; p_cerr e]
      | _, _, _ => err "denote: unreadable request"
      end
  | _ => err "denote: expected (ctx ...) (opts ...) (prog ...)"
  end.

(* (denote-c (ctx ...) (opts ...) (prog ...)) : the source semantics with subroutine calls *)
Definition do_denote_c (body : list sexp) : sexp :=
  match body with
  | [SList (Atom "ctx" :: cb); SList (Atom "opts" :: ob); pe] =>
      match w_ctx cb, w_opts ob, w_prog pe with
      | Some ri, Some (inl o), Some p =>
          match model_assignment_locals o p with
          | CErr e => SList [Atom "err"; p_cerr e]
          | COk (asg, locals) =>
              let look (u : N) : N :=
                match find (fun x => N.eqb (fst x) u) asg with
                | Some (_, n) => n
                | None => (1000 + u)%N
                end in
              let env := mkEnv (ri_ctx ri) look (ri_msel ri) (p_subs p) false main_param in
              let loc (rid : N) : list N :=
                match find (fun x => match fst x with Some k => N.eqb k rid | None => false end) locals with
                | Some (_, l) => l
                | None => []
                end in
              let '(v, st) := run_main_c (mkCEnv env loc) (ri_fuel ri) (p_main p) (ri_state ri) in
              SList [Atom "ran"; p_dverdict v;
                     SList [Atom "stack"];
                     SList (Atom "trace" :: map p_event (rev (s_trace st)));
                     SList [Atom "scratch"; p_scratch (s_scratch st)];
                     SList (Atom "locals" :: map (fun x => SList ((match fst x with Some k => sN k | None => Atom "main" end) :: map sN (snd x))) locals)]
          end
      | _, Some (inr e), _ => SList [Atom "err"; p_cerr e]
      | _, _, _ => err "denote-c: unreadable request"
      end
  | _ => err "denote-c: expected (ctx ...) (opts ...) (prog ...)"
  end.

Definition do_opt_orphans (body : list sexp) : sexp :=
  match body with
  | [SList (Atom "opts" :: ob); pe] =>
      match w_opts ob, w_prog pe with
      | Some (inl o), Some p => SList (Atom "ok" :: map sN (if o_opt_slots o then opt_orphans o p else []))
      | _, _ => err "opt-orphans: bad request"
      end
  | _ => err "opt-orphans: expected (opts ...) (prog ...)"
  end.

Definition dispatch (e : sexp) : sexp :=
  match e with
  | SList (Atom cmd :: body) =>
      if String.eqb cmd "run" then do_run body
      else if String.eqb cmd "wide-ops" then do_wide_ops body
      else if String.eqb cmd "wide-spec" then do_wide_spec body
      else if String.eqb cmd "tokens" then do_tokens body
      else if String.eqb cmd "compile" then do_compile body
      else if String.eqb cmd "denote" then do_denote body
      else if String.eqb cmd "denote-c" then do_denote_c body
      else if String.eqb cmd "opt-orphans" then do_opt_orphans body
      else err ("unknown command " ++ cmd)
  | _ => err "expected (command ...)"
  end.

Definition handle (line : string) : string :=
  match parse_sexp line with
  | Some e => print_sexp (dispatch e)
  | None => print_sexp (err "unreadable request")
  end.
