(* Extract/Wire.v — conversions between s-expressions and model types (I/O glue, in Coq). *)
From Coq Require Import List Arith NArith Ascii String Bool.
From PV Require Import Base.Bytes Base.Sexp AVM.Syntax AVM.Machine AVM.Parse.
Import ListNotations.
Local Open Scope string_scope.

Definition w_N (e : sexp) : option N := match e with Atom a => N_of_dec a | _ => None end.
Definition w_nat (e : sexp) : option nat := option_map N.to_nat (w_N e).

Definition w_hex (a : string) : option bytes :=
  match a with
  | String c rest => if Ascii.eqb c "x" then bytes_of_hex rest else None
  | EmptyString => None
  end.

Definition w_bytes (e : sexp) : option bytes :=
  match e with
  | Atom a => w_hex a
  | Str s => Some (bytes_of_string s)
  | _ => None
  end.

Definition w_value (e : sexp) : option value :=
  match e with
  | Atom a => match N_of_dec a with
              | Some n => Some (VI n)
              | None => option_map VB (w_hex a)
              end
  | Str s => Some (VB (bytes_of_string s))
  | _ => None
  end.

Definition w_string (e : sexp) : option string :=
  match e with Str s => Some s | Atom a => Some a | _ => None end.

Fixpoint w_list {A} (f : sexp -> option A) (l : list sexp) : option (list A) :=
  match l with
  | [] => Some []
  | x :: t => match f x, w_list f t with Some a, Some r => Some (a :: r) | _, _ => None end
  end.

Definition w_pair {A B} (f : sexp -> option A) (g : sexp -> option B) (e : sexp) : option (A * B) :=
  match e with
  | SList [a; b] => match f a, g b with Some x, Some y => Some (x, y) | _, _ => None end
  | _ => None
  end.

(* association-list access on (key ...) forms *)
Fixpoint field (k : string) (l : list sexp) : option (list sexp) :=
  match l with
  | [] => None
  | SList (Atom k' :: body) :: t => if String.eqb k k' then Some body else field k t
  | _ :: t => field k t
  end.

Definition field_or_nil (k : string) (l : list sexp) : list sexp :=
  match field k l with Some b => b | None => [] end.

Definition w_values (l : list sexp) : option (list value) := w_list w_value l.

Definition w_txn (e : sexp) : option txn :=
  match e with
  | SList body =>
      match w_list (w_pair w_string w_value) (field_or_nil "fields" body),
            w_list (w_pair w_string (fun x => match x with SList l => w_values l | _ => None end)) (field_or_nil "arrays" body),
            w_list (w_pair w_N w_value) (field_or_nil "scratch" body) with
      | Some f, Some a, Some s =>
          let created := match field "created" body with Some [x] => match w_N x with Some n => n | None => 0%N end | _ => 0%N end in
          Some (mkTxn f a s created)
      | _, _, _ => None
      end
  | _ => None
  end.

Definition w_triple (e : sexp) : option (value * bytes * value) :=
  match e with
  | SList [a; k; v] => match w_value a, w_bytes k, w_value v with Some x, Some y, Some z => Some (x, y, z) | _, _, _ => None end
  | _ => None
  end.

Record run_input : Type := mkRI {
  ri_ctx : ctx; ri_state : mstate; ri_msel : list (string * bytes); ri_fuel : nat
}.

Definition w_ctx (body : list sexp) : option run_input :=
  let mode := match field "mode" body with Some [Atom m] => String.eqb m "app" | _ => true end in
  let gi := match field "gi" body with Some [x] => match w_nat x with Some n => n | None => O end | _ => O end in
  let appid := match field "app-id" body with Some [x] => match w_N x with Some n => n | None => 0%N end | _ => 0%N end in
  let fuel := match field "fuel" body with Some [x] => match w_nat x with Some n => n | None => N.to_nat 20000 end | _ => N.to_nat 20000 end in
  match w_list w_txn (field_or_nil "group" body),
        w_list (w_pair w_string w_value) (field_or_nil "globals" body),
        w_list w_bytes (field_or_nil "args" body),
        w_list (w_pair w_bytes w_value) (field_or_nil "gstate" body),
        w_list w_triple (field_or_nil "lstate" body),
        w_list (w_pair w_bytes w_bytes) (field_or_nil "boxes" body),
        w_list (w_pair w_string w_bytes) (field_or_nil "msel" body) with
  | Some g, Some gl, Some ar, Some gs, Some ls, Some bx, Some ms =>
      Some (mkRI (mkCtx mode g gi gl ar appid) (init_state gs ls bx) ms fuel)
  | _, _, _, _, _, _, _ => None
  end.

(* ---- output ---- *)
Definition p_value (v : value) : sexp :=
  match v with VI n => sN n | VB b => sHex b end.

Definition p_fields (l : list (string * value)) : sexp :=
  SList (map (fun kv => SList [Str (fst kv); p_value (snd kv)]) l).

Definition p_event (e : event) : sexp :=
  match e with
  | ELog b => SList [Atom "log"; sHex b]
  | EGPut k v => SList [Atom "gput"; sHex k; p_value v]
  | EGDel k => SList [Atom "gdel"; sHex k]
  | ELPut a k v => SList [Atom "lput"; p_value a; sHex k; p_value v]
  | ELDel a k => SList [Atom "ldel"; p_value a; sHex k]
  | EBoxPut k v => SList [Atom "boxput"; sHex k; sHex v]
  | EBoxDel k => SList [Atom "boxdel"; sHex k]
  | ESubmit g => SList (Atom "submit" :: map p_fields g)
  end.

Definition p_verdict (v : verdict) : sexp :=
  match v with
  | VApprove => Atom "approve"
  | VReject => Atom "reject"
  | VFail => Atom "fail"
  | VOutOfFuel => Atom "fuel"
  | VUnsup o => SList [Atom "unsup"; Str (opc_name o)]
  end.

Definition sort_scratch (l : list (N * value)) : list (N * value) :=
  (* insertion sort by slot index, for canonical output *)
  fold_right (fun x acc =>
    (fix ins (l : list (N * value)) :=
       match l with
       | [] => [x]
       | y :: t => if N.leb (fst x) (fst y) then x :: l else y :: ins t
       end) acc) [] l.

Definition p_scratch (l : list (N * value)) : sexp :=
  SList (map (fun kv => SList [sN (fst kv); p_value (snd kv)]) (sort_scratch l)).
