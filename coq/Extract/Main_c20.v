(* Extract/Main_c20.v — request handler of the C20 binary (ocaml/pv_c20).

   Requests (one per line):
     (welltyped EXPR)                 -> (wt true|false)           Src/WellTyped.v under the generated field tables
     (shape (opts ...) (prog ...))    -> (shape (straight B) (has-return B) (blocks N) (depth D) (nblocks M))
                                         B: membership in the fragment of Props/C20.accepts_well_typed_partial for
                                         the given options; N = Proofs.TotalityChain.blocks of the main routine;
                                         D = recursion depth of addIncoming on the lowered main routine (after the
                                         implicit Return wrapping of compileSubroutine); M = number of blocks
                                         allocated by the lowering.  (shape-err KIND) when PyTeal's own checks
                                         reject the main routine.
     (compile (opts ...) (prog ...))  -> as the main binary: (ok "line" ...) | (err KIND)
     (both (opts ...) (prog ...))     -> (both COMPILE-ANSWER SHAPE-ANSWER) *)
From Coq Require Import List Arith NArith Ascii String Bool.
From PV Require Import Base.Bytes Base.Sexp AVM.Syntax Src.Expr Src.WellTyped Comp.Blocks Comp.Lower Comp.Passes
  Comp.Compile Gen.Tables Extract.Wire Extract.WireExpr
  Proofs.TotalityChain Proofs.TotalityAccept Proofs.TotalityWitness.
Import ListNotations.
Local Open Scope string_scope.

Definition err (m : string) : sexp := SList [Atom "error"; Str m].
Definition sB (b : bool) : sexp := Atom (if b then "true" else "false").
Definition sNat (n : nat) : sexp := Atom (N_to_dec (N.of_nat n)).

Definition do_welltyped (body : list sexp) : sexp :=
  match body with
  | [e] => match w_expr FUEL e with
           | Some x => SList [Atom "wt"; sB (wt x)]
           | None => err "welltyped: unreadable recipe"
           end
  | _ => err "welltyped: expected one recipe"
  end.

(* the expression compileSubroutine lowers for the main routine *)
Definition main_ast (e : expr) : expr :=
  if has_return e then e
  else match type_of e with
       | TNone => ESeq [e; EReturn None]
       | _ => EReturn (Some e)
       end.

Definition do_shape (body : list sexp) : sexp :=
  match body with
  | [SList (Atom "opts" :: ob); pe] =>
      match w_opts ob, w_prog pe with
      | Some (inl o), Some p =>
          let e := p_main p in
          let ast := main_ast e in
          match check_expr o None false ast with
          | Some k => SList [Atom "shape-err"; p_cerr k]
          | None =>
              let '((start, _), g) := lower o (mkL None None None main_param) ast None empty_graph in
              let '(_, d) := add_incoming g start in
              SList [Atom "shape";
                     SList [Atom "straight"; sB (straight o (okop o gen_modes) e)];
                     SList [Atom "has-return"; sB (has_return e)];
                     SList [Atom "blocks"; sNat (blocks e)];
                     SList [Atom "depth"; sNat d];
                     SList [Atom "nblocks"; sNat (g_next g)]]
          end
      | Some (inr k), Some _ => SList [Atom "shape-err"; p_cerr k]
      | None, _ => err "shape: bad options"
      | _, None => err "shape: unreadable program recipe"
      end
  | _ => err "shape: expected (opts ...) (prog ...)"
  end.

Definition do_compile (body : list sexp) : sexp :=
  match body with
  | [SList (Atom "opts" :: ob); pe] =>
      match w_opts ob, w_prog pe with
      | Some (inl o), Some p =>
          match compile_model o gen_modes p with
          | COk lines => SList (Atom "ok" :: map Str lines)
          | CErr e => SList [Atom "err"; p_cerr e]
          end
      | Some (inr e), Some _ => SList [Atom "err"; p_cerr e]
      | None, _ => err "compile: bad options"
      | _, None => err "compile: unreadable program recipe"
      end
  | _ => err "compile: expected (opts ...) (prog ...)"
  end.

(* (both (opts ...) (prog ...)) -> (both COMPILE-ANSWER SHAPE-ANSWER): one round trip, one parse *)
Definition do_both (body : list sexp) : sexp :=
  SList [Atom "both"; do_compile body; do_shape body].

Definition dispatch (e : sexp) : sexp :=
  match e with
  | SList (Atom cmd :: body) =>
      if String.eqb cmd "welltyped" then do_welltyped body
      else if String.eqb cmd "both" then do_both body
      else if String.eqb cmd "shape" then do_shape body
      else if String.eqb cmd "compile" then do_compile body
      else err ("unknown command " ++ cmd)
  | _ => err "expected (command ...)"
  end.

Definition handle (line : string) : string :=
  match parse_sexp line with
  | Some e => print_sexp (dispatch e)
  | None => print_sexp (err "unreadable request")
  end.
