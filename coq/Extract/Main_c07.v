(* Extract/Main_c07.v — request handler of the extracted binary ocaml/pv_c07 (C07: ABI decoding / element access).
   One request per line, one response per line.  Types / values: ABI/Wire.v.  SRC is one of
       (tuple (T ...) i)     tuple[i].store_into(out)            model: ABI/Index.v index_tuple
       (array T)             array[idx].store_into(out)          array_elem_plan
       (get T)               x.get() on String/DynamicBytes/Address/StaticBytes      get_plan
       (decode T)            out.decode(encoded) with no range                       decode_plan T None None None
   Commands:
     (plan SRC)                       -> (plan "text") | (noplan)     the expression the model builds, printed like str(expr)
                                                                       with `enc` for the encoded operand and `idx` for the index
     (length T)                       -> (plan "text") | (noplan)     array.length()
     (exec VER SRC xENC IDX)          -> (some VALUE) | (fail) | (noplan)     exec_plan with AVM op semantics
     (execlen T xENC)                 -> (some N) | (fail) | (noplan)
     (sel substring|extract|suffix VER A B) -> (op "extract 1 2" | "extract3" | "substring 1 2" | "substring3" | "diglen") | (error)
     (stored T V)                     -> (some VALUE) | (none)        what a correct decode stores (spec)
     (encode T V)                     -> (some xHEX) | (none)         arc4_encode
     (run (ctx ...) "teal")           -> as in Extract/Main.v: execute TEAL on the AVM model *)
From Coq Require Import List Arith NArith Ascii String Bool.
From PV Require Import Base.Bytes Base.Sexp AVM.Syntax AVM.Ops AVM.Machine AVM.Parse Extract.Wire
  ABI.Types ABI.Spec ABI.Layout ABI.Wire ABI.Index.
Import ListNotations.
Local Open Scope string_scope.

Definition err (m : string) : sexp := SList [Atom "error"; Str m].

(* ---- printing plans in the syntax of PyTeal's str(expr) ---- *)
Fixpoint p_iexpr (e : iexpr) : string :=
  match e with
  | IInt n => "(Int " ++ N_to_dec n ++ ")"
  | IIdx => "idx"
  | IAdd a b => "(+ " ++ p_iexpr a ++ " " ++ p_iexpr b ++ ")"
  | IMul a b => "(* " ++ p_iexpr a ++ " " ++ p_iexpr b ++ ")"
  | IEq a b => "(== " ++ p_iexpr a ++ " " ++ p_iexpr b ++ ")"
  | IU16 a => "(ExtractUint16 enc " ++ p_iexpr a ++ ")"
  | ILen => "(Len enc)"
  | ILenDyn => "(Seq (Store tmp (ExtractUint16 enc (Int 0))) (Load tmp))"
  | IIf c a b => "(If " ++ p_iexpr c ++ " " ++ p_iexpr a ++ " " ++ p_iexpr b ++ ")"
  end.

Definition p_plan (p : plan) : string :=
  match p with
  | PGetbit b => "(Getbit enc " ++ p_iexpr b ++ ")"
  | PBtoi => "(Btoi enc)"
  | PUintAt bits s =>
      (if N.eqb bits 8 then "(Getbyte enc " else "(ExtractUint" ++ N_to_dec bits ++ " enc ") ++ p_iexpr s ++ ")"
  | PWhole => "enc"
  | PExtract s l => "(Extract enc " ++ p_iexpr s ++ " " ++ p_iexpr l ++ ")"
  | PSubstring s e => "(Substring enc " ++ p_iexpr s ++ " " ++ p_iexpr e ++ ")"
  | PSuffix s => "(Suffix enc " ++ p_iexpr s ++ ")"
  end.

Fixpoint w_tys (l : list sexp) : option (list ty) :=
  match l with
  | [] => Some []
  | x :: r => match w_ty x, w_tys r with Some t, Some ts => Some (t :: ts) | _, _ => None end
  end.

(* Some (Some p) = plan, Some None = the construction raises, None = unreadable request *)
Definition w_src (e : sexp) : option (option plan) :=
  match e with
  | SList [Atom "tuple"; SList ts; i] =>
      match w_tys ts, wa_N i with
      | Some ts', Some i' => Some (index_tuple ts' (N.to_nat i'))
      | _, _ => None
      end
  | SList [Atom "array"; t] => option_map array_elem_plan (w_ty t)
  | SList [Atom "get"; t] => option_map get_plan (w_ty t)
  | SList [Atom "decode"; t] => option_map (fun t' => decode_plan t' None None None) (w_ty t)
  | _ => None
  end.

Definition do_plan (body : list sexp) : sexp :=
  match body with
  | [src] =>
      match w_src src with
      | Some (Some p) => SList [Atom "plan"; Str (p_plan p)]
      | Some None => SList [Atom "noplan"]
      | None => err "plan: unreadable source"
      end
  | _ => err "plan: expected one source"
  end.

Definition do_length (body : list sexp) : sexp :=
  match body with
  | [t] =>
      match w_ty t with
      | Some t' =>
          match array_info t' with
          | Some (_, slen) => SList [Atom "plan"; Str (p_iexpr (length_expr slen))]
          | None => SList [Atom "noplan"]
          end
      | None => err "length: bad type"
      end
  | _ => err "length: expected a type"
  end.

Definition p_ovalue (o : option value) : sexp :=
  match o with Some v => SList [Atom "some"; p_value v] | None => SList [Atom "fail"] end.

Definition w_hexatom (e : sexp) : option bytes := match e with Atom a => wa_hex a | _ => None end.

Definition do_exec (body : list sexp) : sexp :=
  match body with
  | [ver; src; enc; idx] =>
      match wa_N ver, w_src src, w_hexatom enc, wa_N idx with
      | Some v, Some (Some p), Some bs, Some i => p_ovalue (exec_plan v p bs i)
      | Some _, Some None, Some _, Some _ => SList [Atom "noplan"]
      | _, _, _, _ => err "exec: unreadable request"
      end
  | _ => err "exec: expected VER SRC xENC IDX"
  end.

Definition do_execlen (body : list sexp) : sexp :=
  match body with
  | [t; enc] =>
      match w_ty t, w_hexatom enc with
      | Some t', Some bs =>
          match array_info t' with
          | Some (_, slen) =>
              match eval_iexpr bs 0 (length_expr slen) with
              | Some n => SList [Atom "some"; sN n]
              | None => SList [Atom "fail"]
              end
          | None => SList [Atom "noplan"]
          end
      | _, _ => err "execlen: bad type or bytes"
      end
  | _ => err "execlen: expected T xENC"
  end.

Definition p_sel (r : selres) : sexp :=
  match r with
  | SelError => SList [Atom "error"]
  | SelOk o =>
      SList [Atom "op"; Str (match o with
                             | SExtractImm s l => "extract " ++ N_to_dec s ++ " " ++ N_to_dec l
                             | SExtract3 => "extract3"
                             | SSubstringImm s e => "substring " ++ N_to_dec s ++ " " ++ N_to_dec e
                             | SSubstring3 => "substring3"
                             | SDigLenSubstring3 => "diglen"
                             end)]
  end.

Definition do_sel (body : list sexp) : sexp :=
  match body with
  | [Atom k; ver; a; b] =>
      match wa_N ver, wa_N a, wa_N b with
      | Some v, Some a', Some b' =>
          if String.eqb k "substring" then p_sel (sel_substring v a' b')
          else if String.eqb k "extract" then p_sel (sel_extract v a' b')
          else if String.eqb k "suffix" then p_sel (sel_suffix v a')
          else err "sel: unknown selector"
      | _, _, _ => err "sel: bad numbers"
      end
  | _ => err "sel: expected KIND VER A B"
  end.

Definition do_tv (f : ty -> val -> sexp) (body : list sexp) : sexp :=
  match body with
  | [t; v] => match w_ty t, w_val v with
              | Some t', Some v' => f t' v'
              | None, _ => err "bad type"
              | _, None => err "bad value"
              end
  | _ => err "expected a type and a value"
  end.

Definition do_run (body : list sexp) : sexp :=
  match body with
  | [SList (Atom "ctx" :: cb); Str text] =>
      match w_ctx cb with
      | None => err "bad ctx"
      | Some ri =>
          match parse_program (ri_msel ri) text with
          | None => SList [Atom "parse-error"]
          | Some p =>
              let '(v, m) := run (ri_fuel ri) (ri_ctx ri) p (init_mach (ri_state ri)) in
              SList [Atom "ran"; p_verdict v;
                     SList (Atom "stack" :: map p_value (m_stack m));
                     SList (Atom "trace" :: map p_event (rev (s_trace (m_st m))));
                     SList [Atom "scratch"; p_scratch (s_scratch (m_st m))];
                     SList [Atom "pc"; sN (N.of_nat (m_pc m))]]
          end
      end
  | _ => err "run: expected (ctx ...) and a program text"
  end.

Definition dispatch (e : sexp) : sexp :=
  match e with
  | SList (Atom cmd :: body) =>
      if String.eqb cmd "plan" then do_plan body
      else if String.eqb cmd "length" then do_length body
      else if String.eqb cmd "exec" then do_exec body
      else if String.eqb cmd "execlen" then do_execlen body
      else if String.eqb cmd "sel" then do_sel body
      else if String.eqb cmd "stored" then
        do_tv (fun t v => match stored t v with Some x => SList [Atom "some"; p_value x] | None => SList [Atom "none"] end) body
      else if String.eqb cmd "encode" then do_tv (fun t v => p_obytes (arc4_encode t v)) body
      else if String.eqb cmd "run" then do_run body
      else err ("unknown command " ++ cmd)
  | _ => err "expected (command ...)"
  end.

Definition handle (line : string) : string :=
  match parse_sexp line with
  | Some e => print_sexp (dispatch e)
  | None => print_sexp (err "unreadable request")
  end.
