(* Extract/Main_c17.v — request handler of the C17 binary (ocaml/pv_c17).

   Request (one line):
     (validate (graph BLOCK ...) START (init SLOT ...) FUEL)
       BLOCK ::= (simple (OP ...) NEXT) | (cond (OP ...) TRUE FALSE)      NEXT, TRUE, FALSE ::= <block index> | none
       OP    ::= (st SLOT) | (ld SLOT TAG) | term | other
     Blocks are numbered 0.. in the order written; START is a block index; SLOT and TAG are decimal naturals.
   Response:
     (ok (errs TAG ...) (visited N) (bound B))   the error list of validateSlots in Python's order, the size of
                                                 the memo at the end, and fuel_bound (the fuel the theorems use)
     (out-of-fuel)                               FUEL did not suffice (never happens for FUEL >= B)
   By Proofs.ValidateSlotsProof.validate_slots_fuel_agrees an (ok ...) answer is the value of
   Comp.ValidateSlots.validate_slots whatever FUEL was. *)
From Coq Require Import List Arith NArith Ascii String Bool.
From PV Require Import Base.Bytes Base.Sexp Comp.ValidateSlots.
Import ListNotations.
Local Open Scope string_scope.

Definition err (m : string) : sexp := SList [Atom "error"; Str m].

Definition r_N (e : sexp) : option N := match e with Atom a => N_of_dec a | _ => None end.

Definition r_onat (e : sexp) : option (option nat) :=
  match e with
  | Atom a => if String.eqb a "none" then Some None
              else match N_of_dec a with Some n => Some (Some (N.to_nat n)) | None => None end
  | _ => None
  end.

Fixpoint r_list {A} (f : sexp -> option A) (l : list sexp) : option (list A) :=
  match l with
  | [] => Some []
  | x :: t => match f x, r_list f t with Some a, Some r => Some (a :: r) | _, _ => None end
  end.

Definition r_op (e : sexp) : option op :=
  match e with
  | Atom a => if String.eqb a "term" then Some Term else if String.eqb a "other" then Some Other else None
  | SList [Atom k; s] =>
      if String.eqb k "st" then option_map Store (r_N s) else None
  | SList [Atom k; s; t] =>
      if String.eqb k "ld" then match r_N s, r_N t with Some a, Some b => Some (Load a b) | _, _ => None end else None
  | _ => None
  end.

Definition r_block (e : sexp) : option block :=
  match e with
  | SList [Atom k; SList ops; n] =>
      if String.eqb k "simple" then
        match r_list r_op ops, r_onat n with Some o, Some x => Some (Simple o x) | _, _ => None end
      else None
  | SList [Atom k; SList ops; t; f] =>
      if String.eqb k "cond" then
        match r_list r_op ops, r_onat t, r_onat f with Some o, Some x, Some y => Some (Cond o x y) | _, _, _ => None end
      else None
  | _ => None
  end.

Definition bound_N (g : graph) (init : list N) : N :=
  (N.of_nat (List.length (all_succs g)) * 2 ^ N.of_nat (List.length (slots_univ g init)) + 1)%N.

Definition do_validate (body : list sexp) : sexp :=
  match body with
  | [SList (Atom "graph" :: bs); st; SList (Atom "init" :: ss); fu] =>
      match r_list r_block bs, r_N st, r_list r_N ss, r_N fu with
      | Some g, Some s, Some init, Some fuel =>
          match validate_slots_fuel (N.to_nat fuel) g (N.to_nat s) init with
          | Some (errs, vis) =>
              SList [Atom "ok"; SList (Atom "errs" :: map sN errs);
                     SList [Atom "visited"; sN (N.of_nat (List.length vis))];
                     SList [Atom "bound"; sN (bound_N g init)]]
          | None => SList [Atom "out-of-fuel"]
          end
      | _, _, _, _ => err "validate: bad graph, start, init or fuel"
      end
  | _ => err "validate: expected (graph ...) start (init ...) fuel"
  end.

Definition dispatch (e : sexp) : sexp :=
  match e with
  | SList (Atom cmd :: body) =>
      if String.eqb cmd "validate" then do_validate body
      else err ("unknown command " ++ cmd)
  | _ => err "expected (command ...)"
  end.

Definition handle (line : string) : string :=
  match parse_sexp line with
  | Some e => print_sexp (dispatch e)
  | None => print_sexp (err "unreadable request")
  end.
