From Coq Require Import Extraction ExtrOcamlBasic ExtrOcamlNativeString. From PV Require Import Extract.Main_c17. Extraction "pv_c17.ml" handle.
