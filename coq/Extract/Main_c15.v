(* Extract/Main_c15.v — request handler of the C15 model binary (ocaml/pv_c15).
   Integers travel as decimal strings (optional leading minus sign), so that negative and huge
   values survive the wire.
     (vlq-enc "z" ...)            -> (ok "text")                 hand model Lit/VLQ.v
     (vlq-dec "text")             -> (ok "z" ...) | (none)
     (gen-vlq-enc "z" ...)        -> (ok "text") | (none)        kernel generated from the Python source
     (gen-vlq-dec "text")         -> (ok "z" ...) | (none)
     (r3-to-json TABLE)           -> (ok (src ...) (name ...) "mappings" ordered)
     (r3-from-json (src ...) (name ...) "mappings") -> (ok TABLE) | (none)
     (tokens-many "line" ...)     -> (ok (tok ...) ...)          AVM/Parse.tokens_of_line
     (clean-many "line" ...)      -> (ok true|false ...)         Lit/Annot.line_ends_clean
   TABLE = ((SEG ...) ...)   SEG = (s "col") | (s "col" SRC "line" "scol") | (s "col" SRC "line" "scol" "name")
   SRC = "file" | none *)
From Coq Require Import List Arith NArith ZArith Ascii String Bool.
From PV Require Import Base.Bytes Base.Sexp AVM.Parse Lit.PyInt Lit.VLQ Lit.R3 Lit.Annot Gen.VLQKernel.
Import ListNotations.
Local Open Scope string_scope.

Definition err (m : string) : sexp := SList [Atom "error"; Str m].

Definition Z_of_dec (s : string) : option Z :=
  match s with
  | String "-"%char r => match N_of_dec r with Some n => Some (Z.opp (Z.of_N n)) | None => None end
  | _ => match N_of_dec s with Some n => Some (Z.of_N n) | None => None end
  end.

Definition Z_to_dec (z : Z) : string :=
  match z with
  | Zneg p => "-" ++ N_to_dec (Npos p)
  | _ => N_to_dec (Z.to_N z)
  end.

Definition sZ (z : Z) : sexp := Str (Z_to_dec z).

Fixpoint r_list {A : Type} (f : sexp -> option A) (l : list sexp) : option (list A) :=
  match l with
  | [] => Some []
  | x :: t => match f x, r_list f t with Some y, Some r => Some (y :: r) | _, _ => None end
  end.

Definition r_Z (e : sexp) : option Z := match e with Str s => Z_of_dec s | Atom s => Z_of_dec s | _ => None end.
Definition r_Str (e : sexp) : option string := match e with Str s => Some s | _ => None end.

Definition codes_of (s : string) : list Z := map code (list_ascii_of_string s).
Definition string_of_codes (l : list Z) : string :=
  string_of_list_ascii (map (fun z => ascii_of_N (Z.to_N z)) l).

Definition p_zs (o : option (list Z)) : sexp :=
  match o with Some l => SList (Atom "ok" :: map sZ l) | None => SList [Atom "none"] end.

Definition r_seg (e : sexp) : option seg :=
  match e with
  | SList [Atom "s"; c] =>
      match r_Z c with Some col => Some (mkSeg col None) | None => None end
  | SList (Atom "s" :: c :: src :: ln :: sc :: rest) =>
      let source := match src with Str f => Some (Some f) | Atom "none" => Some None | _ => None end in
      let name := match rest with [] => Some None | [Str n] => Some (Some n) | _ => None end in
      match r_Z c, source, r_Z ln, r_Z sc, name with
      | Some col, Some so, Some l, Some k, Some nm => Some (mkSeg col (Some (mkRef so l k nm)))
      | _, _, _, _, _ => None
      end
  | _ => None
  end.

Definition r_table (e : sexp) : option r3table :=
  match e with
  | SList ls => r_list (fun l => match l with SList segs => r_list r_seg segs | _ => None end) ls
  | _ => None
  end.

Definition p_seg (s : seg) : sexp :=
  match g_ref s with
  | None => SList [Atom "s"; sZ (g_col s)]
  | Some r =>
      SList ([Atom "s"; sZ (g_col s);
              match r_source r with Some f => Str f | None => Atom "none" end;
              sZ (r_line r); sZ (r_col r)] ++
             match r_name r with Some n => [Str n] | None => [] end)
  end.

Definition p_table (m : r3table) : sexp := SList (map (fun l => SList (map p_seg l)) m).

Definition p_bool (b : bool) : sexp := Atom (if b then "true" else "false").

Definition dispatch (e : sexp) : sexp :=
  match e with
  | SList (Atom cmd :: body) =>
      if String.eqb cmd "vlq-enc" then
        match r_list r_Z body with
        | Some l => SList [Atom "ok"; Str (vlq_encode l)]
        | None => err "vlq-enc: bad integers"
        end
      else if String.eqb cmd "vlq-dec" then
        match body with [Str s] => p_zs (vlq_decode s) | _ => err "vlq-dec: expected a string" end
      else if String.eqb cmd "gen-vlq-enc" then
        match r_list r_Z body with
        | Some l =>
            match base64vlq_encode (enc_fuel l) l with
            | Some cs => SList [Atom "ok"; Str (string_of_codes cs)]
            | None => SList [Atom "none"]
            end
        | None => err "gen-vlq-enc: bad integers"
        end
      else if String.eqb cmd "gen-vlq-dec" then
        match body with [Str s] => p_zs (base64vlq_decode (codes_of s)) | _ => err "gen-vlq-dec: expected a string" end
      else if String.eqb cmd "r3-to-json" then
        match body with
        | [t] =>
            match r_table t with
            | Some m =>
                let '(srcs, names, mp) := r3_to_json m in
                SList [Atom "ok"; SList (map Str srcs); SList (map Str names); Str mp; p_bool (r3_ordered m)]
            | None => err "r3-to-json: bad table"
            end
        | _ => err "r3-to-json: expected one table"
        end
      else if String.eqb cmd "r3-from-json" then
        match body with
        | [SList srcs; SList names; Str mp] =>
            match r_list r_Str srcs, r_list r_Str names with
            | Some s, Some n =>
                match r3_from_json s n mp with
                | Some m => SList [Atom "ok"; p_table m]
                | None => SList [Atom "none"]
                end
            | _, _ => err "r3-from-json: bad string lists"
            end
        | _ => err "r3-from-json: expected (sources) (names) mappings"
        end
      else if String.eqb cmd "tokens-many" then
        match r_list r_Str body with
        | Some ls => SList (Atom "ok" :: map (fun l => SList (map Str (tokens_of_line l))) ls)
        | None => err "tokens-many: expected strings"
        end
      else if String.eqb cmd "clean-many" then
        match r_list r_Str body with
        | Some ls => SList (Atom "ok" :: map (fun l => p_bool (line_ends_clean l)) ls)
        | None => err "clean-many: expected strings"
        end
      else err ("unknown command " ++ cmd)
  | _ => err "expected (command ...)"
  end.

Definition handle (line : string) : string :=
  match parse_sexp line with
  | Some e => print_sexp (dispatch e)
  | None => print_sexp (err "unreadable request")
  end.
