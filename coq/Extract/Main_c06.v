(* Extract/Main_c06.v — request handler of the extracted binary ocaml/pv_c06 (property C06).
   One request per line, one response per line.  Commands:
     (descr T)          -> (descr "py_str" PYDYN PYLEN "type_str" DYN LEN PYTEAL)
                           PYDYN/DYN = true|false, PYLEN/LEN = N | none: PyTeal's descriptors
                           (ABI/Descr.v py_str, ABI/Encode.v py_is_dynamic, py_byte_length_static) and the
                           ARC-4 spec's (ABI/Spec.v); PYTEAL = pyteal_ty T
     (set LIM T SRC)    -> (set OUTCOME VALUE SPEC)
                           LIM = none | N (byte-string cap of concat);  OUTCOME = (ok xHEX) | (reject) | (fail):
                           ABI/Encode.v set_outcome;  VALUE = (value) | (novalue): does denote T SRC exist;
                           SPEC = (some xHEX) | (none): arc4_encode T of that value
     (encode T V)       -> (some xHEX) | (none)      arc4_encode
     (typed T V)        -> true | false              val_has_type
     (tuple LIM (T SV) ...) -> (ok xHEX) | (reject) | (fail)    _encode_tuple on members (type, cell content);
                           SV = N (uint64 cell) | xHEX (bytes cell)
   Types / values: ABI/Wire.v.  Sources:
     SRC ::= true | false | (int N) | (nint N)  [= -N] | (iexpr N) | (blit BYTES) | (bexpr BYTES)
           | (copy SRC) | (members ITEM ...)        ITEM ::= SRC | (rep N SRC)
     BYTES ::= xHEX | "text" | (repb N B) *)
From Coq Require Import List Arith NArith ZArith Ascii String Bool.
From PV Require Import Base.Bytes Base.Sexp ABI.Types ABI.Spec ABI.Descr ABI.Wire ABI.Encode.
Import ListNotations.
Local Open Scope string_scope.

Definition err (m : string) : sexp := SList [Atom "error"; Str m].

Definition w_bytes_arg (e : sexp) : option bytes :=
  match e with
  | Atom a => wa_hex a
  | Str s => Some (bytes_of_string s)
  | SList [Atom "repb"; n; b] =>
      match wa_N n, wa_N b with
      | Some n', Some b' => Some (repeat (n2b b') (N.to_nat n'))
      | _, _ => None
      end
  | _ => None
  end.

Fixpoint w_src (e : sexp) : option src :=
  match e with
  | Atom a =>
      if String.eqb a "true" then Some (SBoolLit true)
      else if String.eqb a "false" then Some (SBoolLit false)
      else None
  | Str _ => None
  | SList (Atom h :: args) =>
      if String.eqb h "int" then match args with [n] => option_map (fun x => SInt (Z.of_N x)) (wa_N n) | _ => None end
      else if String.eqb h "nint" then match args with [n] => option_map (fun x => SInt (- Z.of_N x)) (wa_N n) | _ => None end
      else if String.eqb h "iexpr" then match args with [n] => option_map SIntExpr (wa_N n) | _ => None end
      else if String.eqb h "blit" then match args with [b] => option_map SBytesLit (w_bytes_arg b) | _ => None end
      else if String.eqb h "bexpr" then match args with [b] => option_map SBytesExpr (w_bytes_arg b) | _ => None end
      else if String.eqb h "copy" then match args with [s] => option_map SCopy (w_src s) | _ => None end
      else if String.eqb h "members" then
        option_map SMembers
          ((fix go (l : list sexp) : option (list src) :=
              match l with
              | [] => Some []
              | x :: r =>
                  match go r with
                  | None => None
                  | Some rest =>
                      let plain := match w_src x with Some s => Some (s :: rest) | None => None end in
                      match x with
                      | SList [Atom h2; n; y] =>
                          if String.eqb h2 "rep" then
                            match wa_N n, w_src y with
                            | Some n', Some s => Some (repeat s (N.to_nat n') ++ rest)%list
                            | _, _ => None
                            end
                          else plain
                      | _ => plain
                      end
                  end
              end) args)
      else None
  | SList _ => None
  end.

Definition w_lim (e : sexp) : option (option N) :=
  match e with
  | Atom a => if String.eqb a "none" then Some None else option_map Some (N_of_dec a)
  | _ => None
  end.

Definition p_outcome (o : outcome) : sexp :=
  match o with
  | OBytes b => SList [Atom "ok"; sHex b]
  | OReject => SList [Atom "reject"]
  | OFail => SList [Atom "fail"]
  end.

Definition p_on (o : option N) : sexp := match o with Some n => sN n | None => Atom "none" end.

Definition do_descr (body : list sexp) : sexp :=
  match body with
  | [t] =>
      match w_ty t with
      | Some t' =>
          SList [Atom "descr"; Str (py_str t'); p_bool (py_is_dynamic t'); p_on (py_byte_length_static t');
                 Str (type_str t'); p_bool (is_dynamic t'); p_on (static_len_opt t'); p_bool (pyteal_ty t')]
      | None => err "bad type"
      end
  | _ => err "descr: expected one type"
  end.

Definition do_set (body : list sexp) : sexp :=
  match body with
  | [l; t; s] =>
      match w_lim l, w_ty t, w_src s with
      | Some lim, Some t', Some s' =>
          let v := denote t' s' in
          SList [Atom "set"; p_outcome (set_outcome lim t' s');
                 match v with Some _ => SList [Atom "value"] | None => SList [Atom "novalue"] end;
                 p_obytes (obind v (arc4_encode t'))]
      | None, _, _ => err "bad limit"
      | _, None, _ => err "bad type"
      | _, _, None => err "bad source"
      end
  | _ => err "set: expected LIM T SRC"
  end.

Definition do_tv (f : ty -> val -> sexp) (body : list sexp) : sexp :=
  match body with
  | [t; v] => match w_ty t, w_val v with
              | Some t', Some v' => f t' v'
              | None, _ => err "bad type"
              | _, None => err "bad value"
              end
  | _ => err "expected a type and a value"
  end.

Definition w_member (e : sexp) : option member :=
  match e with
  | SList [t; Atom a] =>
      match w_ty t with
      | Some t' =>
          match N_of_dec a with
          | Some n => Some (t', SI n)
          | None => option_map (fun b => (t', SB b)) (wa_hex a)
          end
      | None => None
      end
  | _ => None
  end.

Definition do_tuple (body : list sexp) : sexp :=
  match body with
  | l :: ms =>
      match w_lim l, map_all w_member ms with
      | Some lim, Some vals =>
          if encode_tuple_ok vals then
            match encode_tuple_run lim vals with
            | Some b => p_outcome (OBytes b)
            | None => p_outcome OFail
            end
          else p_outcome OReject
      | _, _ => err "tuple: bad limit or member"
      end
  | _ => err "tuple: expected LIM (T SV) ..."
  end.

Definition dispatch (e : sexp) : sexp :=
  match e with
  | SList (Atom cmd :: body) =>
      if String.eqb cmd "descr" then do_descr body
      else if String.eqb cmd "set" then do_set body
      else if String.eqb cmd "encode" then do_tv (fun t v => p_obytes (arc4_encode t v)) body
      else if String.eqb cmd "typed" then do_tv (fun t v => p_bool (val_has_type t v)) body
      else if String.eqb cmd "tuple" then do_tuple body
      else err ("unknown command " ++ cmd)
  | _ => err "expected (command ...)"
  end.

Definition handle (line : string) : string :=
  match parse_sexp line with
  | Some e => print_sexp (dispatch e)
  | None => print_sexp (err "unreadable request")
  end.
