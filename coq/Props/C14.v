(* Props/C14.v — Inner method calls are marshalled per ARC-4.
   Property theorems only; proofs live in Proofs/ItxnWalk.v, Proofs/ItxnCorrect.v and
   Proofs/ItxnClient.v.

   [method_call]  = model of InnerTxnBuilder.MethodCall (Router/Itxn.v): the inner transactions it adds to
                    the open group, as the reference AVM records them, or the exception class;
   [denotes]      = what the supplied Python objects mean at the ARC-4 level (an ABI instance means the
                    value it holds; a raw bytes expression for a plain parameter is — by MethodCall's
                    contract — already the ARC-4 encoding of the value meant; a dict is a transaction);
   [observe]      = the recorded application call read as ApplicationArgs / Accounts / Assets /
                    Applications / preceding transactions;
   [valid_call]   = the ARC-4 client convention (selector first; one application argument per
                    non-transaction argument, the 15th and later packed as ONE tuple by [pack] of
                    Router/Args.v; a reference argument travels as a uint8 index that RESOLVES, for the
                    callee, to the value passed; transaction arguments are the transactions immediately
                    before the call, in order, each of the type the signature names);
   [assignable]   = model of type_spec_is_assignable_to (ABI/Assignable.v, C19);
   [selector_of]  = SHA-512/256 truncated to 4 bytes, an oracle: only assumed to be a function. *)
From Coq Require Import List Arith NArith Ascii String Bool.
From PV Require Import Base.Bytes AVM.Syntax ABI.Types ABI.Spec ABI.Layout ABI.Assignable
  Router.Args Router.Itxn Proofs.ItxnWalk Proofs.ItxnCorrect Proofs.ItxnClient.
Import ListNotations.
Local Open Scope string_scope.
Local Open Scope list_scope.

(* MAIN (F).  For every signature with at most 15 non-transaction arguments, every argument list the
   constructor accepts and every meaning of it: the group MethodCall records is the transaction
   arguments in order, immediately followed by ONE application call (TypeEnum appl) which — however
   extra_fields extends the foreign arrays — is an ARC-4 client encoding of the call. *)
Theorem C14_itxn_method_call_correct_le15 :
  forall (selector_of : string -> bytes) (s : msig) (app_id : aid) (args : list iarg) (extra : fdict)
         (grp : list itx) (ks : list karg) (sender : bytes) (callee : N),
    method_call selector_of s app_id args extra = Ok grp ->
    denotes (s_params s) args ks ->
    (count_nontxn (s_params s) <= 15)%nat ->
    extra_ok extra = true ->
    let pre := ktxns (combine (s_params s) ks) in
    exists calltx,
      grp = pre ++ [calltx] /\
      last_field "TypeEnum" calltx = Some (VI 6) /\
      forall c, observe pre calltx = Some c ->
                valid_call (selector_of (arc4_sig_str s)) sender callee s ks c.
Proof. exact method_call_correct_le15. Qed.
Print Assumptions C14_itxn_method_call_correct_le15.

(* ... and the call can indeed be read back (the universally quantified [c] above exists) whenever
   extra_fields leaves the foreign arrays alone. *)
Theorem C14_itxn_method_call_observable :
  forall (selector_of : string -> bytes) s app_id args extra grp ks,
    method_call selector_of s app_id args extra = Ok grp ->
    denotes (s_params s) args ks ->
    extra_plain extra = true ->
    exists calltx c, grp = ktxns (combine (s_params s) ks) ++ [calltx] /\
                     observe (ktxns (combine (s_params s) ks)) calltx = Some c.
Proof. exact method_call_observable. Qed.
Print Assumptions C14_itxn_method_call_observable.

(* REFUTED beyond 15 (R).  MethodCall never packs: for sixteen uint64 arguments it records 17
   application arguments, which is not an ARC-4 encoding of the call (no ARC-4 call has more than 16).
   Known finding C14/no-tuple-packing. *)
Theorem C14_itxn_method_call_gt15_refuted :
  forall (selector_of : string -> bytes) (sender : bytes) (callee : N),
    exists grp calltx c,
      method_call selector_of s16 (AidExpr (XE T_uint (VI 1))) args16 [] = Ok grp /\
      denotes (s_params s16) args16 ks16 /\
      grp = ktxns (combine (s_params s16) ks16) ++ [calltx] /\
      observe (ktxns (combine (s_params s16) ks16)) calltx = Some c /\
      List.length (ic_args c) = 17%nat /\
      ~ valid_call (selector_of (arc4_sig_str s16)) sender callee s16 ks16 c.
Proof. exact method_call_gt15_refuted. Qed.
Print Assumptions C14_itxn_method_call_gt15_refuted.

Theorem C14_valid_call_at_most_16_args :
  forall sel sender callee s ks c, valid_call sel sender callee s ks c -> (List.length (ic_args c) <= 16)%nat.
Proof. exact valid_call_at_most_16_args. Qed.
Print Assumptions C14_valid_call_at_most_16_args.

(* GATE (F, through C19's relation).  An ABI instance is accepted only for a plain parameter its type
   is assignable to; then both types have the same layout and the recorded bytes are the ARC-4
   encoding of the held value under the SIGNATURE's type ... *)
Theorem C14_itxn_accepts_only_assignable :
  forall (selector_of : string -> bytes) s app_id args extra grp i t a v,
    method_call selector_of s app_id args extra = Ok grp ->
    nth_error (s_params s) i = Some t -> nth_error args i = Some (IAbi a v) ->
    is_txn_ty t = false /\ is_ref_ty t = false /\
    assignable a t = true /\ canon a = canon t /\
    exists bs, arc4_encode a v = Some bs /\ arc4_encode t v = Some bs /\ val_has_type t v = true.
Proof. exact method_call_gate. Qed.
Print Assumptions C14_itxn_accepts_only_assignable.

(* ... and an instance of a type that is not assignable is rejected when the expression is built. *)
Theorem C14_itxn_rejects_unassignable :
  forall (selector_of : string -> bytes) s app_id args extra i t a v,
    nth_error (s_params s) i = Some t -> nth_error args i = Some (IAbi a v) ->
    assignable a t = false ->
    exists e, method_call selector_of s app_id args extra = Err e.
Proof. exact method_call_rejects_unassignable. Qed.
Print Assumptions C14_itxn_rejects_unassignable.

(* INDEX RULES (F).  The reference argument that follows the parameters ps1 is recorded at application
   argument 1 + (number of non-transaction parameters in ps1) as the single byte
     accounts / applications: 1 + (number of earlier parameters of the same kind)   [entry 0 is implicit]
     assets:                  number of earlier asset parameters,
   and the value passed sits at position (number of earlier parameters of that kind) of the matching
   foreign array of the same transaction.  Holds for any number of arguments. *)
Theorem C14_reference_index_rules :
  forall (selector_of : string -> bytes) s app_id args extra grp ps1 k ps2 as1 a as2,
    method_call selector_of s app_id args extra = Ok grp ->
    s_params s = ps1 ++ TRef k :: ps2 -> args = as1 ++ a :: as2 -> List.length as1 = List.length ps1 ->
    exists pre calltx v,
      grp = pre ++ [calltx] /\ ref_value k a = Ok v /\
      nth_error (arr_of "ApplicationArgs" calltx) (S (count_nontxn ps1))
        = Some (VB [n2b (N.of_nat (pyteal_index k (count_ref k ps1)))]) /\
      nth_error (arr_of (array_name k) calltx) (count_ref k ps1) = Some v.
Proof. exact reference_index_rules. Qed.
Print Assumptions C14_reference_index_rules.

(* SPEC LINK (F).  The relation [valid_call] admits the reference client of C09: whatever
   [client_encode] (Router/Args.v — reuses entries, passes sender / called application as index 0;
   validated against algosdk's AtomicTransactionComposer on every C09 run) produces is a valid call. *)
Theorem C14_reference_client_is_valid_call :
  forall sel sender app s args c,
    client_encode sel sender app s args = Some c ->
    valid_call sel sender app s (map karg_of args) (icall_of c).
Proof. exact client_encode_is_valid_call. Qed.
Print Assumptions C14_reference_client_is_valid_call.

(* ---- non-vacuity: a call with every kind of argument is accepted, has a meaning, and is observed ---- *)
Definition ex_sig : msig :=
  mkSig "swap" [TRef RAccount; TTxn TxPay; TUint 64; TRef RAsset; TTup [TStaticArray TByte 32; TDynArray TBool];
                TRef RApplication; TTxn TxAny; TRef RAccount; TString] (Some (TUint 64)).
Definition ex_addr (c : ascii) : bytes := repeat c 32.
Definition ex_args : list iarg :=
  [ IExpr (XE T_bytes (VB (ex_addr "A")));
    IDict [("TypeEnum", FExpr (XEnum "pay")); ("Amount", FExpr (XE T_uint (VI 1000)))];
    IAbi (TUint 64) (VUint 7);
    IRefInst RAsset (VI 31);
    IAbi (TNamed 3 ["owner"; "flags"] [TAddress; TDynArray TBool])
         (VList [VBytes (ex_addr "B"); VList [VBool true; VBool false; VBool true]]);
    IExpr (XE T_any (VI 44));
    IDict [("TypeEnum", FExpr (XEnum "axfer")); ("XferAsset", FExpr (XE T_uint (VI 31)))];
    IRefInst RAccount (VB (ex_addr "C"));
    IExpr (XE T_bytes (VB (be_encode 2 2 ++ bytes_of_string "hi"))) ].
Definition ex_ks : list karg :=
  [ KAccount (ex_addr "A");
    KTxn [("TypeEnum", VI 1); ("Amount", VI 1000)];
    KVal (VUint 7);
    KAsset 31;
    KVal (VList [VBytes (ex_addr "B"); VList [VBool true; VBool false; VBool true]]);
    KApp 44;
    KTxn [("TypeEnum", VI 4); ("XferAsset", VI 31)];
    KAccount (ex_addr "C");
    KVal (VBytes (bytes_of_string "hi")) ].

Example C14_nonvacuous_accepted :
  exists grp, method_call (fun _ => bytes_of_string "SEL!") ex_sig (AidExpr (XE T_uint (VI 9))) ex_args
                          [("Fee", FExpr (XE T_uint (VI 0)))] = Ok grp /\ List.length grp = 3%nat.
Proof. eexists. split; [vm_compute; reflexivity | reflexivity]. Qed.

Example C14_nonvacuous_denotes : denotes (s_params ex_sig) ex_args ex_ks /\ count_nontxn (s_params ex_sig) = 7%nat.
Proof.
  split; [|reflexivity].
  repeat (apply D_cons || apply D_nil).
  - apply D_acct_e. reflexivity.
  - apply D_txn; [vm_compute; reflexivity | repeat constructor; cbn; intuition discriminate].
  - apply D_abi; reflexivity.
  - apply D_asset_i.
  - apply D_abi; reflexivity.
  - apply D_app_e. reflexivity.
  - apply D_txn; [vm_compute; reflexivity | repeat constructor; cbn; intuition discriminate].
  - apply D_acct_i.
  - eapply D_raw; try reflexivity.
Qed.

Example C14_nonvacuous_rejected :
  method_call (fun _ => []) (mkSig "f" [TAddress] None) AidNone [IAbi (TStaticBytes 32) (VBytes (ex_addr "A"))] []
    = Err E_Type /\
  method_call (fun _ => []) (mkSig "f" [TTxn TxPay] None) AidNone [IDict [("TypeEnum", FExpr (XEnum "axfer"))]] []
    = Err E_Input /\
  method_call (fun _ => []) (mkSig "f" [TUint 8] None) AidNone [IOther] [] = Err E_Type /\
  method_call (fun _ => []) (mkSig "f" [TUint 8] None) AidNone [] [] = Err E_Input.
Proof. vm_compute. repeat split; reflexivity. Qed.
