From PV Require Import Comp.Constants Proofs.ConstantsProof.
Theorem C12_placeholder : True. Proof. exact placeholder_ConstantsProof. Qed.
Print Assumptions C12_placeholder.
