(* Props/C12.v — assembleConstants changes how constants load, not their values.
   Property theorems only; proofs live in Proofs/ConstantsLitProof.v, ConstantsProof.v, ConstantsSim.v.
   Model: Comp/Constants.v (createConstantBlocks, extract*Value), Comp/ConstantsLit.v (the Python
   library calls); specification of "denotes" / "loads": Comp/ConstantsSpec.v over AVM/Parse.v and
   AVM/Machine.v.  addr_hash / sig_hash (SHA-512/256) and the template instantiation sigma are
   universally quantified. *)
From Coq Require Import List NArith Ascii String Bool.
From PV Require Import Base.Bytes Base.Sexp AVM.Syntax AVM.Machine AVM.Parse
  Comp.ConstantsLit Comp.Constants Comp.ConstantsSpec
  Proofs.ConstantsLitProof Proofs.ConstantsProof Proofs.ConstantsSim.
Import ListNotations.
Local Open Scope string_scope.

(* [F, site-wise] For every component list (any length, any mix), every instantiation sigma of the
   template placeholders and every hash oracle: if createConstantBlocks succeeds on an input whose
   constant pseudo-ops all assemble (input_ok: each site denotes a value; no `addr TMPL_x`; method
   signatures without backslashes), then the output is  block lines ++ body  where the block lines are
   only intcblock/bytecblock, they assemble and establish blocks (ib, bb), the body has the input's
   length, every non-constant component is unchanged at its position, and every constant site is
   replaced by an op that assembles and — index resolved against (ib, bb), or push immediate — loads
   exactly the value the pseudo-op denotes. *)
Theorem C12_constants_sites_preserved :
  forall (addr_hash : bytes -> bytes) (sig_hash : string -> bytes)
         (sigma : string -> string) (msel : list (string * bytes)),
    msel_consistent sig_hash msel ->
    forall ops out,
      create_constant_blocks addr_hash sig_hash ops = Some out ->
      input_ok sigma msel ops ->
      exists pro body ib bb,
        out = (pro ++ body)%list /\
        Forall (fun c => exists i, c = COp i /\ (i_op i = O_intcblock \/ i_op i = O_bytecblock)) pro /\
        blocks_after sigma msel pro [] [] = Some (ib, bb) /\
        Forall2 (site_ok sigma msel ib bb) ops body.
Proof. exact constants_sites_preserved. Qed.
Print Assumptions C12_constants_sites_preserved.

(* [F, single-step simulation on the AVM] Same hypotheses: at every constant site, the original
   instruction (in any program and machine state) and the rewritten instruction (in any program, in
   any state whose intc/bytec blocks are the ones the emitted block lines establish) both [step] to
   "pc + 1, the denoted value pushed, nothing else changed".  (Whole-run bisimulation — pc shift by the
   block lines, label resolution — is not proved here; it is exercised by differential execution.) *)
Theorem C12_constants_step_simulation :
  forall addr_hash sig_hash sigma msel ops out,
    msel_consistent sig_hash msel ->
    create_constant_blocks addr_hash sig_hash ops = Some out ->
    input_ok sigma msel ops ->
    exists pro body ib bb,
      out = (pro ++ body)%list /\
      blocks_after sigma msel pro [] [] = Some (ib, bb) /\
      Forall2 (site_sim sigma msel ib bb) ops body.
Proof. exact constants_step_simulation. Qed.
Print Assumptions C12_constants_step_simulation.

(* what load_value means on the machine: it is what [step] pushes *)
Theorem C12_load_value_is_step :
  forall ib bb p v, load_value ib bb p = Some v -> imm_fits p ->
  forall cx prog m,
    nth_error (pr_code prog) (m_pc m) = Some p ->
    m_intc m = ib -> m_bytec m = bb -> (height m <= STACK_MAX)%nat ->
    step cx prog m = Running (with_pc_stack m (S (m_pc m)) (sval_value v :: m_stack m)).
Proof. exact load_value_step. Qed.
Print Assumptions C12_load_value_is_step.

(* [F] extract_agrees_with_teal_grammar, byte literals: for EVERY spelling (so in particular every
   spelling Bytes can emit: quoted with escapes, 0x hex, base32(..), base64(..)), if constants.py
   extracts bytes b and the assembler reads v from the same token, then v = b. *)
Theorem C12_extract_agrees_with_teal_grammar_bytes :
  forall s b v rest,
    extract_bytes [AStr s] = Some (KBytes b) ->
    parse_bytes_arg (s :: rest) = Some (v, rest) ->
    v = b.
Proof. exact extract_bytes_agrees. Qed.
Print Assumptions C12_extract_agrees_with_teal_grammar_bytes.

(* ... integers: a named constant has the assembler's value, and the decimal spelling that replaces it
   reads back as that value; any uint64 printed in decimal reads back as itself. *)
Theorem C12_extract_agrees_with_teal_grammar_int :
  (forall name n, is_tmpl_name name = false -> extract_int [AStr name] = Some (KInt n) ->
     parse_int_arg name = Some n /\ parse_int_arg (N_to_dec n) = Some n) /\
  (forall n, (n < 18446744073709551616)%N -> parse_int_arg (N_to_dec n) = Some n).
Proof. split; [exact enum_value_kept|exact parse_int_arg_to_dec]. Qed.
Print Assumptions C12_extract_agrees_with_teal_grammar_int.

(* ... addresses (checksum is an oracle) and method selectors (for signatures without backslashes) *)
Theorem C12_extract_agrees_with_teal_grammar_addr_method :
  (forall addr_hash s key d,
     decode_address addr_hash (list_ascii_of_string s) = Some key ->
     Nat.eqb (String.length s) 58 = true -> decode_base32 s = Some d -> firstn 32 d = key) /\
  (forall sig_hash s b sg,
     extract_method sig_hash [AStr s] = Some (KBytes b) ->
     existsb (fun c => Ascii.eqb c "\"%char) (list_ascii_of_string s) = false ->
     parse_string_literal s = Some sg ->
     b = firstn 4 (sig_hash (string_of_bytes sg))).
Proof. split; [exact decode_address_agrees|exact method_sig_agrees]. Qed.
Print Assumptions C12_extract_agrees_with_teal_grammar_addr_method.

(* [F] the spelling createConstantBlocks emits for a byte value reads back as that value *)
Theorem C12_emitted_hex_reads_back :
  forall b rest, parse_bytes_arg (("0x" ++ bytes_to_hex b) :: rest) = Some (b, rest).
Proof. exact parse_bytes_arg_hex_spelling. Qed.
Print Assumptions C12_emitted_hex_reads_back.

(* [F] ... and that spelling (what Bytes(b"..") emits) is read by constants.py itself as the same value *)
Theorem C12_hex_spelling_read_by_both :
  forall b rest,
    extract_bytes [AStr ("0x" ++ bytes_to_hex b)] = Some (KBytes b) /\
    parse_bytes_arg (("0x" ++ bytes_to_hex b) :: rest) = Some (b, rest).
Proof. exact hex_spelling_read_by_both. Qed.
Print Assumptions C12_hex_spelling_read_by_both.

(* [R] constant_index_encodable is FALSE: there is a well-formed input (257 distinct integers, each used
   twice) for which the output contains `intc k` with k > 255. *)
Theorem C12_constant_index_encodable_refuted :
  exists ops out,
    create_constant_blocks no_hash no_sig ops = Some out /\
    input_ok id_sigma [] ops /\
    exists i k, In (COp i) out /\ i_op i = O_intc /\ long_index i = Some k /\ (255 < k)%N.
Proof. exact constant_index_encodable_refuted. Qed.
Print Assumptions C12_constant_index_encodable_refuted.

(* [F] the positive part: a long-form index is always below the size of the emitted block, so indices
   are encodable whenever the blocks have at most 256 entries. *)
Theorem C12_constant_index_below_block_size :
  forall addr_hash sig_hash sigma msel ops out,
    msel_consistent sig_hash msel ->
    create_constant_blocks addr_hash sig_hash ops = Some out ->
    input_ok sigma msel ops ->
    exists pro body ib bb,
      out = (pro ++ body)%list /\ blocks_after sigma msel pro [] [] = Some (ib, bb) /\
      Forall2 (fun c c' =>
        match c with
        | COp i => is_const_instr i = true ->
            forall i' p' k, c' = COp i' -> parsed_of sigma msel i' = Some p' -> p_imms p' = [IInt k] ->
              (p_op p' = O_intc -> (N.to_nat k < List.length ib)%nat) /\
              (p_op p' = O_bytec -> (N.to_nat k < List.length bb)%nat)
        | _ => True
        end) ops body.
Proof. exact constant_index_below_block_size. Qed.
Print Assumptions C12_constant_index_below_block_size.

(* [R] an `addr TMPL_x` site does not keep its meaning: instantiated with an address, the pseudo-op form
   denotes the public key, the rewritten site (pushbytes TMPL_x) does not assemble. *)
Theorem C12_addr_template_context_refuted :
  exists sigma ops out i i' v,
    create_constant_blocks no_hash no_sig ops = Some out /\
    ops = [COp i] /\ out = [COp i'] /\
    denote sigma [] i = Some v /\
    parsed_of sigma [] i' = None.
Proof. exact addr_template_context_refuted. Qed.
Print Assumptions C12_addr_template_context_refuted.

(* [F] int / byte templates keep their spelling (and, by the main theorem for every sigma, their value);
   named enum constants keep their value. *)
Theorem C12_template_spelling_kept :
  forall s, is_tmpl_name s = true ->
    extract_int [AStr s] = Some (KTmpl s) /\ int_key_arg (KTmpl s) = AStr s /\
    extract_bytes [AStr s] = Some (KTmpl s) /\ bytes_key_arg (KTmpl s) = AStr s.
Proof. exact template_spelling_kept. Qed.
Print Assumptions C12_template_spelling_kept.
