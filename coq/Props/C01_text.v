(* Props/C01_text.v — property C01 (compiled TEAL computes what the PyTeal expression denotes), STAGE E:
   from the flattened, slot-assigned instruction list of a routine to the TEXT PyTeal prints, to the program the
   AVM's assembler reads from that text, to the verdict of AVM/Machine.run.

     1. MACHINE BRIDGE    [link]: the assembler's own label resolution ([build_prog]) applied to the list;
                          Machine.step on the linked program simulates LinearSem.lstep on the list step for step;
                          halting configurations of the list correspond to verdicts of Machine.run.
     2. TEXT ROUND TRIP   for every list in the syntactic class [printable]: parsing the assembled text gives back
                          exactly the statements of the list (comments dropped, pragma recognised, literals with
                          their values); hence parse_program (text) = link (list).
     3. COMPOSITION       under the hypotheses of C01_routine_end_to_end_assigned: the text of the routine parses
                          to a program on which Machine.run returns the verdict the source semantics denotes; and
                          the same for the lines [compile_model] returns for a main-only program.

   Property theorems only; proofs in Proofs/StageE*.v. *)
From Coq Require Import List Arith NArith ZArith String Bool.
From PV Require Import Base.Bytes Base.Sexp AVM.Syntax AVM.Ops AVM.Machine AVM.Parse Src.Expr Src.Denote
  Comp.Blocks Comp.Lower Comp.Passes Comp.GraphSem Comp.LinearSem Comp.SimCheck Comp.Compile Comp.Assemble
  Lit.Escape Lit.BaseN Lit.Spec
  Proofs.LowerFrame Proofs.LowerCorrect Proofs.LowerShape Proofs.NormalizeLowered Proofs.FlattenCorrect Proofs.SortCorrect
  Proofs.EndToEndGlue Proofs.EndToEnd
  Proofs.SlotCompose Proofs.SlotComposeAssign Proofs.SlotComposeEnd Proofs.SlotComposeCover Proofs.SlotComposeFinal
  Proofs.StageELink Proofs.StageEText Proofs.StageECompose Proofs.StageEFlatten Proofs.StageEPipeline
  Proofs.StageELiterals Proofs.StageEExamples.
Import ListNotations.

(* ---------------------------------------------------------------------------------------------- *)
(* 1. the machine bridge                                                                            *)
(* ---------------------------------------------------------------------------------------------- *)

(* [link msel code] = build_prog (the assembler's label resolution, AVM/Parse.v) on the statements of the list.
   Its instructions are the real instructions of the list in order (comment ops, labels, pragmas dropped); a
   label resolves to [mpc code p] = the number of real instructions before the label's list position p. *)
Theorem C01_link_spec :
  forall (msel : list (string * bytes)) (code : list comp) (P : program),
    link msel code = Some P ->
    pr_code P = pinstrs msel code /\
    forall l, label_pc P l = option_map (mpc code) (find_label l code).
Proof. exact link_spec. Qed.
Print Assumptions C01_link_spec.

(* linking succeeds when every argument assembles and the labels are pairwise different (the assembler rejects
   a duplicate label) *)
Theorem C01_link_total :
  forall (msel : list (string * bytes)) (code : list comp) (ss : list stmt),
    stmts_of msel code = Some ss -> NoDup (labels_of code) -> exists P, link msel code = Some P.
Proof. exact link_total. Qed.
Print Assumptions C01_link_total.

(* STEP FOR STEP.  [rel code pc stk st m]: machine pc = number of real instructions before list position pc,
   same operand stack, same machine state, empty call stack.  Hypotheses: the list links; every branch target
   is defined ([targets_ok], decidable); the operand stack is within the AVM's limit of 1000.
   Covered: every instruction LinearSem gives a meaning to — all non-control opcodes through the shared
   [exec_op] (success / failure), err, return, retsub (main routine: empty call stack, the machine fails),
   b / bz / bnz taken and not taken, running off the end, comment ops / labels / pragmas (the machine does not
   move).  Not covered: steps LinearSem itself reports as outside its fragment ([LUnsup]: callsub, proto,
   frame_dig/bury, constant blocks, switch/match, operations exec_op does not model). *)
Theorem C01_machine_simulates_list :
  forall (env : denv) (code : list comp) (P : program),
    link (e_msel env) code = Some P -> targets_ok code = true ->
    forall pc stk st m c', rel code pc stk st m -> List.length stk <= STACK_MAX ->
      lstep env code (LAt pc stk st) = Some c' ->
      match c' with
      | LAt pc' stk' st' =>
          (exists m', step (e_ctx env) P m = Running m' /\ rel code pc' stk' st' m') \/
          (rel code pc' stk' st' m /\ exists c, nth_error code pc = Some c /\ real c = false)
      | LUnsup _ => True
      | h => exists v, verdict_of h = Some v /\ step (e_ctx env) P m = Done v m /\ final_ok h m
      end.
Proof. exact machine_simulates_list. Qed.
Print Assumptions C01_machine_simulates_list.

(* RUNS.  A halting configuration of the list reached from a related pair gives the verdict of Machine.run for
   every sufficiently large fuel:  LExit (VI n) -> approve iff n <> 0, reject iff n = 0;  LExit (VB _), LFail,
   LRet -> fail;  LEnd stk -> approve/reject by the single uint64 left, fail otherwise ([verdict_of]); and the
   machine at the verdict carries the same state / stack ([final_ok]).
   [stack_bounded]: every configuration on the run has at most 1000 stack entries. *)
Theorem C01_machine_bridge :
  forall (env : denv) (code : list comp) (P : program),
    link (e_msel env) code = Some P -> targets_ok code = true ->
    forall c0 h, lstar env code c0 h ->
    forall pc stk st m v, c0 = LAt pc stk st -> rel code pc stk st m ->
      verdict_of h = Some v -> stack_bounded env code c0 ->
      exists n m', (forall k, n <= k -> run k (e_ctx env) P m = (v, m')) /\ final_ok h m'.
Proof. exact machine_bridge. Qed.
Print Assumptions C01_machine_bridge.

Theorem C01_machine_bridge_init :
  forall (env : denv) (code : list comp) (P : program),
    link (e_msel env) code = Some P -> targets_ok code = true ->
    forall st h v, lstar env code (LAt 0 [] st) h -> verdict_of h = Some v ->
      stack_bounded env code (LAt 0 [] st) ->
      exists n m', (forall k, n <= k -> run k (e_ctx env) P (init_mach st) = (v, m')) /\ final_ok h m'.
Proof. exact machine_bridge_init. Qed.
Print Assumptions C01_machine_bridge_init.

(* what the verdicts are *)
Theorem C01_verdict_of_spec :
  (forall n st, verdict_of (LExit (VI n) st) = Some (if (n =? 0)%N then VReject else VApprove)) /\
  (forall b st, verdict_of (LExit (VB b) st) = Some VFail) /\
  verdict_of LFail = Some VFail /\
  (forall s st, verdict_of (LRet s st) = Some VFail) /\
  (forall n st, verdict_of (LEnd [VI n] st) = Some (if (n =? 0)%N then VReject else VApprove)) /\
  (forall o, verdict_of (LUnsup o) = None).
Proof. repeat split. Qed.
Print Assumptions C01_verdict_of_spec.

(* both side conditions are necessary: an undefined target of a branch that is never taken; a run that exceeds
   the stack limit and then returns 1 *)
Theorem C01_bridge_needs_targets :
  exists P, link [] nt_code = Some P /\ targets_ok nt_code = false /\
    lstar tx_env nt_code (LAt 0 [] ex_st) (LExit (VI 1) ex_st) /\
    stack_bounded tx_env nt_code (LAt 0 [] ex_st) /\
    fst (run 100 ex_ctx P (init_mach ex_st)) = VFail.
Proof. exact bridge_needs_targets. Qed.
Print Assumptions C01_bridge_needs_targets.

Theorem C01_bridge_needs_stack_bound :
  exists P, link [] deep_code = Some P /\ targets_ok deep_code = true /\
    (exists st', lstar tx_env deep_code (LAt 0 [] ex_st) (LExit (VI 1) st')) /\
    fst (run (N.to_nat 20000) ex_ctx P (init_mach ex_st)) = VFail.
Proof. exact bridge_needs_stack_bound. Qed.
Print Assumptions C01_bridge_needs_stack_bound.

(* the code flattenBlocks emits: labels pairwise different; label-closed when no block BODY contains a branch
   instruction (the branches flattenBlocks adds target labels it emits); prefixing + pragma keep both *)
Theorem C01_flatten_labels_distinct :
  forall g blocks code, flatten_blocks g blocks = Some code -> NoDup (labels_of code).
Proof. exact flatten_labels_nodup. Qed.
Print Assumptions C01_flatten_labels_distinct.

Theorem C01_flatten_label_closed :
  forall g blocks code version,
    flatten_blocks g blocks = Some code ->
    (forall b ins, In b blocks -> In ins (get_ops g b) -> jump_of ins = None) ->
    targets_ok code = true /\ targets_ok (main_comps version code) = true.
Proof.
  intros g blocks code version F NJ. pose proof (flatten_targets_ok g blocks code F NJ) as T.
  split; [exact T|exact (main_comps_targets version code T)].
Qed.
Print Assumptions C01_flatten_label_closed.

(* flattenSubroutines' label prefix does not change the step function *)
Theorem C01_label_prefix_invisible :
  forall (env : denv) (pre : string) (code : list comp),
    (forall i, In (COp i) code -> lbl_regular i = true) ->
    forall c, lstep env (map (prefix_labels pre) code) c = lstep env code c.
Proof. exact lstep_prefix. Qed.
Print Assumptions C01_label_prefix_invisible.

(* ---------------------------------------------------------------------------------------------- *)
(* 2. the text round trip                                                                           *)
(* ---------------------------------------------------------------------------------------------- *)

(* one printable instruction: its line has no line feed and reads back as the instruction's statement(s) *)
Theorem C01_instr_line :
  forall (msel : list (string * bytes)) (i : instr), printable_instr msel i = true ->
    exists line, assemble_instr i = Some line /\ C18Text.no_nl (list_ascii_of_string line) /\
    exists ss, stmt_of msel (COp i) = Some ss /\ line_stmts msel line = Some ss.
Proof. exact instr_line. Qed.
Print Assumptions C01_instr_line.

(* the table facts behind it: all 190 op names are single words that read back as their opcode *)
Theorem C01_opc_names_read_back :
  forall o, is_comment o = false -> word (opc_name o) = true /\ parse_opc (opc_name o) = Some o.
Proof. intros o H. split; [exact (opc_name_word o H)|exact (opc_name_reads_back o H)]. Qed.
Print Assumptions C01_opc_names_read_back.

(* THE ROUND TRIP: for every printable list, the statements the assembler reads from the program text
   (lines joined by line feeds) are exactly the statements of the list *)
Theorem C01_text_roundtrip :
  forall (msel : list (string * bytes)) (code : list comp) (lines : list string),
    printable msel code = true -> code <> [] -> assemble_all code = Some lines ->
    exists ss, stmts_of msel code = Some ss /\ statements_of_text msel (program_text lines) = Some ss.
Proof. exact text_roundtrip. Qed.
Print Assumptions C01_text_roundtrip.

(* ... so the assembler's program for the text is the linked program of the list *)
Theorem C01_text_links :
  forall (msel : list (string * bytes)) (code : list comp) (lines : list string),
    printable msel code = true -> code <> [] -> assemble_all code = Some lines ->
    parse_program msel (program_text lines) = link msel code.
Proof. exact text_links. Qed.
Print Assumptions C01_text_links.

Theorem C01_printable_assembles :
  forall msel code, printable msel code = true -> exists lines, assemble_all code = Some lines.
Proof. exact printable_assembles. Qed.
Print Assumptions C01_printable_assembles.

(* C13's literal constructors produce printable instructions whose immediate is the specified value *)
Theorem C01_bytes_literal_printable :
  forall (msel : list (string * bytes)) (a : bytes_arg) (s : string),
    bytes_payload a = Some s ->
    printable_instr msel (mkI O_byte [AStr s]) = true /\
    exists b, bytes_value a = Some b /\ imm_of_arg msel O_byte (AStr s) = Some (IBytes b).
Proof. exact bytes_literal_printable. Qed.
Print Assumptions C01_bytes_literal_printable.

Theorem C01_int_literal_printable :
  forall (msel : list (string * bytes)) (z : Z) (n : N),
    int_value z = Some n ->
    printable_instr msel (mkI O_int [AInt n]) = true /\ int_line z = Some ("int " ++ N_to_dec n)%string.
Proof. exact int_literal_printable. Qed.
Print Assumptions C01_int_literal_printable.

(* ---------------------------------------------------------------------------------------------- *)
(* 3. composition                                                                                   *)
(* ---------------------------------------------------------------------------------------------- *)

(* list -> text -> machine for the components of a main routine: [main_comps version code] =
   #pragma version, then code with every label prefixed main_ (what flattenSubroutines does) *)
Theorem C01_main_text_runs :
  forall (msel : list (string * bytes)) (version : N) (code : list comp),
    let comps := main_comps version code in
    NoDup (labels_of code) -> no_pragma code = true ->
    printable msel comps = true -> targets_ok comps = true ->
    exists lines P,
      assemble_all comps = Some lines /\
      parse_program msel (program_text lines) = Some P /\ link msel comps = Some P /\ pr_version P = version /\
      forall env, e_msel env = msel ->
      forall st h v,
        lstar env code (LAt 0 [] st) h -> verdict_of h = Some v ->
        stack_bounded env code (LAt 0 [] st) ->
        exists n m', (forall k, n <= k -> run k (e_ctx env) P (init_mach st) = (v, m')) /\ final_ok h m'.
Proof. exact main_text_runs. Qed.
Print Assumptions C01_main_text_runs.

(* the verdict a source outcome stands for *)
Theorem C01_verdict_of_dout_spec :
  (forall n st, verdict_of_dout (DExit (VI n) st) = Some (if (n =? 0)%N then VReject else VApprove)) /\
  (forall b st, verdict_of_dout (DExit (VB b) st) = Some VFail) /\
  verdict_of_dout DFail = Some VFail /\
  (forall s st, verdict_of_dout (DRet s st) = Some VFail) /\
  (forall s st, verdict_of_dout (DNorm s st) = Some (end_verdict s)) /\
  (forall s st, verdict_of_dout (DEnd s st) = Some (end_verdict s)) /\
  verdict_of_dout DFuel = None /\ (forall o, verdict_of_dout (DUnsup o) = None).
Proof. exact verdict_of_dout_spec. Qed.
Print Assumptions C01_verdict_of_dout_spec.

(* THE STATEMENT.  Hypotheses of C01_routine_end_to_end_assigned for the main routine, plus: the emitted
   components are printable and label-closed (both decidable, on the output), the run stays within the stack
   limit.  Conclusion: the text parses; the pragma is recognised; Machine.run on the parsed program, started
   on the initial machine with the same state, returns — for every sufficiently large fuel — the verdict of the
   source outcome (approve iff DExit (VI n) with n <> 0, reject iff n = 0, fail for DFail / a bytes result),
   in the machine state the source semantics ends in. *)
Theorem C01_routine_text_end_to_end :
  forall (o : copts) (ast0 : expr) (cr : croutine) (p : prog)
         (crs crs' : list croutine) (locals : list (option N * list N)) (asg : list (N * N))
         (msel : list (string * bytes)),
    compile_one o None ast0 = COk cr ->
    head_loop (root_ast ast0) = false ->
    In cr crs ->
    assign_slots p crs = COk (crs', locals, asg) ->
    requested_valid p (all_slots crs) ->
    let cr' := rw_routine (look_of asg) cr in
    forall (order : list id) (code : list comp),
    sort_blocks (cr_graph cr') (cr_start cr') (cr_end cr') = Some order ->
    flatten_blocks (cr_graph cr') order = Some code ->
    let comps := main_comps (o_version o) code in
    printable msel comps = true -> targets_ok comps = true ->
    exists lines P,
      assemble_all comps = Some lines /\
      parse_program msel (program_text lines) = Some P /\ pr_version P = o_version o /\
      forall env, consistent env (routine_ctx o None) -> e_msel env = msel ->
      forall fuel st v,
        let r := denote (with_asg env (look_of asg)) fuel (root_ast ast0) [] st in
        verdict_of_dout r = Some v ->
        stack_bounded env code (LAt 0 [] st) ->
        exists n m', (forall k, n <= k -> run k (e_ctx env) P (init_mach st) = (v, m')) /\ state_ok r m'.
Proof. exact routine_text_end_to_end. Qed.
Print Assumptions C01_routine_text_end_to_end.

(* what compile_model prints for a main-only program with the slot optimiser off *)
Theorem C01_compile_model_main_only :
  forall (o : copts) (modes : opc -> bool * bool) (p : prog) (lines : list string),
    compile_model o modes p = COk lines -> o_opt_slots o = false -> p_subs p = [] ->
    exists cr crs' locals asg order code,
      compile_one o None (p_main p) = COk cr /\
      assign_slots p [cr] = COk (crs', locals, asg) /\
      let cr' := rw_routine (look_of asg) cr in
      sort_blocks (cr_graph cr') (cr_start cr') (cr_end cr') = Some order /\
      flatten_blocks (cr_graph cr') order = Some code /\
      assemble_all (main_comps (o_version o) code) = Some lines.
Proof. exact compile_model_main_only. Qed.
Print Assumptions C01_compile_model_main_only.

(* ... and the statement for the pipeline function itself: the LINES compile_model returns, joined by line
   feeds, parse to a program whose run gives the verdict the source semantics of p_main denotes under the
   pipeline's slot assignment [model_assignment o p] *)
Theorem C01_program_text_end_to_end :
  forall (o : copts) (modes : opc -> bool * bool) (p : prog) (lines : list string) (msel : list (string * bytes)),
    compile_model o modes p = COk lines -> o_opt_slots o = false -> p_subs p = [] ->
    head_loop (root_ast (p_main p)) = false ->
    (forall u i, In (u, (i, true)) (p_slots p) -> (i < 256)%N) ->
    exists asg code,
      model_assignment o p = COk asg /\
      assemble_all (main_comps (o_version o) code) = Some lines /\
      (printable msel (main_comps (o_version o) code) = true ->
       targets_ok (main_comps (o_version o) code) = true ->
       exists P,
         parse_program msel (program_text lines) = Some P /\ pr_version P = o_version o /\
         forall env, consistent env (routine_ctx o None) -> e_msel env = msel ->
         forall fuel st v,
           let r := denote (with_asg env (look_of asg)) fuel (root_ast (p_main p)) [] st in
           verdict_of_dout r = Some v ->
           stack_bounded env code (LAt 0 [] st) ->
           exists n m', (forall k, n <= k -> run k (e_ctx env) P (init_mach st) = (v, m')) /\ state_ok r m').
Proof. exact program_text_end_to_end. Qed.
Print Assumptions C01_program_text_end_to_end.

(* ---------------------------------------------------------------------------------------------- *)
(* 4. non-vacuity                                                                                   *)
(* ---------------------------------------------------------------------------------------------- *)

(* a main routine with a loop and the literal Bytes('a;b // "q"\n'): the lines are those the real compiler
   prints (checked on /repo, version 6, scratch-slot optimiser off) *)
Example C01_text_example_lines :
  tx_lines =
  [ "#pragma version 6"; "int 0"; "store 7"; "int 0"; "store 0"; "main_l1:"; "load 0"; "int 3"; "<"; "bz main_l3";
    "load 7"; "byte ""a;b // \""q\""\n"""; "len"; "+"; "store 7"; "load 0"; "int 1"; "+"; "store 0"; "b main_l1";
    "main_l3:"; "load 7"; "int 33"; "=="; "return" ]%string.
Proof. exact tx_text_lines. Qed.

(* every hypothesis of C01_routine_text_end_to_end holds; the text parses to 22 instructions, the tenth pushes the
   11 bytes of the literal; the source outcome is DExit 1; the theorem's conclusion (approve, in the source's
   final state) agrees with running the machine *)
Example C01_text_example :
  compile_one opts0 None tx_ast = COk tx_cr /\
  head_loop (root_ast tx_ast) = false /\
  printable [] tx_comps = true /\ targets_ok tx_comps = true /\
  parse_program [] tx_text = Some tx_P /\ pr_version tx_P = 6%N /\
  List.length (pr_code tx_P) = 22 /\
  nth_error (pr_code tx_P) 9 =
    Some (mkP O_byte [IBytes (list_ascii_of_string "a;b // ""q""" ++ [Ascii.ascii_of_N 10])%list]) /\
  (exists st', denote (with_asg tx_env (look_of tx_asg)) 100 (root_ast tx_ast) [] ex_st = DExit (VI 1) st' /\
     exists n m', (forall k, n <= k -> run k ex_ctx tx_P (init_mach ex_st) = (VApprove, m')) /\ m_st m' = st') /\
  fst (run 1000 ex_ctx tx_P (init_mach ex_st)) = VApprove.
Proof. exact routine_text_end_to_end_example. Qed.
Print Assumptions C01_text_example.

(* the line shapes of real PyTeal output (verbatim compileTeal output on /repo, version 8: comment, txn / global /
   txna / gtxn fields, named integers, addr, method, byte in base64 / base16 / base32 / raw / string form, ops with
   two immediates, op names with a slash or a bar, itxn_field, asset_params_get, base64_decode, json_ref, gload,
   2^64-1) are in the printable class: the component list assembles to exactly these lines and the text parses to
   the linked program *)
Example C01_real_line_shapes_printable :
  assemble_all shapes_comps = Some shapes_lines /\
  printable shapes_msel shapes_comps = true /\
  (exists P, parse_program shapes_msel (program_text shapes_lines) = Some P /\
             link shapes_msel shapes_comps = Some P /\ List.length (pr_code P) = 76).
Proof. exact real_line_shapes_printable. Qed.

(* a two-routine text with a subroutine header whose name contains a line feed (verbatim compileTeal output) *)
Example C01_subroutine_header_roundtrip :
  printable [] two_comps = true /\
  (exists lines, assemble_all two_comps = Some lines /\
     program_text lines =
       ("#pragma version 6" ++ nl ++ "int 5" ++ nl ++ "callsub fooint0_0" ++ nl ++ "return" ++ nl ++
        nl ++ "// foo" ++ nl ++ "// int 0" ++ nl ++ "fooint0_0:" ++ nl ++ "store 0" ++ nl ++ "load 0" ++ nl ++
        "int 2" ++ nl ++ "*" ++ nl ++ "retsub")%string /\
     parse_program [] (program_text lines) = link [] two_comps) /\
  (exists P, link [] two_comps = Some P /\ List.length (pr_code P) = 8 /\ label_pc P "fooint0_0" = Some 3 /\
             fst (run 100 ex_ctx P (init_mach ex_st)) = VApprove).
Proof. exact subroutine_header_roundtrip. Qed.
