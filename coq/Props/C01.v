(* Props/C01.v — compiled TEAL computes what the PyTeal expression denotes.
   Property theorems only; proofs live in Proofs/. *)
From Coq Require Import List NArith.
From PV Require Import Base.Bytes AVM.Syntax AVM.Machine Src.Expr Src.Denote
  Comp.Blocks Comp.Lower Comp.GraphSem Proofs.LowerFrame Proofs.LowerLemmas Proofs.LowerCorrect.
Import ListNotations.

(* Stage A — lowering.  For every recipe e (no bound on nesting), every compile options o, every
   lowering context c consistent with the evaluator's notion of "inside a subroutine", every
   continuation k and every well-formed graph g: in every graph G that contains the lowered
   fragment, from the fragment's start block with ANY operand stack and machine state, the block
   graph reaches exactly the configuration the source semantics prescribes:
     normal completion  -> the continuation k with the resulting stack/state,
     Break / Continue   -> the loop exit / the loop's continue target,
     Return / Exit      -> the retsub / return op with the value,
     failure            -> failure,
   for every fuel at which the evaluator does not run out of fuel.  This is where operand order
   (left to right, once), branch polarity, loop back-edges, Continue targets, the v2 assert
   expansion, Cond's fall-through to err and the reversed multi-value stores live. *)
Theorem C01_lower_correct :
  forall (env : denv) (o : copts) (fuel : nat) (c : lctx) (e : expr),
    consistent env c ->
    forall (k : option id) (g : graph) (s en : id) (g' : graph),
      wf g -> lower o c e k g = ((s, en), g') ->
      forall G : bgraph, gincl (g_blk g') G ->
      forall (stk : list value) (st : mstate),
        tgt env G (GAt s stk st) k c (denote env fuel e stk st).
Proof. exact lower_correct. Qed.
Print Assumptions C01_lower_correct.

(* the graph only grows while lowering: blocks present before a lowering step are untouched *)
Theorem C01_lower_frame :
  forall (o : copts) (e : expr) (c : lctx) (k : option id) (g : graph) r (g' : graph),
    wf g -> lower o c e k g = (r, g') -> frame g g'.
Proof. intros o e c. exact (lower_frame o e c). Qed.
Print Assumptions C01_lower_frame.
