(* Props/C16_general.v — WideRatio is exact or fails, never wraps: ARBITRARY factor expressions.
   Property theorems only; proofs live in Proofs/WideRatioGeneral*.v.

   Props/C16.v proves the property for CONSTANT factors on the op list WideRatio emits.  Here the
   factors are any expressions of the recipe language (run-time reads, arithmetic, compound code,
   expressions with effects), under the source semantics [denote] (Src/Denote.v), whose reading of
   [EWide ns ds] is operational: factors left to right, interleaved with the glue ops of
   pyteal/ast/widemath.py; and, composed with [C01_lower_correct], for the block graph the lowering emits.

   Vocabulary ([C16_eval_factors_*] / [C16_ran_factors_*] below spell it out):
     eval_factors env fuel es st vs st'      the factors es, in order from state st, each terminate normally
                                             having pushed exactly one value VI v (v < 2^64) on top of ANY
                                             stack below (the running product sits there); vs = the values,
                                             st' = the state after the last one (effects threaded in order);
     ran_factors env fuel stk es st vs st'   the same for ONE run: each factor did so on some stack that
                                             extends stk;
     uint_valued env e                       e is uint64-valued: whenever it terminates normally from a
                                             stack s it leaves VI v :: s with v < 2^64 (stack and type
                                             discipline of a uint64 expression, property C05/C20). *)
From Coq Require Import List NArith Bool.
From PV Require Import Base.Bytes Base.U64 AVM.Syntax AVM.Ops AVM.Machine Src.Expr Src.Denote
  Comp.Blocks Comp.WideRatio Comp.Lower Comp.GraphSem
  Proofs.LowerFrame Proofs.LowerLemmas Proofs.LowerCorrect
  Proofs.WideRatioProof Proofs.WideRatioGeneralOps Proofs.WideRatioGeneral Proofs.WideRatioGeneralGraph
  Proofs.WideRatioGeneralExamples.
Import ListNotations.
Local Open Scope N_scope.

(* If all factors evaluate, WideRatio yields exactly wide_ratio_spec of their values — i.e.
   floor(prod nvals / prod dvals) when every left-to-right running product is below 2^128, the
   denominator product is non-zero and the quotient is below 2^64 (C16_spec_meaning) — on top of the
   stack it started with and in the state the factors left; in every other case it FAILS. *)
Theorem C16_wide_ratio_general :
  forall (env : denv) (f : nat) (ns ds : list expr) (nvals dvals : list N)
         (stk : list value) (st stm st' : mstate),
    ns <> [] -> ds <> [] ->
    eval_factors env f ns st nvals stm ->
    eval_factors env f ds stm dvals st' ->
    denote env (S f) (EWide ns ds) stk st =
    match wide_ratio_spec nvals dvals with
    | Some q => DNorm (VI q :: stk) st'
    | None => DFail
    end.
Proof. exact wide_ratio_general. Qed.
Print Assumptions C16_wide_ratio_general.

(* For uint64-valued factors, EVERY normal outcome of a WideRatio, at every fuel, from every stack and
   state, is the exact quotient of values its factors evaluated to in that run: the running products
   were below 2^128, the divisor non-zero, the quotient below 2^64.  No wrapped or truncated number. *)
Theorem C16_wide_ratio_never_wraps :
  forall (env : denv) (fuel : nat) (ns ds : list expr) (stk : list value) (st : mstate)
         (s' : list value) (st' : mstate),
    ns <> [] -> ds <> [] ->
    Forall (uint_valued env) ns -> Forall (uint_valued env) ds ->
    denote env fuel (EWide ns ds) stk st = DNorm s' st' ->
    exists f nvals dvals stm,
      fuel = S f /\
      ran_factors env f stk ns st nvals stm /\
      ran_factors env f stk ds stm dvals st' /\
      running_ok 1 nvals = true /\ running_ok 1 dvals = true /\
      prod dvals <> 0 /\ prod nvals / prod dvals < U64 /\
      s' = VI (prod nvals / prod dvals) :: stk.
Proof. exact wide_ratio_never_wraps. Qed.
Print Assumptions C16_wide_ratio_never_wraps.

(* Complement 1 (no hypothesis on the factors at all): an outcome of a WideRatio that is neither normal
   nor a failure — exit, return, break, continue, out of fuel, outside the modelled fragment — is the
   outcome of one of its factors; the glue ops only ever continue or fail. *)
Theorem C16_wide_ratio_abrupt_origin :
  forall (env : denv) (f : nat) (ns ds : list expr) (stk : list value) (st : mstate) (r : dout),
    denote env (S f) (EWide ns ds) stk st = r -> notnorm r -> r <> DFail ->
    exists e s st1, In e (ns ++ ds) /\ denote env f e s st1 = r.
Proof. exact wide_ratio_abrupt_origin. Qed.
Print Assumptions C16_wide_ratio_abrupt_origin.

(* Complement 2: a numerator factor e that does not terminate normally (fails, exits, returns, ...: its
   outcome r may mention the stack it ran on), the factors before it having evaluated to vals: the
   WideRatio has the outcome of e — or has already failed on an overflowing running product. *)
Theorem C16_wide_ratio_abrupt_num :
  forall (env : denv) (f : nat) (pre : list expr) (e : expr) (post ds : list expr)
         (stk : list value) (st : mstate) (vals : list N) (st1 : mstate) (r : list value -> dout),
    eval_factors env f pre st vals st1 ->
    (forall s, denote env f e s st1 = r s) -> (forall s, notnorm (r s)) ->
    exists acc,
      denote env (S f) (EWide (pre ++ e :: post) ds) stk st =
      if running_ok 1 vals then r (acc ++ stk) else DFail.
Proof. exact wide_ratio_abrupt_num. Qed.
Print Assumptions C16_wide_ratio_abrupt_num.

(* ... and the same for a denominator factor, all numerator factors having evaluated *)
Theorem C16_wide_ratio_abrupt_den :
  forall (env : denv) (f : nat) (ns pre : list expr) (e : expr) (post : list expr)
         (stk : list value) (st : mstate) (nvals : list N) (stm : mstate) (vals : list N) (st1 : mstate)
         (r : list value -> dout),
    ns <> [] ->
    eval_factors env f ns st nvals stm ->
    eval_factors env f pre stm vals st1 ->
    (forall s, denote env f e s st1 = r s) -> (forall s, notnorm (r s)) ->
    exists acc,
      denote env (S f) (EWide ns (pre ++ e :: post)) stk st =
      if running_ok 1 nvals && running_ok 1 vals then r (acc ++ stk) else DFail.
Proof. exact wide_ratio_abrupt_den. Qed.
Print Assumptions C16_wide_ratio_abrupt_den.

(* The emitted code.  For every compile options o, lowering context c consistent with the evaluator,
   continuation k and well-formed graph g: in every graph G containing the blocks the lowering of
   WideRatio(ns, ds) adds, from the fragment's start block with any stack, the block graph reaches the
   continuation with the exact quotient pushed, or the failure configuration. *)
Theorem C16_wide_ratio_general_graph :
  forall (env : denv) (o : copts) (c : lctx),
    consistent env c ->
    forall (ns ds : list expr) (k : option id) (g : graph) (s en : id) (g' : graph),
      wf g -> lower o c (EWide ns ds) k g = ((s, en), g') ->
      forall G : bgraph, gincl (g_blk g') G ->
      forall (f : nat) (nvals dvals : list N) (stk : list value) (st stm st' : mstate),
        ns <> [] -> ds <> [] ->
        eval_factors env f ns st nvals stm ->
        eval_factors env f ds stm dvals st' ->
        star env G (GAt s stk st)
             (match wide_ratio_spec nvals dvals with
              | Some q => cont_conf k (VI q :: stk) st'
              | None => GFail
              end).
Proof. exact wide_ratio_general_graph. Qed.
Print Assumptions C16_wide_ratio_general_graph.

(* The emitted code never wraps: the graph does what the source semantics prescribes (C01), and whenever
   that is a normal completion the graph reaches the continuation with the exact quotient of values the
   factors took in that run. *)
Theorem C16_wide_ratio_graph_never_wraps :
  forall (env : denv) (o : copts) (c : lctx),
    consistent env c ->
    forall (ns ds : list expr) (k : option id) (g : graph) (s en : id) (g' : graph),
      wf g -> lower o c (EWide ns ds) k g = ((s, en), g') ->
      forall G : bgraph, gincl (g_blk g') G ->
      forall (fuel : nat) (stk : list value) (st : mstate),
        ns <> [] -> ds <> [] ->
        Forall (uint_valued env) ns -> Forall (uint_valued env) ds ->
        tgt env G (GAt s stk st) k c (denote env fuel (EWide ns ds) stk st) /\
        forall s' st', denote env fuel (EWide ns ds) stk st = DNorm s' st' ->
          star env G (GAt s stk st) (cont_conf k s' st') /\
          exists f nvals dvals stm,
            fuel = S f /\
            ran_factors env f stk ns st nvals stm /\
            ran_factors env f stk ds stm dvals st' /\
            running_ok 1 nvals = true /\ running_ok 1 dvals = true /\
            prod dvals <> 0 /\ prod nvals / prod dvals < U64 /\
            s' = VI (prod nvals / prod dvals) :: stk.
Proof. exact wide_ratio_graph_never_wraps. Qed.
Print Assumptions C16_wide_ratio_graph_never_wraps.

(* a numerator factor that fails: the emitted code fails *)
Theorem C16_wide_ratio_graph_factor_fails :
  forall (env : denv) (o : copts) (c : lctx),
    consistent env c ->
    forall (ns ds : list expr) (k : option id) (g : graph) (s en : id) (g' : graph),
      wf g -> lower o c (EWide ns ds) k g = ((s, en), g') ->
      forall G : bgraph, gincl (g_blk g') G ->
      forall (f : nat) (pre : list expr) (e : expr) (post : list expr)
             (stk : list value) (st : mstate) (vals : list N) (st1 : mstate),
        ns = pre ++ e :: post ->
        eval_factors env f pre st vals st1 ->
        (forall s0, denote env f e s0 st1 = DFail) ->
        star env G (GAt s stk st) GFail.
Proof. exact wide_ratio_graph_factor_fails. Qed.
Print Assumptions C16_wide_ratio_graph_factor_fails.

(* ---------------- the vocabulary, spelled out ---------------- *)
Theorem C16_eval_factors_nil :
  forall env fuel st vs st', eval_factors env fuel [] st vs st' <-> vs = [] /\ st' = st.
Proof. exact eval_factors_nil_iff. Qed.
Print Assumptions C16_eval_factors_nil.

Theorem C16_eval_factors_cons :
  forall env fuel e es st vs st',
    eval_factors env fuel (e :: es) st vs st' <->
    exists v st1 vs', vs = v :: vs' /\ v < U64 /\
      (forall s, denote env fuel e s st = DNorm (VI v :: s) st1) /\
      eval_factors env fuel es st1 vs' st'.
Proof. exact eval_factors_cons_iff. Qed.
Print Assumptions C16_eval_factors_cons.

Theorem C16_ran_factors_nil :
  forall env fuel base st vs st', ran_factors env fuel base [] st vs st' <-> vs = [] /\ st' = st.
Proof. exact ran_factors_nil_iff. Qed.
Print Assumptions C16_ran_factors_nil.

Theorem C16_ran_factors_cons :
  forall env fuel base e es st vs st',
    ran_factors env fuel base (e :: es) st vs st' <->
    exists v st1 vs', vs = v :: vs' /\ v < U64 /\
      (exists acc, denote env fuel e (acc ++ base) st = DNorm (VI v :: acc ++ base) st1) /\
      ran_factors env fuel base es st1 vs' st'.
Proof. exact ran_factors_cons_iff. Qed.
Print Assumptions C16_ran_factors_cons.

Theorem C16_uint_valued_meaning :
  forall env e, uint_valued env e <->
    forall fuel s st s' st', denote env fuel e s st = DNorm s' st' -> exists v, v < U64 /\ s' = VI v :: s.
Proof. intros env e. split; intros H; exact H. Qed.
Print Assumptions C16_uint_valued_meaning.

(* the two readings agree: factors that evaluate on every stack ran with exactly those values *)
Theorem C16_eval_ran_agree :
  forall env fuel base es st vs st' vs2 st2,
    eval_factors env fuel es st vs st' -> ran_factors env fuel base es st vs2 st2 -> vs2 = vs /\ st2 = st'.
Proof. exact eval_ran_agree. Qed.
Print Assumptions C16_eval_ran_agree.

(* constants, sums and products are uint64-valued in every environment; constant factors satisfy the
   hypothesis of the general theorem (so Props/C16.v is an instance) *)
Theorem C16_uint_valued_class :
  forall env,
    (forall n, uint_valued env (x_int n)) /\
    (forall o t a1 rest, sum_or_product o = true ->
       uint_valued env a1 -> Forall (uint_valued env) rest -> uint_valued env (ENary o t (a1 :: rest))) /\
    (forall f vs st, Forall (fun c => c < U64) vs -> eval_factors env (S f) (map x_int vs) st vs st).
Proof.
  intros env. split; [exact (uint_valued_int env)|split].
  - exact (uint_valued_nary env).
  - exact (eval_factors_consts env).
Qed.
Print Assumptions C16_uint_valued_class.

(* ---------------- non-vacuity (hypotheses satisfiable; computed) ---------------- *)
(* WideRatio([Int 10, Int 20, Int 3 + Int 4], [Int 7]) = 200: compound third factor *)
Example C16_general_compound_example :
  denote wx_env 3 wx_compound [] wx_st = DNorm [VI 200] wx_st.
Proof. exact wide_ratio_general_compound. Qed.

(* WideRatio([Int 2^63, Int 4, Txn.fee], [Int 2^40, Int 1000]) = 2^25 with fee = 1000: run-time third factor,
   the numerator 2^65 * 1000 needs the high word *)
Example C16_general_runtime_example :
  denote wx_env 2 wx_runtime [VI 5] wx_st = DNorm [VI 33554432; VI 5] wx_st.
Proof. exact wide_ratio_general_runtime. Qed.

(* a factor that fails (Int 1 / Int 0), a factor that exits *)
Example C16_general_factor_fails_example :
  denote wx_env 3 (EWide [x_int 10; x_int 20; x_div0] [x_int 7]) [] wx_st = DFail.
Proof. exact wide_ratio_factor_fails. Qed.

Example C16_general_factor_exits_example :
  denote wx_env 4 (EWide [x_int 10; x_int 20] [x_int 3; x_exit]) [] wx_st = DExit (VI 1) wx_st.
Proof. exact wide_ratio_factor_exits. Qed.

(* the lowered graph of the compound example reaches the end with 200 *)
Example C16_general_graph_example :
  star wx_env (g_blk (snd wx_lowered)) (GAt (fst (fst wx_lowered)) [] wx_st) (GEnd [VI 200] wx_st).
Proof. exact wide_ratio_general_graph_compound. Qed.
