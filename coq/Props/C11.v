(* Props/C11.v — compilation is deterministic and independent of process history.  PARTIAL.

   What is proved (about the models in Hist/): the process-global state is two counters and a marker;
   every API call only shifts the counters upwards (a probe and the router's cleaning context rewind the
   slot counter exactly), so everything a program is handed by the counters after any history is a
   strictly monotone renumbering of what it is handed in a fresh process — PROVIDED the marker
   SubroutineEval._current_proto is clear; the three places of the compiler that look at ids only sort
   by them, and their results are invariant under strictly monotone renumbering.  The marker is clear
   after every call when _frame_pointer_context restores it in a finally clause (Fixed); for the code
   as it is (Faithful) that is REFUTED: an exception escaping a subroutine body evaluated with frame
   pointers leaves it set, and an unrelated program then compiles differently.

   What is missing for the full statement (hence _partial):
   * the remaining stages (lowering, flattening, text emission) are not modelled here: the theorem speaks
     of slot numbers, label indices and compile order, not of TEAL text;
   * PYTHONHASHSEED, set iteration order and object addresses do not exist in the model: Python sets are
     lists, which is harmless when ids are pairwise distinct (C11_assign_set_order_irrelevant) and is
     exactly what the implementation side of the check (harness/c11.py) tests with separate interpreter
     processes under several hash seeds;
   * objects shared with the history (a subroutine compiled earlier, a declaration cached by
     ReturnedValue.store_into) are outside the statement — see design_notes/C11.md for the finding
     about store_into. *)
From Coq Require Import NArith List Bool Permutation.
From PV Require Import Hist.Events Hist.Assign Hist.Session
  Proofs.HistoryEvents Proofs.HistoryAssign Proofs.HistoryCompose Proofs.HistorySession.
Import ListNotations.
Local Open Scope N_scope.

(* ---- only the relative order of ids is used ---- *)

(* slot numbering (scratchslots.py:149): renumbering the automatic ids by any strictly monotone f gives
   every slot object the same number (and the same failure, if any); for all inputs, reserved ids
   interleaved in any way *)
Theorem C11_assign_rename_invariant :
  forall (f : N -> N) (all : list slotobj), strictly_monotone f ->
    same_failure (assign_slots (map (rename_slot f) all)) (assign_slots all) /\
    (forall o k, assigned (assign_slots all) o k <->
                 assigned (assign_slots (map (rename_slot f) all)) (rename_slot f o) k) /\
    (forall o' k, assigned (assign_slots (map (rename_slot f) all)) o' k ->
                  exists o, In o all /\ o' = rename_slot f o).
Proof. exact assign_rename_invariant_proof. Qed.
Print Assumptions C11_assign_rename_invariant.

(* the iteration order of the set of slots is irrelevant when ids are pairwise distinct *)
Theorem C11_assign_set_order_irrelevant :
  forall all all' : list slotobj, Permutation all all' -> NoDup (map so_id all) ->
    match assign_slots all, assign_slots all' with
    | AssignOk m, AssignOk m' => m = m'
    | AssignTooMany a, AssignTooMany b => a = b
    | _, _ => False
    end.
Proof. exact assign_set_order_irrelevant_proof. Qed.
Print Assumptions C11_assign_set_order_irrelevant.

(* ... and it is NOT when two slot objects share an id *)
Theorem C11_assign_tie_order_dependent :
  exists (all all' : list slotobj) (o : slotobj) (k : N),
    Permutation all all' /\ assigned (assign_slots all) o k /\ ~ assigned (assign_slots all') o k.
Proof. exact assign_tie_order_dependent_proof. Qed.
Print Assumptions C11_assign_tie_order_dependent.

(* label indices (subroutines.py:279) *)
Theorem C11_resolve_rename_invariant :
  forall (f : N -> N) (subs : list subobj), strictly_monotone f ->
    resolve (map (rename_sub f) subs) = map (fun p => (rename_sub f (fst p), snd p)) (resolve subs).
Proof. exact resolve_rename_invariant_proof. Qed.
Print Assumptions C11_resolve_rename_invariant.

(* compile order (compiler.py:224) *)
Theorem C11_compile_order_rename_invariant :
  forall (f : N -> N) (key : N -> N) (calls : N -> list N), strictly_monotone f ->
    forall fuel cur vis, corder fuel (fun o => f (key o)) calls cur vis = corder fuel key calls cur vis.
Proof. exact corder_rename_proof. Qed.
Print Assumptions C11_compile_order_rename_invariant.

(* ---- every operation only shifts ---- *)

(* counters never decrease, for every event tree, in both semantics, however it ends *)
Theorem C11_counters_monotone :
  forall (m : mode) (es : evs) (g : gst),
    g_slot g <= g_slot (r_st (run_evs m es g)) /\ g_sub g <= g_sub (r_st (run_evs m es g)).
Proof. exact run_evs_monotone. Qed.
Print Assumptions C11_counters_monotone.

Theorem C11_session_counters_monotone :
  forall (m : mode) (st : sstate) (o : op),
    g_slot (s_g st) <= g_slot (s_g (fst (step m st o))) /\ g_sub (s_g st) <= g_sub (s_g (fst (step m st o))).
Proof. exact step_monotone. Qed.
Print Assumptions C11_session_counters_monotone.

(* a probe that returns rewinds the slot counter exactly *)
Theorem C11_probe_rewinds :
  forall (m : mode) (body : evs) (g : gst),
    r_raised (run_ev m (EProbe body) g) = false -> g_slot (r_st (run_ev m (EProbe body) g)) = g_slot g.
Proof. exact probe_rewinds. Qed.
Print Assumptions C11_probe_rewinds.

(* after ANY history that leaves the marker clear, running p hands out the identifiers of a fresh
   process plus one constant per counter (a strictly monotone renumbering) and ends the same way *)
Theorem C11_history_only_shifts :
  forall (m : mode) (h : list evs) (p : evs),
    let g := run_history m h init_gst in
    g_marker g = None ->
    run_evs m p g = shift_res (g_slot g - NUM_SLOTS) (g_sub g) (run_evs m p init_gst).
Proof. exact history_only_shifts_gen. Qed.
Print Assumptions C11_history_only_shifts.

(* ---- the marker ---- *)

(* with try/finally: restored by every event tree, however it ends *)
Theorem C11_marker_restored_fixed :
  forall (es : evs) (g : gst),
    marker_tag (r_st (run_evs Fixed es g)) = marker_tag g /\
    (g_marker g = None -> g_marker (r_st (run_evs Fixed es g)) = None).
Proof. exact marker_restored_fixed_proof. Qed.
Print Assumptions C11_marker_restored_fixed.

Theorem C11_session_marker_restored_fixed :
  forall (ops : list op),
    Forall (fun x => g_marker (fst x) = None) (run_session Fixed init_sstate ops).
Proof. exact session_marker_fixed_init. Qed.
Print Assumptions C11_session_marker_restored_fixed.

(* the code as it is: restored when no exception escapes and none is swallowed on the way *)
Theorem C11_marker_restored_without_exception :
  forall (es : evs) (g : gst), no_catch_s es = true -> r_raised (run_evs Faithful es g) = false ->
    marker_tag (r_st (run_evs Faithful es g)) = marker_tag g.
Proof. exact (proj2 marker_faithful_both). Qed.
Print Assumptions C11_marker_restored_without_exception.

(* REFUTED for the code as it is: define a subroutine whose body raises, compile a call to it at a
   frame-pointer version: the call completes (with the exception) and the marker stays set *)
Theorem C11_marker_restored_refuted :
  exists (ops : list op) (g : gst) (raised : bool),
    last (run_session Faithful init_sstate ops) (init_gst, false) = (g, raised) /\ g_marker g <> None.
Proof. exact marker_restored_refuted_proof. Qed.
Print Assumptions C11_marker_restored_refuted.

(* REFUTED: "objects that stay referenced hold pairwise distinct ids".  Router.compile_program twice (scratch
   convention, two value-returning methods): the id that the first build gave to a slot of a declaration cached by
   store_into is handed out again by the second build (finding store-into-evaluates-and-caches; ties are then
   broken by set order, C11_assign_tie_order_dependent) *)
Theorem C11_router_recompile_reuses_cached_ids :
  exists (ops : list op) (first second : list titem) (i : N),
    nth_error (run_session_tr Faithful init_sstate ops) 2 = Some first /\
    nth_error (run_session_tr Faithful init_sstate ops) 3 = Some second /\
    nth_error first 2 = Some (TSlot i) /\ nth_error second 2 = Some (TSlot i).
Proof. exact router_recompile_reuses_cached_ids_proof. Qed.
Print Assumptions C11_router_recompile_reuses_cached_ids.

(* ---- composition: the id-dependent stages do not see the history ---- *)
Theorem C11_compile_history_independent_partial :
  forall (m : mode) (h : list evs) (p : program),
    let g := run_history m h init_gst in
    g_marker g = None ->
    calls_are_subs p (r_tr (run_evs m (p_events p) init_gst)) ->
    same_view (compile_view m p g) (compile_view m p init_gst).
Proof. exact compile_history_independent_proof. Qed.
Print Assumptions C11_compile_history_independent_partial.

(* unconditional once the marker is restored in a finally clause *)
Theorem C11_compile_history_independent_fixed_partial :
  forall (h : list evs) (p : program),
    calls_are_subs p (r_tr (run_evs Fixed (p_events p) init_gst)) ->
    same_view (compile_view Fixed p (run_history Fixed h init_gst)) (compile_view Fixed p init_gst).
Proof. exact compile_history_independent_fixed_proof. Qed.
Print Assumptions C11_compile_history_independent_fixed_partial.

(* REFUTED for the code as it is: after the history "a subroutine body raised under frame pointers" the
   unrelated program `abi.Uint64()` has a frame variable where a fresh process gives it a scratch slot *)
Theorem C11_compile_history_independent_refuted :
  exists (h : list evs) (p : program),
    calls_are_subs p (r_tr (run_evs Faithful (p_events p) init_gst)) /\
    ~ same_view (compile_view Faithful p (run_history Faithful h init_gst)) (compile_view Faithful p init_gst).
Proof. exact compile_history_independent_refuted_proof. Qed.
Print Assumptions C11_compile_history_independent_refuted.
