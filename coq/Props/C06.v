(* Props/C06.v — ABI values assembled in PyTeal encode exactly per ARC-4.
   Property theorems only; proofs live in Proofs/ABIEncode*.v (and Proofs/ABIDescrProof.v for __str__).
   Model: ABI/Encode.v (what the generated code computes).  Spec: ABI/Spec.v (ARC-4). *)
From Coq Require Import List NArith ZArith Ascii String Bool.
From PV Require Import Base.Bytes Base.U64 AVM.Syntax AVM.Ops ABI.Types ABI.Spec ABI.Descr ABI.Encode
  Proofs.ABIDescrProof Proofs.ABIEncodeOps Proofs.ABIEncodeDescr Proofs.ABIEncodeBool Proofs.ABIEncodeTuple
  Proofs.ABIEncodeLen Proofs.ABIEncodeSet Proofs.ABIEncodeCap Proofs.ABIEncodeCapComplete.
Import ListNotations.
Local Open Scope N_scope.

(* ---------------- descriptors: PyTeal's = the ARC-4 spec's, for every type of any depth ---------------- *)
(* str(type_spec) is the ARC-4 type string *)
Theorem C06_type_str_agrees : forall t, py_str t = type_str t.
Proof. exact py_str_type_str. Qed.
Print Assumptions C06_type_str_agrees.

(* type_spec.is_dynamic() *)
Theorem C06_is_dynamic_agrees : forall t, py_is_dynamic t = is_dynamic t.
Proof. exact py_is_dynamic_agrees. Qed.
Print Assumptions C06_is_dynamic_agrees.

(* type_spec.byte_length_static(): raises exactly for dynamic types, otherwise the ARC-4 static length with
   runs of consecutive bools packed (the _bool_aware_static_byte_length loop); for every type without a
   transaction spec inside (every ARC-4 value type) *)
Theorem C06_static_len_agrees : forall t, has_txn t = false -> py_byte_length_static t = static_len_opt t.
Proof. exact py_byte_length_static_agrees. Qed.
Print Assumptions C06_static_len_agrees.

Theorem C06_static_len_agrees_arc4 : forall t, encodable t = true -> py_byte_length_static t = static_len_opt t.
Proof. intros t H. exact (py_byte_length_static_agrees t (encodable_no_txn t H)). Qed.
Print Assumptions C06_static_len_agrees_arc4.

(* ---------------- the model's primitive operations are the AVM's opcodes ---------------- *)
Theorem C06_model_ops_are_avm_ops :
  (forall n r, exec_pure O_itob [] (VI n :: r) = POk (VB (x_itob n) :: r)) /\
  (forall b s r, exec_pure O_extract [AInt s; AInt 0] (VB b :: r) =
                 match x_suffix b s with Some x => POk (VB x :: r) | None => PFail end) /\
  (forall b i v r, exec_pure O_setbit [] (VI v :: VI i :: VB b :: r) =
                   match x_setbit b i v with Some x => POk (VB x :: r) | None => PFail end) /\
  (forall b i v r, exec_pure O_setbyte [] (VI v :: VI i :: VB b :: r) =
                   match x_setbyte b i v with Some x => POk (VB x :: r) | None => PFail end) /\
  (forall n r, exec_pure O_logic_not [] (VI n :: r) = POk (VI (x_not n) :: r)) /\
  (forall a b r, exec_pure O_concat [] (VB b :: VB a :: r) =
                 match x_concat (Some MAX_BYTES) a b with Some x => POk (VB x :: r) | None => PFail end).
Proof.
  exact (conj itob_is_avm (conj suffix_is_avm_extract (conj setbit_is_avm (conj setbyte_is_avm
        (conj not_is_avm concat_is_avm))))).
Qed.
Print Assumptions C06_model_ops_are_avm_ops.

(* ---------------- scalars ---------------- *)
(* uint_encode of a value below 2^N is its N/8-byte big-endian form (N = 8, 16, 32, 64) *)
Theorem C06_uint_encode_correct : forall bits n, pyteal_uint_bits bits = true -> n < 2 ^ bits ->
    uint_encode bits n = Some (be_encode (N.to_nat (bits / 8)) n).
Proof. exact uint_encode_correct. Qed.
Print Assumptions C06_uint_encode_correct.

(* uint_set: a Python int is rejected at construction iff it is negative or >= 2^N;
   an expression (a uint64 at run time) makes the program fail iff its value is >= 2^N — for N = 64 there is
   no check and none is needed — and otherwise the value itself is stored *)
Theorem C06_uint_set_rejects_iff_overflow :
  (forall size z, uint_set_const size z = None <-> (z < 0 \/ 2 ^ Z.of_N size <= z)%Z) /\
  (forall size n, n < U64 ->
     (uint_set_expr size n = None <-> 2 ^ size <= n) /\ (forall m, uint_set_expr size n = Some m -> m = n)).
Proof. exact (conj uint_set_const_rejects_iff uint_set_expr_fails_iff). Qed.
Print Assumptions C06_uint_set_rejects_iff_overflow.

(* ---------------- bool packing ---------------- *)
(* _encode_bool_sequence (SetBit i for i = 0.., into ceil(n/8) zero bytes) of cells holding 0/1 is the ARC-4
   packing: first bool = most significant bit of the first byte, zero padding; any number of bools *)
Theorem C06_bool_pack_correct : forall bs, encode_bool_sequence (map b2N bs) = Some (pack_bools bs).
Proof. exact bool_pack_correct. Qed.
Print Assumptions C06_bool_pack_correct.

(* ---------------- _encode_tuple ---------------- *)
(* For every member list (any types, any length) whose cells hold what the spec encodes for the members
   ([rep]: a bool cell holds 0/1; a static member's encode() yields the spec bytes, of the static length of its
   type; a dynamic member's cell holds the spec bytes):
   - if construction succeeds, the generated code computes EXACTLY the spec's head/tail assembly — including the
     case where the spec has none because a tail offset exceeds 65535: then the range assert on
     tail_offset_accumulator fails (the program fails), there is no silent wrap;
   - construction is rejected only when the spec has no encoding (the first tail offset = the head length does
     not fit a uint16). *)
Theorem C06_encode_tuple_correct : forall vals es, Forall2 rep vals es ->
    (encode_tuple_ok vals = true -> encode_tuple_run None vals = assemble es) /\
    (encode_tuple_ok vals = false -> assemble es = None).
Proof. exact encode_tuple_correct. Qed.
Print Assumptions C06_encode_tuple_correct.

(* ---------------- arrays ---------------- *)
(* Array.set([members]) = the tuple assembly of the members, for a dynamic array preceded by the uint16 element
   count (bool arrays and arrays of dynamic elements included: they are member lists like any other) *)
Theorem C06_array_set_correct : forall (dynamic : bool) vals es, Forall2 rep vals es ->
    let spec := if dynamic
                then obind (u16 (N.of_nat (List.length vals))) (fun p => obind (assemble es) (fun b => Some (p ++ b)))
                else assemble es in
    (array_set_ok dynamic vals = true -> array_set_run None dynamic vals = spec) /\
    (array_set_ok dynamic vals = false -> spec = None).
Proof. exact array_set_correct. Qed.
Print Assumptions C06_array_set_correct.

(* ---------------- strings ---------------- *)
Theorem C06_string_set_correct : forall bs,
    (encoded_byte_string bs = arc4_encode TString (VBytes bs)) /\
    (blen bs <= MAX_BYTES -> store_encoded_expr_byte_string None bs = arc4_encode TString (VBytes bs)) /\
    (forall l b, store_encoded_expr_byte_string (Some l) bs = Some b -> store_encoded_expr_byte_string None bs = Some b).
Proof. exact string_set_correct. Qed.
Print Assumptions C06_string_set_correct.

(* String.set(Expr) writes the length prefix without a range check; it is correct only because AVM byte strings
   cannot reach 65536 bytes (witness on the uncapped machine: 65536 zero bytes get the prefix 0x0000) *)
Theorem C06_string_set_expr_relies_on_avm_cap :
  let bs := repeat zero (N.to_nat 65536) in
  store_encoded_expr_byte_string None bs = Some (be_encode 2 0 ++ bs) /\ arc4_encode TString (VBytes bs) = None.
Proof. exact string_set_expr_wraps_without_cap. Qed.
Print Assumptions C06_string_set_expr_relies_on_avm_cap.

(* ---------------- end to end ---------------- *)
(* For every type PyTeal can build (nested arbitrarily), every way of handing the parts to set(...) (Python
   constants, run-time expressions, copies, member instances — recursively), and the value v these parts denote:
   x.set(...); Log(x.encode()) logs exactly arc4_encode t v when the spec has an encoding, and otherwise is rejected
   at construction or fails at run time.  Hypotheses: run-time inputs are AVM stack values (uint64 < 2^64, byte
   strings <= 4096 bytes). *)
Theorem C06_set_encodes_per_arc4 : forall t s v,
    pyteal_ty t = true -> src_wf s = true -> denote t s = Some v ->
    set_outcome None t s =
    match arc4_encode t v with
    | Some bs => OBytes bs
    | None => if set_ok t s then OFail else OReject
    end.
Proof. exact set_encodes_per_arc4. Qed.
Print Assumptions C06_set_encodes_per_arc4.

(* The same on a machine whose concat caps byte strings at l bytes (l = 4096: the AVM): the ARC-4 encoding is
   logged whenever it fits the cap (every intermediate string is a piece of the final encoding); an encoding
   beyond the cap makes the program fail (or, when no concat is involved, still comes out right) — never wrong
   bytes; a value without encoding is rejected / fails exactly as on the uncapped machine. *)
Theorem C06_set_encodes_per_arc4_on_avm : forall l t s v,
    pyteal_ty t = true -> src_wf s = true -> denote t s = Some v ->
    match arc4_encode t v with
    | Some bs =>
        if blen bs <=? l then set_outcome (Some l) t s = OBytes bs
        else set_outcome (Some l) t s = OBytes bs \/ set_outcome (Some l) t s = OFail
    | None => set_outcome (Some l) t s = if set_ok t s then OFail else OReject
    end.
Proof. exact set_encodes_per_arc4_capped. Qed.
Print Assumptions C06_set_encodes_per_arc4_on_avm.

(* capped vs uncapped machine, for every type and source (no well-formedness hypothesis) *)
Theorem C06_capped_outcome : forall l t s,
    set_outcome (Some l) t s =
    match set_outcome None t s with
    | OBytes bs => if blen bs <=? l then OBytes bs else set_outcome (Some l) t s
    | OReject => OReject
    | OFail => OFail
    end.
Proof. exact capped_outcome. Qed.
Print Assumptions C06_capped_outcome.

Theorem C06_capped_outcome_sound : forall l t s,
    (forall bs, set_outcome (Some l) t s = OBytes bs -> set_outcome None t s = OBytes bs) /\
    (set_outcome (Some l) t s = OReject <-> set_outcome None t s = OReject).
Proof. exact capped_outcome_sound. Qed.
Print Assumptions C06_capped_outcome_sound.
