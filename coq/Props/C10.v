(* Props/C10.v — every variable is its own storage cell; slot limits are enforced.
   Property theorems only; proofs live in Proofs/SlotsProof.v and Proofs/SlotsCells.v.
   Model: Comp/Slots.v (collectScratchSlots, assignScratchSlotsToSubroutines, TealOp.assignSlot,
   ScratchSlot.__init__, alloc_abstract_var).  NUM_SLOTS and MAX_FRAME_LOCAL_VARS come from
   Gen/SlotConfig.v, regenerated from the tree under test on every run.
   Every theorem about the assignment holds for EVERY iteration order [order] of Python's set
   allSlots ([set_order inp order]: a permutation of the set of referenced slot objects). *)
From Coq Require Import List NArith ZArith Bool.
From PV Require Import Base.Bytes AVM.Syntax AVM.Machine Gen.SlotConfig Comp.Slots
  Proofs.SlotsProof Proofs.SlotsCells Proofs.SlotsExamples.
Import ListNotations.
Local Open Scope N_scope.

(* Two different slot objects never receive the same number. *)
Theorem C10_assign_injective : forall inp order v a, set_order inp order ->
  assign_in_order order inp v = Ok a ->
  forall s1 s2 n, lookup (r_map a) s1 = Some n -> lookup (r_map a) s2 = Some n -> s1 = s2.
Proof. exact assign_injective_lemma. Qed.
Print Assumptions C10_assign_injective.

(* Exactly the referenced slot objects receive a number. *)
Theorem C10_assign_total : forall inp order v a, set_order inp order ->
  assign_in_order order inp v = Ok a ->
  forall s, referenced inp s <-> exists n, lookup (r_map a) s = Some n.
Proof. exact assign_total_lemma. Qed.
Print Assumptions C10_assign_total.

(* A slot with a requested id gets that id. *)
Theorem C10_assign_respects_requested : forall inp order v a, set_order inp order ->
  assign_in_order order inp v = Ok a ->
  forall s, referenced inp s -> sl_res s = true -> lookup (r_map a) s = Some (sl_id s).
Proof. exact assign_respects_requested_lemma. Qed.
Print Assumptions C10_assign_respects_requested.

(* Every assigned number is a scratch cell of the machine: below NUM_SLOTS (requested ids are below
   NUM_SLOTS because the ScratchSlot constructor rejects anything else: C10_constructor), and the
   automatic counter cannot run past the number of distinct slots. *)
Theorem C10_assign_in_range : forall inp order v a, set_order inp order -> requested_ids_valid inp ->
  assign_in_order order inp v = Ok a ->
  forall s n, lookup (r_map a) s = Some n -> n < NUM_SLOTS.
Proof. exact assign_in_range_lemma. Qed.
Print Assumptions C10_assign_in_range.

Theorem C10_assign_auto_below_count : forall inp order v a, set_order inp order ->
  assign_in_order order inp v = Ok a ->
  forall s n, lookup (r_map a) s = Some n -> sl_res s = false -> n < slot_count inp.
Proof. exact assign_auto_below_count_lemma. Qed.
Print Assumptions C10_assign_auto_below_count.

Theorem C10_num_slots_fits_avm : NUM_SLOTS <= 256.
Proof. exact num_slots_fits_avm. Qed.
Print Assumptions C10_num_slots_fits_avm.

(* Rejected iff two different slots request one id, or more than NUM_SLOTS distinct slots are in use
   (v = false is the validateSlots step, property C17, a parameter here).  The four outcomes: *)
Theorem C10_assign_error_iff : forall inp order v, set_order inp order ->
  (has_conflict inp -> exists i, conflict_on inp i /\ assign_in_order order inp v = Err (SlotIdAssignedTwice i)) /\
  (~ has_conflict inp -> NUM_SLOTS < slot_count inp -> assign_in_order order inp v = Err (TooManySlots (slot_count inp))) /\
  (~ has_conflict inp -> slot_count inp <= NUM_SLOTS -> v = false -> assign_in_order order inp v = Err ValidateFailed) /\
  (~ has_conflict inp -> slot_count inp <= NUM_SLOTS -> v = true -> exists a, assign_in_order order inp v = Ok a).
Proof. exact assign_error_iff_lemma. Qed.
Print Assumptions C10_assign_error_iff.

Theorem C10_assign_rejects_iff : forall inp order v, set_order inp order ->
  ((exists i, assign_in_order order inp v = Err (SlotIdAssignedTwice i)) <-> has_conflict inp) /\
  ((exists n, assign_in_order order inp v = Err (TooManySlots n)) <-> ~ has_conflict inp /\ NUM_SLOTS < slot_count inp) /\
  ((exists a, assign_in_order order inp v = Ok a) <-> ~ has_conflict inp /\ slot_count inp <= NUM_SLOTS /\ v = true).
Proof. exact assign_rejects_iff_lemma. Qed.
Print Assumptions C10_assign_rejects_iff.

(* slot_count really counts distinct referenced slot objects *)
Theorem C10_slot_count_meaning : forall inp,
  NoDup (all_slots inp) /\ (forall s, In s (all_slots inp) <-> referenced inp s).
Proof. exact slot_count_meaning_lemma. Qed.
Print Assumptions C10_slot_count_meaning.

(* The int placeholder of ScratchIndex, every load, every store, in every routine: one function of
   the slot object decides the number written into the op, and it is the assignment. *)
Theorem C10_index_sees_assignment : forall inp order v a, set_order inp order ->
  assign_in_order order inp v = Ok a ->
  exists f : slot -> N,
    (forall s, referenced inp s -> lookup (r_map a) s = Some (f s)) /\
    r_ops a = map (map (subst_op f)) inp /\
    r_locals a = map (map f) (snd (collect inp)).
Proof. exact index_sees_assignment_lemma. Qed.
Print Assumptions C10_index_sees_assignment.

Theorem C10_rewrite_complete : forall inp order v a, set_order inp order ->
  assign_in_order order inp v = Ok a ->
  forall r o x, In r (r_ops a) -> In o r -> In x (o_args o) -> forall s, x <> ASlot s.
Proof. exact rewrite_complete_lemma. Qed.
Print Assumptions C10_rewrite_complete.

(* The local slots reported for routine k are the slots no other routine references. *)
Theorem C10_collect_locals : forall inp k r l,
  nth_error inp k = Some r -> nth_error (snd (collect inp)) k = Some l ->
  forall s, In s l <-> In s (routine_refs r) /\
                       forall j r', nth_error inp j = Some r' -> j <> k -> ~ In s (routine_refs r').
Proof. exact collect_locals_spec. Qed.
Print Assumptions C10_collect_locals.

(* Python's set order cannot change the result unless two slot objects carry one id. *)
Theorem C10_assign_order_independent : forall inp o1 o2 v, set_order inp o1 -> set_order inp o2 ->
  ids_distinct inp -> assign_in_order o1 inp v = assign_in_order o2 inp v.
Proof. exact assign_order_independent_lemma. Qed.
Print Assumptions C10_assign_order_independent.

(* The ScratchSlot constructor: requested ids outside [0, NUM_SLOTS) are rejected; slots made by a run
   of constructor calls from a counter >= NUM_SLOTS have valid requested ids and pairwise different
   ids unless two of them request the same one. *)
Theorem C10_constructor_rejects : forall uid z c,
  new_slot uid (Some z) c = InvalidSlotId <-> (z < 0 \/ Z.of_N NUM_SLOTS <= z)%Z.
Proof. exact new_slot_invalid_iff. Qed.
Print Assumptions C10_constructor_rejects.

Theorem C10_constructor : forall reqs uid c l c' inp,
  make_slots reqs uid c = Some (l, c') -> NUM_SLOTS <= c ->
  (forall s, referenced inp s -> In s l) ->
  requested_ids_valid inp /\ (~ has_conflict inp -> ids_distinct inp).
Proof. exact constructor_establishes_lemma. Qed.
Print Assumptions C10_constructor.

(* On the AVM: with an injective in-range numbering, any interleaving of store/load/stores/loads over
   a set of variables behaves as independent cells ([spec_run]): the stack ends with exactly the
   values last stored to the variable each load names, and the cells hold the last stored values. *)
Theorem C10_cells_independent : forall (V : Type) (dec : forall x y : V, {x = y} + {x <> y})
    (num : V -> N) (vars : list V) (cx : ctx) (acts : list (action V)) (stk : list value) (st : mstate) (e : V -> value),
  (forall x, In x vars -> num x < 256) ->
  (forall x y, In x vars -> In y vars -> num x = num y -> x = y) ->
  Forall (fun act => In (var_of act) vars) acts ->
  (forall x, In x vars -> scratch_get (s_scratch st) (num x) = e x) ->
  exists st',
    exec_actions cx num acts stk st = OOk (snd (spec_run dec acts e stk)) st' /\
    (forall x, In x vars -> scratch_get (s_scratch st') (num x) = fst (spec_run dec acts e stk) x) /\
    s_trace st' = s_trace st /\ s_global st' = s_global st /\ s_local st' = s_local st /\ s_boxes st' = s_boxes st.
Proof. exact cells_independent_lemma. Qed.
Print Assumptions C10_cells_independent.

(* ... and the numbering computed by the compiler model is such a numbering. *)
Theorem C10_cells_independent_assigned : forall inp order v asg, set_order inp order -> requested_ids_valid inp ->
  assign_in_order order inp v = Ok asg ->
  forall (cx : ctx) (acts : list (action slot)) (stk : list value) (st : mstate) (e : slot -> value),
  Forall (fun act => referenced inp (var_of act)) acts ->
  (forall s, referenced inp s -> scratch_get (s_scratch st) (number_of (r_map asg) s) = e s) ->
  exists st',
    exec_actions cx (number_of (r_map asg)) acts stk st = OOk (snd (spec_run slot_eq_dec acts e stk)) st' /\
    (forall s, referenced inp s -> scratch_get (s_scratch st') (number_of (r_map asg) s) = fst (spec_run slot_eq_dec acts e stk) s) /\
    s_trace st' = s_trace st.
Proof. exact cells_independent_assigned_lemma. Qed.
Print Assumptions C10_cells_independent_assigned.

(* alloc_abstract_var: whatever number of variables a subroutine body allocates, the frame never
   holds more than MAX_FRAME_LOCAL_VARS locals, every frame index handed out is fresh and distinct,
   and past the limit every variable is a scratch variable; frame indices fit frame_dig's int8. *)
Theorem C10_frame_locals_bounded : forall k n0 vs st', alloc_many k (Some n0) = (vs, st') ->
  exists n', st' = Some n' /\ n0 <= n' /\ (n0 <= MAX_FRAME_LOCAL_VARS -> n' <= MAX_FRAME_LOCAL_VARS) /\
    (forall i, In (FrameVarAt i) vs -> n0 <= i /\ i < n' /\ i < MAX_FRAME_LOCAL_VARS) /\
    NoDup (filter (fun v => match v with FrameVarAt _ => true | ScratchVarNew => false end) vs) /\
    N.of_nat (List.length (filter (fun v => match v with FrameVarAt _ => true | ScratchVarNew => false end) vs)) = n' - n0 /\
    (MAX_FRAME_LOCAL_VARS <= n0 -> Forall (fun v => v = ScratchVarNew) vs).
Proof. exact alloc_many_spec. Qed.
Print Assumptions C10_frame_locals_bounded.

Theorem C10_no_proto_no_frame : forall k vs st', alloc_many k None = (vs, st') ->
  st' = None /\ Forall (fun v => v = ScratchVarNew) vs.
Proof. exact alloc_many_no_proto. Qed.
Print Assumptions C10_no_proto_no_frame.

Theorem C10_frame_locals_fit_int8 : MAX_FRAME_LOCAL_VARS <= 128.
Proof. exact frame_locals_fit_int8. Qed.
Print Assumptions C10_frame_locals_fit_int8.
