(* Props/C01_flatten.v — stages "sort" and "flatten" of property C01 (compiled TEAL computes what the
   PyTeal expression denotes): sortBlocks returns exactly the reachable blocks, once each, end block
   last, start block first; the linear code of flattenBlocks simulates the block graph.
   Property theorems only; proofs live in Proofs/FlattenCorrect.v and Proofs/SortCorrect.v. *)
From Coq Require Import List NArith String.
From PV Require Import Base.Bytes Base.Sexp AVM.Syntax AVM.Machine Src.Expr Src.Denote
  Comp.Blocks Comp.Lower Comp.Passes Comp.GraphSem Comp.LinearSem
  Proofs.LowerFrame Proofs.FlattenCorrect Proofs.SortCorrect.
Import ListNotations.

(* ---- labels ---- *)

(* decimal printing (used for labels, integer immediates, pragma lines, ABI type names) never maps two
   numbers to the same text; proved through the read-back N_of_dec (N_to_dec n) = Some n, which also
   shows that the fuel of N_to_dec is enough for every n *)
Theorem C01_N_to_dec_injective : forall a b : N, N_to_dec a = N_to_dec b -> a = b.
Proof. exact N_to_dec_inj. Qed.
Print Assumptions C01_N_to_dec_injective.

Theorem C01_label_of_injective : forall i j : nat, label_of i = label_of j -> i = j.
Proof. exact label_of_inj. Qed.
Print Assumptions C01_label_of_injective.

(* ---- flattenBlocks ---- *)

(* For EVERY graph and EVERY list of block ids on which flatten_blocks succeeds (duplicates allowed;
   that the listed blocks are defined and closed under the successors of non-terminal blocks is a
   CONSEQUENCE of success, see C01_flatten_closed), under the one hypothesis [ends_last] (a listed
   block without successor and without return/retsub/err is a simple block and is last in the list):
   every run of the graph from a listed block b, of any length, to any configuration c' — still
   inside the graph, or halted by return / retsub / failure / falling off the end / an unsupported
   operation other than a branch opcode sitting inside a block body — is matched by a run of the
   linear code from the position of b to the image of c' (same stack, same machine state; "at block
   x" becomes "at the position of block x").  This covers the fall-through / b / bz / bnz / bnz;b
   choice, labels emitted only where referenced, terminal blocks with dead ops after their return,
   and label lookup by search (labels are distinct by C01_label_of_injective). *)
Theorem C01_flatten_correct :
  forall (env : denv) (g : graph) (blocks : list id) (code : list comp),
    flatten_blocks g blocks = Some code ->
    ends_last (g_blk g) blocks ->
    forall b stk st c', In b blocks ->
      star env (g_blk g) (GAt b stk st) c' -> ok_out c' ->
      lstar env code (LAt (pos_of g blocks b) stk st) (img (pos_of g blocks) c').
Proof. exact flatten_correct. Qed.
Print Assumptions C01_flatten_correct.

(* halting outcomes: the linear code halts with the same outcome and (being deterministic) no other *)
Theorem C01_flatten_correct_final :
  forall (env : denv) (g : graph) (blocks : list id) (code : list comp),
    flatten_blocks g blocks = Some code ->
    ends_last (g_blk g) blocks ->
    forall b stk st c', In b blocks ->
      star env (g_blk g) (GAt b stk st) c' -> gfinal c' = true -> ok_out c' ->
      lstar env code (LAt (pos_of g blocks b) stk st) (img (pos_of g blocks) c') /\
      forall c2, lstar env code (LAt (pos_of g blocks b) stk st) c2 -> lfinal c2 = true ->
                 c2 = img (pos_of g blocks) c'.
Proof. exact flatten_correct_final. Qed.
Print Assumptions C01_flatten_correct_final.

(* success of flatten_blocks implies: listed blocks are defined, successors of non-terminal listed
   blocks are listed *)
Theorem C01_flatten_closed :
  forall g blocks code, flatten_blocks g blocks = Some code ->
    forall b, In b blocks ->
      exists bb, g_blk g b = Some bb /\
                 (is_terminal bb = false -> forall x, In x (outgoing bb) -> In x blocks).
Proof. exact flatten_closed. Qed.
Print Assumptions C01_flatten_closed.

(* the hypotheses cannot be dropped: (1) a successor-less block without return that is not last,
   (2) a conditional block without branches, (3) a branch opcode inside a block body *)
Theorem C01_flatten_needs_end_last :
  exists env g blocks code b stk st c',
    flatten_blocks g blocks = Some code /\ In b blocks /\
    star env (g_blk g) (GAt b stk st) c' /\ gfinal c' = true /\ ok_out c' /\
    ~ lstar env code (LAt (pos_of g blocks b) stk st) (img (pos_of g blocks) c').
Proof. exact flatten_needs_end_last. Qed.
Print Assumptions C01_flatten_needs_end_last.

Theorem C01_flatten_needs_simple_end :
  exists env g blocks code b stk st c',
    flatten_blocks g blocks = Some code /\ In b blocks /\
    star env (g_blk g) (GAt b stk st) c' /\ gfinal c' = true /\ ok_out c' /\
    ~ lstar env code (LAt (pos_of g blocks b) stk st) (img (pos_of g blocks) c').
Proof. exact flatten_needs_simple_end. Qed.
Print Assumptions C01_flatten_needs_simple_end.

Theorem C01_flatten_needs_ok_out :
  exists env g blocks code b stk st c',
    flatten_blocks g blocks = Some code /\ ends_last (g_blk g) blocks /\ In b blocks /\
    star env (g_blk g) (GAt b stk st) c' /\ gfinal c' = true /\
    ~ lstar env code (LAt (pos_of g blocks b) stk st) (img (pos_of g blocks) c').
Proof. exact flatten_needs_ok_out. Qed.
Print Assumptions C01_flatten_needs_ok_out.

(* ---- sortBlocks ---- *)

(* For every graph whose defined ids are below its counter: the list returned by sort_blocks has no
   duplicates, contains exactly the blocks reachable from start, ends with the end block, begins
   with the start block when start <> end; when start = end the start block is MOVED to the end
   (order = rest of the traversal ++ [start]), which leaves it first only if nothing else is
   reachable. *)
Theorem C01_sort_blocks_complete :
  forall (g : graph) (start end_ : id) (order : list id),
    wf g -> sort_blocks g start end_ = Some order ->
    NoDup order /\
    (forall x, In x order <-> reach g start x) /\
    (exists pre, order = pre ++ [end_]) /\
    (start <> end_ -> exists t, order = start :: t) /\
    (start = end_ -> exists more, dfs_order g start = start :: more /\ order = more ++ [start]) /\
    (start = end_ -> out_of g start = [] -> order = [start]).
Proof. exact sort_blocks_complete. Qed.
Print Assumptions C01_sort_blocks_complete.

(* the model's fuel 3 * S (g_next g) is sufficient: any larger fuel yields the same traversal *)
Theorem C01_sort_fuel_sufficient :
  forall (g : graph) (start : id), wf g -> forall extra,
    sort_loop (3 * S (g_next g) + extra) g [start] [] [] = dfs_order g start.
Proof. exact sort_fuel_sufficient. Qed.
Print Assumptions C01_sort_fuel_sufficient.

Theorem C01_sort_start_not_first :
  exists g s order, wf g /\ sort_blocks g s s = Some order /\ hd_error order <> Some s.
Proof. exact sort_start_not_first. Qed.
Print Assumptions C01_sort_start_not_first.

(* ---- sort, then flatten ---- *)

(* The routine's code, entered at pc 0, simulates the routine's graph entered at its start block.
   [single_exit] is what the lowering has to provide (the only reachable block that neither has a
   successor nor returns is the end block, a simple block); the last hypothesis keeps the start
   block first (see C01_sort_start_not_first). *)
Theorem C01_flatten_sort :
  forall (env : denv) (g : graph) (start end_ : id) (order : list id) (code : list comp),
    wf g ->
    sort_blocks g start end_ = Some order ->
    flatten_blocks g order = Some code ->
    single_exit g start end_ ->
    start <> end_ \/ out_of g start = [] ->
    forall stk st c',
      star env (g_blk g) (GAt start stk st) c' -> ok_out c' ->
      lstar env code (LAt 0 stk st) (img (pos_of g order) c').
Proof. exact flatten_sort_correct. Qed.
Print Assumptions C01_flatten_sort.

Theorem C01_flatten_sort_final :
  forall (env : denv) (g : graph) (start end_ : id) (order : list id) (code : list comp),
    wf g ->
    sort_blocks g start end_ = Some order ->
    flatten_blocks g order = Some code ->
    single_exit g start end_ ->
    start <> end_ \/ out_of g start = [] ->
    forall stk st c',
      star env (g_blk g) (GAt start stk st) c' -> gfinal c' = true -> ok_out c' ->
      (exists n, lrun n env code (LAt 0 stk st) = img (pos_of g order) c') /\
      (forall c2, lstar env code (LAt 0 stk st) c2 -> lfinal c2 = true -> c2 = img (pos_of g order) c').
Proof. exact flatten_sort_correct_final. Qed.
Print Assumptions C01_flatten_sort_final.
