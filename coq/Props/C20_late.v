(* Props/C20_late.v — property C20 (compilation is total: TEAL or a PyTeal error, never a crash), the
   passes AFTER compile_one, for programs WITH control flow:

     sortBlocks     never raises "End block not present" on a compiled routine,
     flattenBlocks  never trips an assertion / KeyError on the order sortBlocks returns,

   for every recipe the lowering handles — If, Cond, While, For, Break, Continue, Assert, Return, Exit,
   MultiValue, subroutine calls, WideRatio, nested in any way —, every option record, main routine and
   subroutine bodies alike.  Composed with the tree-validity half (Props/C20_tree.v) one routine goes from
   PyTeal's own checks to a flat instruction list; composed with the slot-assignment and pipeline lemmas
   the compile model never reports a crash for a whole program (optimiser on or off); and the C01 end-to-end
   theorems (Props/C01_end_to_end.v) are restated WITHOUT their "sort/flatten succeeded" hypotheses.

   Side conditions that remain (each shown necessary or discussed in design_notes/C20_late.md):
     * r_deferred = None      no ABI-returning subroutine (no stage theorem covers the deferred splice);
     * nec (root_ast ast0)    no Cond WITHOUT ARMS anywhere in the recipe.  Cond() is rejected by PyTeal's
                              constructor (TealInputError); [check_expr] models __teal__ only.  Necessary:
                              C20_sort_total_needs_cond_arms_refuted.  Holds for every well-typed recipe.
   Property theorems only; proofs in Proofs/LatePassTotal*.v. *)
From Coq Require Import List NArith String Bool.
From PV Require Import Base.Bytes AVM.Syntax AVM.Machine Src.Expr Src.Denote Src.WellTyped
  Comp.Blocks Comp.Lower Comp.Passes Comp.GraphSem Comp.LinearSem Comp.SimCheck Comp.Compile Comp.Assemble
  Proofs.LowerFrame Proofs.LowerCorrect Proofs.LowerShape Proofs.NormalizeLowered Proofs.FlattenCorrect
  Proofs.EndToEndExits Proofs.EndToEndGlue Proofs.EndToEnd Proofs.EndToEndExamples
  Proofs.SlotCompose Proofs.SlotComposeAssign
  Proofs.LatePassTotalReach Proofs.LatePassTotalNorm Proofs.LatePassTotal Proofs.LatePassTotalExamples
  Proofs.LatePassTotalProgram Proofs.LatePassTotalOpt Proofs.LatePassTotalAccept Proofs.StageECompose
  Proofs.SortCorrect.
Import ListNotations.

Local Notation reach := SortCorrect.reach.

(* =========================================================================================== *)
(* 1. the two passes on a compiled routine                                                      *)
(* =========================================================================================== *)

(* sortBlocks finds the end block of every routine compile_one returns *)
Theorem C20_sort_total :
  forall (o : copts) (sub : option routine) (ast0 : expr) (cr : croutine),
    (match sub with Some r => r_deferred r | None => None end) = None ->
    compile_one o sub ast0 = COk cr ->
    nec (root_ast ast0) = true ->
    exists order, sort_blocks (cr_graph cr) (cr_start cr) (cr_end cr) = Some order.
Proof. exact sort_total. Qed.
Print Assumptions C20_sort_total.

(* flattenBlocks succeeds on that order: every listed block is defined, every conditional block has
   both branches, every successor of a listed block is listed *)
Theorem C20_flatten_total :
  forall (o : copts) (sub : option routine) (ast0 : expr) (cr : croutine) (order : list id),
    (match sub with Some r => r_deferred r | None => None end) = None ->
    compile_one o sub ast0 = COk cr ->
    nec (root_ast ast0) = true ->
    sort_blocks (cr_graph cr) (cr_start cr) (cr_end cr) = Some order ->
    exists code, flatten_blocks (cr_graph cr) order = Some code.
Proof. exact flatten_total. Qed.
Print Assumptions C20_flatten_total.

Theorem C20_late_passes_total :
  forall (o : copts) (sub : option routine) (ast0 : expr) (cr : croutine),
    (match sub with Some r => r_deferred r | None => None end) = None ->
    compile_one o sub ast0 = COk cr ->
    nec (root_ast ast0) = true ->
    exists order code,
      sort_blocks (cr_graph cr) (cr_start cr) (cr_end cr) = Some order /\
      flatten_blocks (cr_graph cr) order = Some code.
Proof. exact late_passes_total. Qed.
Print Assumptions C20_late_passes_total.

(* from PyTeal's own checks (the errors __teal__ raises; no Continue in a loop header, the model's one
   unsupported construct) to the instruction list of the routine: nothing else can go wrong *)
Theorem C20_routine_compiles_total :
  forall (o : copts) (sub : option routine) (ast0 : expr),
    (match sub with Some r => r_deferred r | None => None end) = None ->
    check_expr o (option_map r_ret sub) false (root_ast ast0) = None ->
    has_bad_continue false (root_ast ast0) = false ->
    nec (root_ast ast0) = true ->
    exists cr order code,
      compile_one o sub ast0 = COk cr /\
      sort_blocks (cr_graph cr) (cr_start cr) (cr_end cr) = Some order /\
      flatten_blocks (cr_graph cr) order = Some code.
Proof. exact routine_compiles_total. Qed.
Print Assumptions C20_routine_compiles_total.

(* =========================================================================================== *)
(* 2. the ingredients                                                                           *)
(* =========================================================================================== *)

(* sortBlocks on ANY well-formed graph: its only failure is an end block that cannot be reached *)
Theorem C20_sort_fails_iff_end_unreachable :
  forall (g : graph) (start end_ : id),
    wf g -> (sort_blocks g start end_ = None <-> ~ reach g start end_).
Proof. exact sort_blocks_none_iff. Qed.
Print Assumptions C20_sort_fails_iff_end_unreachable.

(* flattenBlocks on ANY graph and list: it succeeds when every listed block is defined, has both
   branches if conditional, and has its successors in the list (the converse is C01_flatten_closed) *)
Theorem C20_flatten_blocks_total :
  forall (g : graph) (blocks : list id),
    (forall b, In b blocks ->
       exists bb, g_blk g b = Some bb /\ full_b bb /\ forall x, In x (outgoing bb) -> In x blocks) ->
    exists code, flatten_blocks g blocks = Some code.
Proof. exact flatten_blocks_total. Qed.
Print Assumptions C20_flatten_blocks_total.

(* lowering, general form: every id allocated by [lower] is defined when it returns, and from the start
   block of the fragment one reaches its end block (a simple block that continues with k) or the break /
   continue target of the enclosing loop *)
Theorem C20_lower_reach :
  forall (o : copts) (e : expr) (c : lctx) (il pb : bool),
    (il = true -> l_brk c <> None) /\ (il = true -> pb = false -> l_cont c <> None) ->
    (check_expr o (l_sub_ret c) il e = None /\ has_bad_continue pb e = false) /\ nec e = true ->
    forall (k : option id) (g : graph) (s en : id) (g' : graph),
      wf g -> lower o c e k g = ((s, en), g') ->
      (forall j, g_next g <= j -> j < g_next g' -> g_blk g' j <> None) /\
      ((reach g' s en /\ exists ops, g_blk g' en = Some (BSimple ops k)) \/
       (exists b, (l_brk c = Some b \/ l_cont c = Some b) /\ reach g' s b)).
Proof. exact lower_reach. Qed.
Print Assumptions C20_lower_reach.

(* a whole routine: the end block is reachable from the start block, every id below the counter is
   defined *)
Theorem C20_lowered_routine_end_reachable :
  forall (o : copts) (c : lctx) (e : expr) (s en : id) (g0 : graph),
    l_brk c = None -> l_cont c = None ->
    check_expr o (l_sub_ret c) false e = None -> has_bad_continue false e = false -> nec e = true ->
    lower o c e None empty_graph = ((s, en), g0) ->
    reach g0 s en /\ (forall j, j < g_next g0 -> g_blk g0 j <> None).
Proof. exact lower_root_reach. Qed.
Print Assumptions C20_lowered_routine_end_reachable.

(* NormalizeBlocks keeps: the single exit, the reachability of the end block from the (possibly moved)
   start block, "every edge points to a defined block", and the definedness of the start block *)
Theorem C20_normalize_keeps_end_reachable :
  forall (g : graph) (s : id) (g' : graph) (s' en : id),
    normalize g s = (g', s') ->
    exits_at g en /\ reach g s en /\ (forall p x, In x (out_of g p) -> g_blk g x <> None) /\ g_blk g s <> None ->
    exits_at g' en /\ reach g' s' en /\ (forall p x, In x (out_of g' p) -> g_blk g' x <> None) /\ g_blk g' s' <> None.
Proof. exact normalize_late_inv. Qed.
Print Assumptions C20_normalize_keeps_end_reachable.

(* what sortBlocks / flattenBlocks receive from compile_one *)
Theorem C20_compiled_late_facts :
  forall (o : copts) (sub : option routine) (ast0 : expr) (cr : croutine),
    (match sub with Some r => r_deferred r | None => None end) = None ->
    compile_one o sub ast0 = COk cr ->
    nec (root_ast ast0) = true ->
    wf (cr_graph cr) /\ cond_full (cr_graph cr) /\
    exits_at (cr_graph cr) (cr_end cr) /\ reach (cr_graph cr) (cr_start cr) (cr_end cr) /\
    (forall p x, In x (out_of (cr_graph cr) p) -> g_blk (cr_graph cr) x <> None) /\
    g_blk (cr_graph cr) (cr_start cr) <> None.
Proof. exact compiled_late_facts. Qed.
Print Assumptions C20_compiled_late_facts.

(* ---- the side condition ---- *)
Theorem C20_root_keeps_nec :
  forall ast0, nec ast0 = true -> nec (root_ast ast0) = true.
Proof. exact nec_root. Qed.
Print Assumptions C20_root_keeps_nec.

Theorem C20_decl_body_nec :
  forall (o : copts) (r : routine), nec (r_body r) = true -> nec (root_ast (decl_body o r)) = true.
Proof. exact nec_decl_body. Qed.
Print Assumptions C20_decl_body_nec.

(* every well-typed recipe (Src/WellTyped.v, the quantifier of C20) satisfies it *)
Theorem C20_well_typed_no_empty_cond :
  forall (fty : string -> string -> option ty) (ast0 : expr),
    well_typed fty false ast0 = true -> nec (root_ast ast0) = true.
Proof. exact wt_root_nec. Qed.
Print Assumptions C20_well_typed_no_empty_cond.

(* it is necessary: compile_one accepts Cond() (a recipe no PyTeal constructor builds), and sortBlocks
   does not find the end block (model outcome: TealInternalError, not a crash) *)
Theorem C20_sort_total_needs_cond_arms_refuted :
  exists (o : copts) (ast0 : expr) (cr : croutine),
    compile_one o None ast0 = COk cr /\
    nec (root_ast ast0) = false /\
    sort_blocks (cr_graph cr) (cr_start cr) (cr_end cr) = None.
Proof. exists opts0, (ECond []), (cr_of opts0 (ECond [])). exact sort_needs_cond_arms. Qed.
Print Assumptions C20_sort_total_needs_cond_arms_refuted.

(* =========================================================================================== *)
(* 3. C01 end to end without the "late passes succeeded" hypotheses                             *)
(* =========================================================================================== *)
Theorem C01_routine_end_to_end_total :
  forall (o : copts) (sub : option routine) (ast0 : expr) (cr : croutine),
    (match sub with Some r => r_deferred r | None => None end) = None ->
    compile_one o sub ast0 = COk cr ->
    head_loop (root_ast ast0) = false ->
    nec (root_ast ast0) = true ->
    exists (order : list id) (code : list comp),
      sort_blocks (cr_graph cr) (cr_start cr) (cr_end cr) = Some order /\
      flatten_blocks (cr_graph cr) order = Some code /\
      pos_of (cr_graph cr) order (cr_start cr) = 0 /\
      forall env : denv, consistent env (routine_ctx o sub) ->
      forall (fuel : nat) (stk : list value) (st : mstate) (h : lconf),
        halt_of (denote env fuel (root_ast ast0) stk st) = Some h ->
        lstar env code (LAt 0 stk st) h /\
        forall c2, lstar env code (LAt 0 stk st) c2 -> lfinal c2 = true -> c2 = h.
Proof. exact routine_end_to_end_total. Qed.
Print Assumptions C01_routine_end_to_end_total.

(* from the checks alone: nothing about the success of any pass is assumed *)
Theorem C01_routine_checked_end_to_end :
  forall (o : copts) (sub : option routine) (ast0 : expr),
    (match sub with Some r => r_deferred r | None => None end) = None ->
    check_expr o (option_map r_ret sub) false (root_ast ast0) = None ->
    has_bad_continue false (root_ast ast0) = false ->
    head_loop (root_ast ast0) = false ->
    nec (root_ast ast0) = true ->
    exists (cr : croutine) (order : list id) (code : list comp),
      compile_one o sub ast0 = COk cr /\
      sort_blocks (cr_graph cr) (cr_start cr) (cr_end cr) = Some order /\
      flatten_blocks (cr_graph cr) order = Some code /\
      pos_of (cr_graph cr) order (cr_start cr) = 0 /\
      forall env : denv, consistent env (routine_ctx o sub) ->
      forall (fuel : nat) (stk : list value) (st : mstate) (h : lconf),
        halt_of (denote env fuel (root_ast ast0) stk st) = Some h ->
        lstar env code (LAt 0 stk st) h /\
        forall c2, lstar env code (LAt 0 stk st) c2 -> lfinal c2 = true -> c2 = h.
Proof. exact routine_checked_end_to_end. Qed.
Print Assumptions C01_routine_checked_end_to_end.

(* subroutine bodies as compile_rec compiles them: one condition, on the user's body *)
Theorem C01_subroutine_end_to_end_total :
  forall (o : copts) (r : routine) (cr : croutine),
    r_deferred r = None ->
    compile_one o (Some r) (decl_body o r) = COk cr ->
    nec (r_body r) = true ->
    exists (order : list id) (code : list comp),
      sort_blocks (cr_graph cr) (cr_start cr) (cr_end cr) = Some order /\
      flatten_blocks (cr_graph cr) order = Some code /\
      pos_of (cr_graph cr) order (cr_start cr) = 0 /\
      forall env : denv, consistent env (routine_ctx o (Some r)) ->
      forall (fuel : nat) (stk : list value) (st : mstate) (h : lconf),
        halt_of (denote env fuel (root_ast (decl_body o r)) stk st) = Some h ->
        lstar env code (LAt 0 stk st) h /\
        forall c2, lstar env code (LAt 0 stk st) c2 -> lfinal c2 = true -> c2 = h.
Proof. exact subroutine_end_to_end_total. Qed.
Print Assumptions C01_subroutine_end_to_end_total.

(* well-typed main routines: no side condition at all *)
Theorem C01_main_end_to_end_well_typed_total :
  forall (fty : string -> string -> option ty) (o : copts) (ast0 : expr) (cr : croutine),
    well_typed fty false ast0 = true ->
    compile_one o None ast0 = COk cr ->
    exists (order : list id) (code : list comp),
      sort_blocks (cr_graph cr) (cr_start cr) (cr_end cr) = Some order /\
      flatten_blocks (cr_graph cr) order = Some code /\
      pos_of (cr_graph cr) order (cr_start cr) = 0 /\
      forall env : denv, consistent env (routine_ctx o None) ->
      forall (fuel : nat) (stk : list value) (st : mstate) (h : lconf),
        halt_of (denote env fuel (root_ast ast0) stk st) = Some h ->
        lstar env code (LAt 0 stk st) h /\
        forall c2, lstar env code (LAt 0 stk st) c2 -> lfinal c2 = true -> c2 = h.
Proof. exact main_end_to_end_well_typed_total. Qed.
Print Assumptions C01_main_end_to_end_well_typed_total.

(* =========================================================================================== *)
(* 4. the pipeline                                                                              *)
(* =========================================================================================== *)

(* what compile_components really sorts and flattens is the SLOT-ASSIGNED routine: same order, and the
   code is the slot rewrite of the routine's own code *)
Theorem C20_routine_assigned_total :
  forall (look : N -> N) (o : copts) (sub : option routine) (ast0 : expr) (cr : croutine),
    (match sub with Some r => r_deferred r | None => None end) = None ->
    compile_one o sub ast0 = COk cr ->
    nec (root_ast ast0) = true ->
    let cr' := rw_routine look cr in
    exists order code,
      sort_blocks (cr_graph cr) (cr_start cr) (cr_end cr) = Some order /\
      flatten_blocks (cr_graph cr) order = Some code /\
      sort_blocks (cr_graph cr') (cr_start cr') (cr_end cr') = Some order /\
      flatten_blocks (cr_graph cr') order = Some (rw_code look code).
Proof. exact routine_assigned_total. Qed.
Print Assumptions C20_routine_assigned_total.

(* every routine of a program (main + subroutines reached by compile_rec), after slot assignment *)
Theorem C20_program_flat_stage_total :
  forall (o : copts) (p : prog) (crs crs' : list croutine) (locals : list (option N * list N)) (asg : list (N * N)),
    (forall r, In r (p_subs p) -> r_deferred r = None /\ nec (r_body r) = true) ->
    nec (root_ast (p_main p)) = true ->
    compile_rec (S (List.length (p_subs p))) o p None (p_main p) [] = COk crs ->
    assign_slots p crs = COk (crs', locals, asg) ->
    exists frs, flat_stage crs' = COk frs.
Proof. exact program_flat_stage_total. Qed.
Print Assumptions C20_program_flat_stage_total.

(* the scratch-slot optimiser always returns a graph (the structural comparison that could diverge is gone
   since the repair f003506 of /repo), so compile_components never reports CrashRecursion ... *)
Theorem C20_optimize_routine_total :
  forall (g : graph) (start : id) (skip : list N), exists g', optimize_routine g start skip = Some g'.
Proof. exact optimize_routine_total. Qed.
Print Assumptions C20_optimize_routine_total.

(* ... and it keeps everything the late passes rely on (it only deletes load/store operations) *)
Theorem C20_optimizer_keeps_late_shape :
  forall (c : croutine) (skip : list N) (g' : graph),
    optimize_routine (cr_graph c) (cr_start c) skip = Some g' ->
    wf (cr_graph c) /\ cond_full (cr_graph c) /\ late_inv (cr_end c) (cr_graph c) (cr_start c) ->
    wf g' /\ cond_full g' /\ late_inv (cr_end c) g' (cr_start c).
Proof. exact optimize_keeps_late. Qed.
Print Assumptions C20_optimizer_keeps_late_shape.

(* PARTIAL (scope): no ABI-returning subroutine (no deferred expression), no Cond without arms.
   Within that scope the compile model NEVER reports a crash: whatever the program — any control flow,
   any number of subroutines, recursion —, version, mode, scratch-slot optimiser ON OR OFF: the outcome is
   TEAL lines, one of PyTeal's four errors, or the model's "unsupported" marker (Continue in a loop header,
   unknown subroutine id, validateSlots fuel).  Formally: a [CErr e] has e not in
   {CrashAssertion, CrashRecursion, CrashOther}. *)
Theorem C20_compile_model_no_crash_partial :
  forall (o : copts) (modes : opc -> bool * bool) (p : prog) (e : cerr),
    (forall r, In r (p_subs p) -> r_deferred r = None /\ nec (r_body r) = true) ->
    nec (root_ast (p_main p)) = true ->
    compile_model o modes p = CErr e ->
    match e with CrashAssertion | CrashRecursion | CrashOther _ => False | _ => True end.
Proof.
  intros o modes p e HS Hm H. pose proof (compile_model_no_crash_opt o modes p e HS Hm H) as K.
  destruct e; cbn in K; try discriminate K; exact Logic.I.
Qed.
Print Assumptions C20_compile_model_no_crash_partial.

(* one routine: compileSubroutine reports the errors of __teal__ or the model's limit, never a crash *)
Theorem C20_compile_one_no_crash :
  forall (o : copts) (sub : option routine) (ast0 : expr) (e : cerr),
    (match sub with Some r => r_deferred r | None => None end) = None ->
    compile_one o sub ast0 = CErr e ->
    match e with CrashAssertion | CrashRecursion | CrashOther _ => False | _ => True end.
Proof.
  intros o sub ast0 e D H. pose proof (compile_one_no_crash o sub ast0 e D H) as K.
  destruct e; cbn in K; try discriminate K; exact Logic.I.
Qed.
Print Assumptions C20_compile_one_no_crash.

(* assembly never fails on placeholder-free components *)
Theorem C20_assemble_all_total :
  forall (l : list comp),
    forallb (fun c => match c with
                      | COp i => forallb (fun a => match a with ASlot _ | ASub _ => false | _ => true end) (i_args i)
                      | _ => true end) l = true ->
    exists lines, assemble_all l = Some lines.
Proof. exact assemble_all_total. Qed.
Print Assumptions C20_assemble_all_total.

(* PARTIAL (scope): main-only programs, optimiser off.  ACCEPTANCE for programs with control flow: when
   PyTeal's own checks pass on the main routine (and it has no Cond without arms), the routine compiles; if
   moreover it calls no subroutine and slot assignment succeeds, sortBlocks / flattenBlocks succeed; and if
   the emitted operations exist at the version / in the mode (verifyOpsForVersion / verifyOpsForMode), the
   compile model returns TEAL lines — the assembly of the slot-rewritten code of the routine.  No hypothesis
   about the success of tree validation, NormalizeBlocks, sortBlocks, flattenBlocks, spilling, subroutine
   flattening or assembly. *)
Theorem C20_main_only_accepts_partial :
  forall (o : copts) (modes : opc -> bool * bool) (p : prog),
    p_subs p = [] -> o_opt_slots o = false ->
    (2 <=? o_version o)%N && (o_version o <=? 10)%N = true ->
    check_expr o None false (root_ast (p_main p)) = None ->
    has_bad_continue false (root_ast (p_main p)) = false ->
    nec (root_ast (p_main p)) = true ->
    exists cr, compile_one o None (p_main p) = COk cr /\
      (graph_subs (cr_graph cr) (cr_start cr) = [] ->
       forall crs' locals asg, assign_slots p [cr] = COk (crs', locals, asg) ->
       exists order code,
         sort_blocks (cr_graph cr) (cr_start cr) (cr_end cr) = Some order /\
         flatten_blocks (cr_graph cr) order = Some code /\
         (verify_ops o modes (map (prefix_labels "main_") (rw_code (look_of asg) code)) = None ->
          exists lines,
            assemble_all (main_comps (o_version o) (rw_code (look_of asg) code)) = Some lines /\
            compile_model o modes p = COk lines)).
Proof. exact main_only_accepts. Qed.
Print Assumptions C20_main_only_accepts_partial.

(* =========================================================================================== *)
(* 5. non-vacuity                                                                               *)
(* =========================================================================================== *)

(* a routine with a For nested in a While, Break and Continue in both, an If whose arms are Break and
   Continue, an Assert and a Cond: the hypotheses hold, cr / order / code come FROM the theorem, and the
   promised run is the computed one (DExit 1) *)
Theorem C20_late_passes_example :
  check_expr opts0 None false (root_ast late_ast) = None /\
  has_bad_continue false (root_ast late_ast) = false /\
  head_loop (root_ast late_ast) = false /\
  nec (root_ast late_ast) = true /\
  denote ex_env1 400 (root_ast late_ast) [] ex_st = DExit (VI 1) late_final /\
  exists cr order code,
    compile_one opts0 None late_ast = COk cr /\
    sort_blocks (cr_graph cr) (cr_start cr) (cr_end cr) = Some order /\
    flatten_blocks (cr_graph cr) order = Some code /\
    lstar ex_env1 code (LAt 0 [] ex_st) (LExit (VI 1) late_final).
Proof. exact late_passes_example. Qed.
Print Assumptions C20_late_passes_example.

Theorem C20_late_passes_computed :
  let cr := cr_of opts0 late_ast in
  compile_one opts0 None late_ast = COk cr /\
  sort_blocks (cr_graph cr) (cr_start cr) (cr_end cr) = Some (order_of cr) /\
  flatten_blocks (cr_graph cr) (order_of cr) = Some (code_of cr) /\
  List.length (order_of cr) = 15 /\ last (order_of cr) 1 = cr_end cr /\ List.length (code_of cr) = 58 /\
  lrun 2000 ex_env1 (code_of cr) (LAt 0 [] ex_st) = LExit (VI 1) late_final.
Proof. exact late_passes_computed. Qed.
Print Assumptions C20_late_passes_computed.

(* the same routine as a main-only program: the acceptance theorem applies and yields the 59 lines *)
Theorem C20_main_only_accepts_example :
  exists lines, compile_model opts0 all_modes late_prog = COk lines /\ List.length lines = 59.
Proof. exact main_only_accepts_example. Qed.
Print Assumptions C20_main_only_accepts_example.
