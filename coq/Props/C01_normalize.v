(* Props/C01_normalize.v — C01, stage "NormalizeBlocks": the block graph after
   TealBlock.NormalizeBlocks computes what the graph before it computes.
   Property theorems only; proofs live in Proofs/Normalize*.v and Proofs/IncomingProof.v.

   Observation = the halting configurations (return value + state, retsub stack + state, failure,
   falling off the graph, unsupported op) reachable from the start block, for every operand stack
   and machine state.  [normalize] is the faithful model of the CURRENT Python passes (Comp/Passes.v,
   after the repair 39fa261 of /repo); [normalize_pinned] is the code before that repair, kept as an
   explicitly defined variant (Comp/SimCheck.v) for the historical statements at the end. *)
From Coq Require Import List NArith.
From PV Require Import Base.Bytes AVM.Syntax AVM.Machine Src.Expr Src.Denote
  Comp.Blocks Comp.Passes Comp.GraphSem Comp.SimCheck
  Proofs.LowerFrame Proofs.NormalizeSem Proofs.NormalizeGraph Proofs.IncomingProof
  Proofs.NormalizeCorrect Proofs.NormalizeExamples Proofs.LowerShape Proofs.NormalizeLowered.
From PV Require Import Comp.Lower Comp.Compile.
Import ListNotations.

(* block.ops = prev.ops + block.ops: running a concatenation = running the parts in sequence; an
   early return / retsub / failure of the first part is the outcome of the whole *)
Theorem C01_exec_ops_app :
  forall (env : denv) (a b : list instr) (stk : list value) (st : mstate),
    exec_ops env (a ++ b) stk st =
    match exec_ops env a stk st with
    | BOk s' st' => exec_ops env b s' st'
    | r => r
    end.
Proof. intros env a. exact (exec_ops_app env a). Qed.
Print Assumptions C01_exec_ops_app.

(* pass 2, one step, ALL graphs: by-passing an empty single-successor block keeps the observable
   behaviour from every block, whatever the incoming lists contain (stale or not); the start moves to
   the successor when the by-passed block was the start *)
Theorem C01_norm_body2_preserves :
  forall (env : denv) (g : graph) (s w : id) (g' : graph) (s' : id),
    cond_full g -> norm_body2 g s w = (g', s') ->
    cond_full g' /\ equiv_from env (g_blk g) s (g_blk g') s' /\
    forall i, equiv_from env (g_blk g) i (g_blk g') i.
Proof. exact norm_body2_preserves. Qed.
Print Assumptions C01_norm_body2_preserves.

(* the graph-level fact behind it: re-pointing ANY set of edges that enter empty single-successor
   blocks to the successors *)
Theorem C01_skip_equiv :
  forall (env : denv) (G G' : bgraph), gskip G G' -> forall i, equiv_from env G i G' i.
Proof. exact skip_equiv. Qed.
Print Assumptions C01_skip_equiv.

(* pass 1, one step, ALL graphs satisfying the invariant (conditional blocks have both branches,
   incoming ⊇ predecessors on the reachable part, no edge into the start): the merge preserves
   behaviour from the start and re-establishes the invariant *)
Theorem C01_norm_body1_preserves :
  forall (env : denv) (g : graph) (s w : id) (g' : graph) (s' : id),
    cond_full g -> inc_covers g s -> g_inc g s = [] ->
    norm_body1 g s w = (g', s') ->
    equiv_from env (g_blk g) s (g_blk g') s' /\
    cond_full g' /\ inc_covers g' s' /\ g_inc g' s' = [].
Proof. exact norm_body1_preserves. Qed.
Print Assumptions C01_norm_body1_preserves.

(* the two-to-one simulation behind it, on bare graphs: G' = G with [prev]'s ops prepended to [blk]
   and edges into [prev] renamed to [blk] on an edge-closed set Lv of blocks in which [blk] has no
   predecessor other than [prev] *)
Theorem C01_merge_equiv :
  forall (env : denv) (G G' : bgraph) (prev blk : id) (pops : list instr) (bb : block) (Lv : id -> Prop),
    G prev = Some (BSimple pops (Some blk)) ->
    G blk = Some bb ->
    (forall i b x, Lv i -> G' i = Some b -> In x (outgoing b) -> Lv x) ->
    (forall i, Lv i -> i <> blk -> G' i = option_map (map_out (rd prev blk)) (G i)) ->
    (Lv blk -> G' blk = Some (map_out (rd prev blk) (set_ops bb (pops ++ b_ops bb)))) ->
    (forall i b, Lv i -> G i = Some b -> In blk (outgoing b) -> blk = prev) ->
    (Lv blk -> equiv_from env G prev G' blk) /\
    (forall i, Lv i -> i <> blk -> equiv_from env G i G' i).
Proof. exact merge_equiv. Qed.
Print Assumptions C01_merge_equiv.

(* MAIN: both passes of the current NormalizeBlocks, the BFS that mutates the graph it walks included *)
Theorem C01_normalize_correct :
  forall (env : denv) (g : graph) (s : id) (g' : graph) (s' : id),
    cond_full g ->
    inc_covers g s ->
    g_inc g s = [] ->
    normalize g s = (g', s') ->
    equiv_from env (g_blk g) s (g_blk g') s'.
Proof. exact normalize_correct. Qed.
Print Assumptions C01_normalize_correct.

(* the same with decidable hypotheses: [validate_tree] is the check the compiler itself runs right
   before NormalizeBlocks; completeness of the conditional blocks and the emptiness of the start
   block's incoming list are computed on the graph *)
Theorem C01_norm_cert_sound :
  forall (env : denv) (g : graph) (s : id) (g' : graph) (s' : id),
    wf g -> norm_cert g s = true -> normalize g s = (g', s') ->
    equiv_from env (g_blk g) s (g_blk g') s'.
Proof. exact norm_cert_sound. Qed.
Print Assumptions C01_norm_cert_sound.

(* from the graph as lowering leaves it: addIncoming, then NormalizeBlocks *)
Theorem C01_add_incoming_normalize_correct :
  forall (env : denv) (g : graph) (s : id) (g' : graph) (s' : id),
    wf g -> (forall b, g_inc g b = []) ->
    cond_full g ->
    (forall p, reach g s p -> ~ In s (out_of g p)) ->
    normalize (fst (add_incoming g s)) s = (g', s') ->
    equiv_from env (g_blk g) s (g_blk g') s'.
Proof. exact add_incoming_normalize_correct. Qed.
Print Assumptions C01_add_incoming_normalize_correct.

(* on LOWERED graphs no side condition on the graph is left: for every recipe e lowered as a whole
   routine (empty graph, no continuation, no enclosing loop), addIncoming + NormalizeBlocks preserve
   behaviour provided the recipe's start block is not a loop head — a syntactic condition
   ([head_loop], Proofs/LowerShape.v) that holds of every root compile_one builds around a loop *)
Theorem C01_lowered_normalize_correct :
  forall (env : denv) (o : copts) (c : lctx) (e : expr) (s en : id) (g0 g' : graph) (s' : id),
    l_brk c = None -> l_cont c = None ->
    head_loop e = false ->
    lower o c e None empty_graph = ((s, en), g0) ->
    normalize (fst (add_incoming g0 s)) s = (g', s') ->
    equiv_from env (g_blk g0) s (g_blk g') s'.
Proof. exact lowered_normalize_correct. Qed.
Print Assumptions C01_lowered_normalize_correct.

(* what lowering guarantees (one induction over the recipe): well-formed, conditional blocks complete,
   no incoming list written, and no edge into the start block unless the recipe is loop-headed *)
Theorem C01_lower_root_shape :
  forall (o : copts) (c : lctx) (e : expr) (s en : id) (g : graph),
    l_brk c = None -> l_cont c = None ->
    lower o c e None empty_graph = ((s, en), g) ->
    wf g /\ cond_full g /\ (forall x, g_inc g x = []) /\
    (head_loop e = false -> forall p, ~ In s (out_of g p)).
Proof. exact lower_root_shape. Qed.
Print Assumptions C01_lower_root_shape.

(* non-vacuity: the hypotheses hold of a loop graph that the pass does rewrite *)
Theorem C01_normalize_correct_nonvacuous :
  exists g s, wf g /\ cond_full g /\ inc_covers g s /\ g_inc g s = [] /\
              g_blk (fst (normalize g s)) <> g_blk g.
Proof. exact normalize_correct_nonvacuous. Qed.
Print Assumptions C01_normalize_correct_nonvacuous.

(* the remaining side condition is needed: a start block that has a predecessor which gets merged
   into it (compile_one never produces one: the root of a routine is never a loop) *)
Theorem C01_normalize_start_with_pred_refuted :
  exists g s,
    wf g /\ cond_full_check g = true /\ inc_covers g s /\ validate_tree g s = true /\
    let '(g', s') := normalize g s in
    ~ equiv_from env0 (g_blk g) s (g_blk g') s'.
Proof. exact normalize_start_with_pred_refuted. Qed.
Print Assumptions C01_normalize_start_with_pred_refuted.

(* ---- HISTORICAL: the code before the repair 39fa261 of /repo ([normalize_pinned]) ---- *)
(* it preserved behaviour as well (its defects were AssertionErrors, C20) on graphs whose
   conditional blocks have two DIFFERENT branches ... *)
Theorem C01_normalize_pinned_correct :
  forall (env : denv) (g : graph) (s : id) (g' : graph) (s' : id),
    cond_full g ->
    (forall p b, reach g s p -> g_blk g p = Some b -> dist_b b) ->
    inc_covers g s -> g_inc g s = [] ->
    normalize_pinned g s = (g', s') ->
    equiv_from env (g_blk g) s (g_blk g') s'.
Proof. exact normalize_pinned_correct. Qed.
Print Assumptions C01_normalize_pinned_correct.

(* ... and only on those: with the [elif] replacement a conditional block whose two branches
   coincide made pass 1 run the merged predecessor's ops twice *)
Theorem C01_normalize_pinned_double_edge_refuted :
  exists g s,
    wf g /\ cond_full g /\ inc_covers g s /\ g_inc g s = [] /\ validate_tree g s = true /\
    let '(g', s') := normalize_pinned g s in
    ~ equiv_from env0 (g_blk g) s (g_blk g') s'.
Proof. exact normalize_pinned_double_edge_refuted. Qed.
Print Assumptions C01_normalize_pinned_double_edge_refuted.
