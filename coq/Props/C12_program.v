(* Props/C12_program.v — C12, the WHOLE-PROGRAM statement: the program compiled with assembleConstants and the
   pseudo-op program behave identically on every context, state and fuel (reference machine AVM/Machine.v).
   Property theorems only; proofs: Proofs/ConstantsProgramMach.v (machine: frame lemma, relocation, lock step,
   block lines), ConstantsProgramLink.v (component lists -> programs), ConstantsProgram.v (composition),
   ConstantsProgramText.v (the printed texts), ConstantsProgramCompile.v (the compiler model's two texts),
   ConstantsProgramLiterals.v (Bytes(...) spellings are single tokens),
   ConstantsProgramExamples.v.

   Reading of a component list: [clink sigma msel ver code] = AVM.Parse.build_prog (the assembler's own label
   resolution) applied to the statements the assembler reads op by op ([ConstantsSpec.parsed_of]: one token per
   TealOp argument, everything after a "//" argument is comment, comment ops are comment lines), [ver] being the
   version in force before the first statement (the `#pragma version` line PyTeal prints in front).
   TEMPLATES: every argument spelled TMPL_* is replaced by [sigma] of it, in BOTH programs, before the assembler
   reads it ([ConstantsSpec.subst_tok]); sigma is universally quantified.  The known finding `addr TMPL_X`
   (the placeholder moves from an address context to a bytes context) is excluded by [input_ok]
   (its conjunct [no_addr_template_site]); [C12_addr_template_program_unlinkable] shows what happens there.
   INDEXES: [indexes_encodable out] is the boolean negated by the witness of C12_constant_index_encodable_refuted
   ([C12_encodable_excludes_refuted], [C12_refuted_case_excluded]).  The model's assembler and machine do not
   enforce the one-byte immediate of intc/bytec, so the PROOF does not use this hypothesis: it is in the statement
   because the real assembler rejects `intc 256`, i.e. outside it the program P' of the model has no real counterpart.
   COST: AVM/Machine.v has no opcode budget (fuel counts steps), so there is nothing to state "up to": one
   pseudo-op push is matched by exactly one load.  The only difference in step count is the |pro| block lines. *)
From Coq Require Import List NArith Ascii String Bool.
From PV Require Import Base.Bytes Base.Sexp AVM.Syntax AVM.Machine AVM.Parse
  Src.Expr Comp.Lower Comp.Compile
  Comp.Assemble Comp.Constants Comp.ConstantsSpec Proofs.C18Text Proofs.StageEText Proofs.ConstantsProof Proofs.ConstantsSim
  Proofs.ConstantsProgramMach Proofs.ConstantsProgramLink Proofs.ConstantsProgram
  Proofs.ConstantsProgramText Proofs.ConstantsProgramCompile Proofs.ConstantsProgramLiterals
  Proofs.ConstantsProgramExamples.
Import ListNotations.
Local Open Scope string_scope.

(* [F] FRAME LEMMA about Machine.step: on an instruction that is not one of the twelve constant-block opcodes
   (intcblock, intc, intc_0..3, bytecblock, bytec, bytec_0..3) — or past the end of the program — replacing the
   constant registers by any others changes nothing in the result but those registers, and the step leaves the
   registers as they were.  (Only those opcodes depend on or change m_intc / m_bytec.) *)
Theorem C12_step_frame :
  forall cx P m ib bb,
    (forall p, nth_error (pr_code P) (m_pc m) = Some p -> is_block_op (p_op p) = false) ->
    step cx P (set_consts m ib bb) = map_outcome (fun a => set_consts a ib bb) (step cx P m) /\
    match step cx P m with Running a | Done _ a => m_intc a = m_intc m /\ m_bytec a = m_bytec m end.
Proof. exact step_frame. Qed.
Print Assumptions C12_step_frame.

(* [F] RELOCATION + FRAME in one: the same non-block instruction at machines related by [mrel n] (pc and every
   return address moved by n, same stack / call stack / state; registers unrelated), in two programs whose label
   targets differ by n, steps to related machines with the same verdict. *)
Theorem C12_step_same_instr :
  forall cx P P' n m m' oi,
    labels_shift n P P' -> mrel n m m' ->
    nth_error (pr_code P) (m_pc m) = oi -> nth_error (pr_code P') (m_pc m') = oi ->
    (forall p, oi = Some p -> is_block_op (p_op p) = false) ->
    orel n m m' (step cx P m) (step cx P' m').
Proof. exact step_same_instr. Qed.
Print Assumptions C12_step_same_instr.

(* [F] THE WHOLE-PROGRAM THEOREM.  For all hash oracles, instantiations sigma, selector tables consistent with the
   hash, component lists ops (pseudo-op form) and out = createConstantBlocks ops, and programs P, P' linked from
   them (same initial version): if every constant site of ops assembles under sigma (input_ok), ops contains no
   constant-block opcode of its own (no_block_ops; necessary: C12_program_equiv_needs_no_block_ops) and the block
   indexes are encodable, then  out = pro ++ body  with pro the block lines establishing (ib, bb), and
   (1) from the initial machine of ANY state st and context cx, P' first executes exactly the |pro| block lines,
       reaching pc = |pro|, empty stack, registers (ib, bb), state st;
   (2) that machine is in lock-step relation with P's initial machine;
   (3) LOCK STEP: from any two machines related by [lockrel |pro| ib bb] (same stack, same state, same call
       stack and pc up to the shift |pro|, P' holding the blocks) one [step] of P and one [step] of P' either
       both continue to related machines or both stop with the SAME verdict at related machines;
   (4) hence for EVERY fuel k: run k of P and run (k + |pro|) of P' from the initial machine give the same
       verdict (approve / reject / fail / out-of-fuel / unsupported opcode) and related final machines.
   Also: same site-wise facts as C12_constants_sites_preserved, same program version. *)
Theorem C12_constants_program_equiv :
  forall (addr_hash : bytes -> bytes) (sig_hash : string -> bytes)
         (sigma : string -> string) (msel : list (string * bytes)),
    msel_consistent sig_hash msel ->
    forall ops out ver P P',
      create_constant_blocks addr_hash sig_hash ops = Some out ->
      input_ok sigma msel ops ->
      no_block_ops ops = true ->
      indexes_encodable out = true ->
      clink sigma msel ver ops = Some P ->
      clink sigma msel ver out = Some P' ->
      exists pro body ib bb,
        out = (pro ++ body)%list /\
        blocks_after sigma msel pro [] [] = Some (ib, bb) /\
        Forall2 (site_ok sigma msel ib bb) ops body /\
        pr_version P' = pr_version P /\
        (forall cx st k,
           run (k + List.length pro) cx P' (init_mach st) =
           run k cx P' (mkM (List.length pro) [] [] false ib bb st)) /\
        (forall st, lockrel (List.length pro) ib bb (init_mach st) (mkM (List.length pro) [] [] false ib bb st)) /\
        (forall cx m m', lockrel (List.length pro) ib bb m m' ->
           match step cx P m, step cx P' m' with
           | Running a, Running a' => lockrel (List.length pro) ib bb a a'
           | Done v a, Done v' a' => v' = v /\ lockrel (List.length pro) ib bb a a'
           | _, _ => False
           end) /\
        (forall cx st k,
           run_sim (List.length pro) ib bb (run k cx P (init_mach st)) (run (k + List.length pro) cx P' (init_mach st))).
Proof. exact constants_program_equiv. Qed.
Print Assumptions C12_constants_program_equiv.

(* what [run_sim] / [lockrel] / [mrel] say, spelled out: same verdict; same operand stack; same state (scratch,
   global/local/box storage, inner transactions, trace of effects); pc and return addresses shifted; P' holds the blocks *)
Theorem C12_run_sim_unfolded :
  forall n ib bb r r', run_sim n ib bb r r' ->
    fst r' = fst r /\
    m_stack (snd r') = m_stack (snd r) /\
    m_st (snd r') = m_st (snd r) /\
    m_pc (snd r') = (m_pc (snd r) + n)%nat /\
    m_calls (snd r') = map (shift_frame n) (m_calls (snd r)) /\
    m_from_callsub (snd r') = m_from_callsub (snd r) /\
    m_intc (snd r') = ib /\ m_bytec (snd r') = bb.
Proof.
  intros n ib bb r r' (Hv & [Rpc Rstk Rcalls Rfc Rst] & Hi & Hb). repeat split; assumption.
Qed.
Print Assumptions C12_run_sim_unfolded.

(* [F] the rewritten list links whenever the pseudo-op list does (labels are untouched) *)
Theorem C12_constants_link_total :
  forall addr_hash sig_hash sigma msel, msel_consistent sig_hash msel ->
  forall ops out ver P,
    create_constant_blocks addr_hash sig_hash ops = Some out ->
    input_ok sigma msel ops -> no_block_ops ops = true ->
    clink sigma msel ver ops = Some P ->
    exists P', clink sigma msel ver out = Some P'.
Proof. exact constants_link_total. Qed.
Print Assumptions C12_constants_link_total.

(* [F] the encodability hypothesis is the negation of the refuted statement's witness condition *)
Theorem C12_encodable_excludes_refuted :
  forall out i k, In (COp i) out -> long_index i = Some k -> (255 < k)%N -> indexes_encodable out = false.
Proof. exact encodable_excludes_refuted. Qed.
Print Assumptions C12_encodable_excludes_refuted.

Theorem C12_refuted_case_excluded :
  exists out, create_constant_blocks no_hash no_sig (witness_ints 257) = Some out /\ indexes_encodable out = false.
Proof. exact refuted_case_excluded. Qed.
Print Assumptions C12_refuted_case_excluded.

(* ---- non-vacuity: a loop, five repeated ints (7 stays pushint), a repeated template int (intc 4), a named
   constant, two byte strings in two spellings each, a method selector; the assembled lines are those of /repo ---- *)
Example C12_program_example_text :
  option_map assemble_all (create_constant_blocks no_hash ex_sig_hash ex_ops) = Some (assemble_all ex_out) /\
  nth_error ex_out 0 = Some (COp (mkI O_intcblock [AInt 1000; AInt 2000; AInt 3000; AInt 4000; AStr "TMPL_FEE"])) /\
  input_ok ex_sigma ex_msel ex_ops /\ msel_consistent ex_sig_hash ex_msel /\
  no_block_ops ex_ops = true /\ indexes_encodable ex_out = true /\
  clink ex_sigma ex_msel 8 ex_ops = Some ex_P /\ clink ex_sigma ex_msel 8 ex_out = Some ex_P'.
Proof.
  split; [rewrite ex_created; reflexivity|]. split; [reflexivity|]. split; [exact ex_input_ok|].
  split; [exact ex_msel_consistent|]. split; [exact ex_no_block_ops|]. split; [exact ex_indexes_encodable|].
  exact ex_links.
Qed.
Print Assumptions C12_program_example_text.

Example C12_program_example_equiv :
  forall cx st k,
    fst (run (k + 2) cx ex_P' (init_mach st)) = fst (run k cx ex_P (init_mach st)) /\
    m_stack (snd (run (k + 2) cx ex_P' (init_mach st))) = m_stack (snd (run k cx ex_P (init_mach st))) /\
    m_st (snd (run (k + 2) cx ex_P' (init_mach st))) = m_st (snd (run k cx ex_P (init_mach st))) /\
    m_pc (snd (run (k + 2) cx ex_P' (init_mach st))) = (m_pc (snd (run k cx ex_P (init_mach st))) + 2)%nat.
Proof. exact ex_program_equiv. Qed.
Print Assumptions C12_program_example_equiv.

Example C12_program_example_runs :
  fst (run 1000 ex_cx ex_P (init_mach ex_st)) = VApprove /\
  fst (run 1000 ex_cx ex_P' (init_mach ex_st)) = VApprove /\
  List.length (pr_code ex_P') = (List.length (pr_code ex_P) + 2)%nat /\
  label_pc ex_P "main_l1" = Some 2%nat /\ label_pc ex_P' "main_l1" = Some 4%nat.
Proof. exact ex_runs. Qed.
Print Assumptions C12_program_example_runs.

(* ---- necessity / excluded cases ---- *)
Example C12_program_equiv_needs_no_block_ops :
  exists out P P',
    create_constant_blocks no_hash no_sig stray_ops = Some out /\
    input_ok id_sigma [] stray_ops /\ indexes_encodable out = true /\
    no_block_ops stray_ops = false /\
    clink id_sigma [] 8 stray_ops = Some P /\ clink id_sigma [] 8 out = Some P' /\
    fst (run 100 ex_cx P (init_mach ex_st)) = VFail /\
    fst (run 100 ex_cx P' (init_mach ex_st)) = VApprove.
Proof. exact program_equiv_needs_no_block_ops. Qed.
Print Assumptions C12_program_equiv_needs_no_block_ops.

Example C12_addr_template_program_unlinkable :
  exists out P,
    create_constant_blocks no_hash no_sig (tmpl_addr_ops ++ [op O_pop []; op O_int [AInt 1]]) = Some out /\
    clink (fun _ => zero_address) [] 8 (tmpl_addr_ops ++ [op O_pop []; op O_int [AInt 1]]) = Some P /\
    fst (run 100 ex_cx P (init_mach ex_st)) = VApprove /\
    clink (fun _ => zero_address) [] 8 out = None.
Proof. exact addr_template_program_unlinkable. Qed.
Print Assumptions C12_addr_template_program_unlinkable.

(* ================================================================ the two TEXTS ================================== *)
(* [F for its class] The statement about the texts PyTeal prints.  ops in C01's class [printable] (StageEText.v:
   what C01_text_roundtrip covers), every byte literal ONE assembler token ([single_tok]; true of every Bytes(...)
   form), hence placeholder-free (a printable constant site is not a TMPL_ name — the text has to assemble as
   printed; sigma is the identity).  lines = `#pragma version v` + the lines of ops, P = what the assembler model
   (AVM.Parse.parse_program: line splitting, tokeniser, `//` comments, literal readers, label resolution) builds
   from that text.  Then the lines of `#pragma version v` + createConstantBlocks ops assemble, their text parses
   to a program P' — the `// literal` echo after each load is skipped as a comment whatever it contains, the block
   lines are read entry by entry — and P, P' satisfy the whole-program theorem above.
   Built on C01's per-component round trip (comp_lines, the core of C01_text_roundtrip) for every line the two texts
   share, plus: token-level reading = C01's reading on printable ops (agree_comp), lines `op word* // anything`
   (wordy_line), shape of createConstantBlocks' output (rewrite_comp_shape, ccb_shape). *)
Theorem C12_constants_text_equiv :
  forall (addr_hash : bytes -> bytes) (sig_hash : string -> bytes) (msel : list (string * bytes)),
    msel_consistent sig_hash msel ->
    forall v ops out lines P,
      create_constant_blocks addr_hash sig_hash ops = Some out ->
      printable msel ops = true -> single_tok ops = true ->
      input_ok id_sigma msel ops -> no_block_ops ops = true -> indexes_encodable out = true ->
      assemble_all (CPragma v :: ops) = Some lines ->
      parse_program msel (program_text lines) = Some P ->
      exists lines' P',
        assemble_all (CPragma v :: out) = Some lines' /\
        parse_program msel (program_text lines') = Some P' /\
        exists pro body ib bb,
          out = (pro ++ body)%list /\
          blocks_after id_sigma msel pro [] [] = Some (ib, bb) /\
          Forall2 (site_ok id_sigma msel ib bb) ops body /\
          pr_version P' = pr_version P /\
          (forall cx st k,
             run (k + List.length pro) cx P' (init_mach st) =
             run k cx P' (mkM (List.length pro) [] [] false ib bb st)) /\
          (forall st, lockrel (List.length pro) ib bb (init_mach st) (mkM (List.length pro) [] [] false ib bb st)) /\
          (forall cx m m', lockrel (List.length pro) ib bb m m' ->
             match step cx P m, step cx P' m' with
             | Running a, Running a' => lockrel (List.length pro) ib bb a a'
             | Done v a, Done v' a' => v' = v /\ lockrel (List.length pro) ib bb a a'
             | _, _ => False
             end) /\
          (forall cx st k,
             run_sim (List.length pro) ib bb (run k cx P (init_mach st)) (run (k + List.length pro) cx P' (init_mach st))).
Proof. exact constants_text_equiv. Qed.
Print Assumptions C12_constants_text_equiv.

(* [F for its class] ... for the texts the COMPILER MODEL prints.  Comp/Compile.v has NO assembleConstants option
   ([copts] has no such field; [compile_model] is the option-off pipeline), so the option-on path of compileTeal is
   written here over the same [compile_components] as [compile_model_constants] (Proofs/ConstantsProgramCompile.v:
   version >= 3 check, createConstantBlocks on the component list without the pragma, assembly).  comps = the
   component list behind both texts. *)
Theorem C12_constants_compiled_text_equiv :
  forall (addr_hash : bytes -> bytes) (sig_hash : string -> bytes) (msel : list (string * bytes)),
    msel_consistent sig_hash msel ->
    forall o modes p lines comps out P,
      compile_model o modes p = COk lines ->
      compile_components o modes p = COk (CPragma (o_version o) :: comps) ->
      (assemble_constants_min_version <= o_version o)%N ->
      create_constant_blocks addr_hash sig_hash comps = Some out ->
      printable msel comps = true -> single_tok comps = true ->
      input_ok id_sigma msel comps -> no_block_ops comps = true -> indexes_encodable out = true ->
      parse_program msel (program_text lines) = Some P ->
      exists lines' P',
        compile_model_constants addr_hash sig_hash o modes p = COk lines' /\
        parse_program msel (program_text lines') = Some P' /\
        exists pro body ib bb,
          out = (pro ++ body)%list /\
          blocks_after id_sigma msel pro [] [] = Some (ib, bb) /\
          Forall2 (site_ok id_sigma msel ib bb) comps body /\
          pr_version P' = pr_version P /\
          (forall cx st k,
             run (k + List.length pro) cx P' (init_mach st) =
             run k cx P' (mkM (List.length pro) [] [] false ib bb st)) /\
          (forall cx m m', lockrel (List.length pro) ib bb m m' ->
             match step cx P m, step cx P' m' with
             | Running a, Running a' => lockrel (List.length pro) ib bb a a'
             | Done v a, Done v' a' => v' = v /\ lockrel (List.length pro) ib bb a a'
             | _, _ => False
             end) /\
          (forall cx st k,
             run_sim (List.length pro) ib bb (run k cx P (init_mach st)) (run (k + List.length pro) cx P' (init_mach st))).
Proof. exact constants_compiled_text_equiv. Qed.
Print Assumptions C12_constants_compiled_text_equiv.

(* compile_components always returns the pragma in front (so the second hypothesis above only names comps) *)
Theorem C12_compile_components_pragma :
  forall o modes p cs, compile_components o modes p = COk cs -> exists comps, cs = CPragma (o_version o) :: comps.
Proof. exact compile_components_pragma. Qed.
Print Assumptions C12_compile_components_pragma.

(* [F] ingredients worth a name: the token-level reading of C12 and C01's reading agree on printable ops;
   a line `op word* // anything` is read as `op word*` *)
Theorem C12_token_reading_agrees_with_C01 :
  forall msel c, printable_comp msel c = true -> single_tok_comp c = true ->
    cstmt_of id_sigma msel c = Proofs.StageELink.stmt_of msel c.
Proof. exact agree_comp. Qed.
Print Assumptions C12_token_reading_agrees_with_C01.

Theorem C12_load_line_reads_back :
  forall msel o pre tail,
    comment_op o = false -> forallb wordy_arg pre = true ->
    (tail = [] \/ exists orig, tail = AStr "//" :: orig /\ Forall nonl_arg orig) ->
    exists line, assemble_instr (mkI o (pre ++ tail)) = Some line /\ nonl_str line /\
      forall ss, cstmt_of id_sigma msel (COp (mkI o (pre ++ tail))) = Some ss -> line_stmts msel line = Some ss.
Proof. exact wordy_line. Qed.
Print Assumptions C12_load_line_reads_back.

(* [F] the hypothesis [single_tok] holds for every spelling the Bytes(...) constructors print (C13's model
   Lit/BaseN.v: utf-8 string with escapes, raw bytes, base32, base64, base16) *)
Theorem C12_bytes_literals_single_token :
  forall a s, Lit.BaseN.bytes_payload a = Some s -> single_tok_instr (mkI O_byte [AStr s]) = true.
Proof. exact bytes_literal_single_tok. Qed.
Print Assumptions C12_bytes_literals_single_token.

(* ---- non-vacuity, text level: the example program without its placeholder; hypotheses hold by computation ---- *)
Example C12_text_example :
  (create_constant_blocks no_hash ex_sig_hash ex_ops_t = Some ex_out_t /\
   printable ex_msel ex_ops_t = true /\ single_tok ex_ops_t = true /\
   no_block_ops ex_ops_t = true /\ indexes_encodable ex_out_t = true /\
   assemble_all (CPragma 8 :: ex_ops_t) = Some ex_lines_t /\
   parse_program ex_msel (program_text ex_lines_t) = Some ex_Pt) /\
  input_ok id_sigma ex_msel ex_ops_t /\
  exists lines' P',
    assemble_all (CPragma 8 :: ex_out_t) = Some lines' /\
    parse_program ex_msel (program_text lines') = Some P' /\
    nth_error lines' 1 = Some "intcblock 1000 2000 3000 4000 5000" /\
    nth_error lines' 29 = Some "intc 4 // 5000" /\
    forall cx st k, fst (run (k + 2) cx P' (init_mach st)) = fst (run k cx ex_Pt (init_mach st)) /\
                    m_stack (snd (run (k + 2) cx P' (init_mach st))) = m_stack (snd (run k cx ex_Pt (init_mach st))) /\
                    m_st (snd (run (k + 2) cx P' (init_mach st))) = m_st (snd (run k cx ex_Pt (init_mach st))).
Proof. split; [exact ex_text_hyps|]. split; [exact ex_input_ok_t|exact ex_text_equiv]. Qed.
Print Assumptions C12_text_example.

(* ---- non-vacuity, compiler level: a source program (loop, a byte literal whose echo contains `;`, `//` and escaped
   quotes used twice, 1000 four times, 0 twice); both texts are line for line those of compileTeal on /repo ---- *)
Example C12_compiled_example_texts :
  compile_model cc_opts opc_modes cc_prog =
  COk ["#pragma version 6"; "int 0"; "store 7"; "int 0"; "store 0"; "main_l1:"; "load 0"; "int 3"; "<"; "bz main_l3";
       "load 7"; "byte ""a;b // \""q\""\n"""; "len"; "+"; "byte ""a;b // \""q\""\n"""; "len"; "+"; "int 1000"; "+";
       "store 7"; "load 0"; "int 1"; "+"; "store 0"; "b main_l1"; "main_l3:"; "load 7"; "int 1000"; "int 1000"; "+";
       "int 1000"; "+"; "int 66"; "+"; "=="; "return"] /\
  compile_model_constants no_hash no_sig cc_opts opc_modes cc_prog =
  COk ["#pragma version 6"; "intcblock 1000 0"; "bytecblock 0x613b62202f2f202271220a"; "intc_1 // 0"; "store 7";
       "intc_1 // 0"; "store 0"; "main_l1:"; "load 0"; "pushint 3 // 3"; "<"; "bz main_l3"; "load 7";
       "bytec_0 // ""a;b // \""q\""\n"""; "len"; "+"; "bytec_0 // ""a;b // \""q\""\n"""; "len"; "+";
       "intc_0 // 1000"; "+"; "store 7"; "load 0"; "pushint 1 // 1"; "+"; "store 0"; "b main_l1"; "main_l3:"; "load 7";
       "intc_0 // 1000"; "intc_0 // 1000"; "+"; "intc_0 // 1000"; "+"; "pushint 66 // 66"; "+"; "=="; "return"].
Proof. exact cc_texts. Qed.
Print Assumptions C12_compiled_example_texts.

Example C12_compiled_example_equiv :
  exists lines' P',
    compile_model_constants no_hash no_sig cc_opts opc_modes cc_prog = COk lines' /\
    parse_program [] (program_text lines') = Some P' /\
    fst (run 1000 ex_cx cc_P (init_mach ex_st)) = VApprove /\
    fst (run 1000 ex_cx P' (init_mach ex_st)) = VApprove /\
    forall cx st k, fst (run (k + 2) cx P' (init_mach st)) = fst (run k cx cc_P (init_mach st)) /\
                    m_stack (snd (run (k + 2) cx P' (init_mach st))) = m_stack (snd (run k cx cc_P (init_mach st))) /\
                    m_st (snd (run (k + 2) cx P' (init_mach st))) = m_st (snd (run k cx cc_P (init_mach st))).
Proof. exact cc_text_equiv. Qed.
Print Assumptions C12_compiled_example_equiv.
