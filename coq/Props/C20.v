(* Props/C20.v — "Compilation is total: TEAL or a PyTeal error, never a crash".
   Property theorems only; proofs live in Proofs/Totality*.v.

   Status of the statement on the faithful model (Comp/*.v, tied to /repo by harness/c20.py):
     R  [walk_depth_unbounded]      the recursive walks need a stack as deep as the program is long:
                                    for every bound there is a well-typed straight-line program beyond it,
                                    which the (stack-less) model accepts — the implementation raises
                                    RecursionError on it (known finding "long-program-recursion");
     -  [optimizer_witness_now_accepted] the second refutation of the design (the optimiser's structural block
                                    comparison diverges on a cycle of conditional blocks => RecursionError) was
                                    repaired in /repo (commit f003506); the former witness is recorded;
     P  [accepts_well_typed_partial] acceptance proved for the straight-line fragment, unbounded in length
                                    and nesting depth, every version/mode/option (see below for the gap);
     -  the third refutation of the design (a loop as first statement => AssertionError in NormalizeBlocks)
        is no longer a theorem either: /repo was repaired (commit 39fa261) and the model follows the code;
        [loop_first_now_accepted] records the former witness.  The tree-validity theorems of
        addIncoming / validateTree / NormalizeBlocks for ARBITRARY graphs belong to Props/C20_tree.v
        (another file of this property, proofs in Proofs/IncomingProof.v, Proofs/NormalizeCorrect.v). *)
From Coq Require Import List NArith String Bool.
From PV Require Import Base.Bytes AVM.Syntax Src.Expr Src.WellTyped Comp.Blocks Comp.Lower Comp.Passes Comp.Compile
  Gen.Tables Extract.WireExpr
  Proofs.TotalityChain Proofs.TotalityWalk Proofs.TotalityAccept Proofs.TotalityWitness.
Import ListNotations.

(* ------------------------------------------------------------------------------------------------
   1. Recursion depth.  For EVERY program of the straight-line fragment that ends in a return, the
   depth of addIncoming's recursion (second component of the model's [add_incoming]) on the lowered
   graph is the number of blocks of the program minus one — one Python frame per operator node and
   per Seq.  ([blocks]: Proofs/TotalityChain.v.) *)
Theorem walk_depth_is_program_length :
  forall (o : copts) (modes : opc -> bool * bool) (e : expr),
    straight o (okop o modes) e = true -> has_return e = true ->
    let r := lower o (mkL None None None main_param) e None empty_graph in
    snd (add_incoming (snd r) (fst (fst r))) = blocks e - 1.
Proof.
  intros o modes e ST HR.
  destruct (compile_one_straight o modes e ST HR) as (g & ops & _ & _ & _ & D). exact D.
Qed.
Print Assumptions walk_depth_is_program_length.

(* The property demands acceptance "irrespective of how long the program is".  For every version
   2..10, mode, option setting and every bound L there is a well-typed (constructor checks), straight-line
   program — Seq(Pop(Int(0)) x n, Approve()) — whose walk is deeper than L, and which the model accepts.
   An implementation that walks the graph recursively on a bounded stack therefore rejects a
   well-typed program with a non-PyTeal exception, whatever the bound. *)
Theorem walk_depth_unbounded :
  forall (v : N) (app ss fp : bool), (2 <= v)%N -> (v <= 10)%N ->
  forall L : nat,
  exists e : expr,
    wt e = true /\
    straight (std_opts v app ss fp) (okop (std_opts v app ss fp) gen_modes) e = true /\
    (let r := lower (std_opts v app ss fp) (mkL None None None main_param) e None empty_graph in
     L < snd (add_incoming (snd r) (fst (fst r)))) /\
    (exists lines, compile_model (std_opts v app ss fp) gen_modes (mkProgram e [] []) = COk lines).
Proof.
  intros v app ss fp V1 V2 L.
  destruct (std_ok v app ss fp V1 V2) as (K1 & K2 & K3).
  exists (long_prog L). split; [apply wt_long|]. split; [apply straight_long; assumption|]. split.
  - cbv zeta. rewrite (walk_depth_long (std_opts v app ss fp) gen_modes K1 K2 K3 L). Lia.lia.
  - apply (accepts_straight (std_opts v app ss fp) gen_modes (mkProgram (long_prog L) [] [])).
    + exact V1.
    + exact V2.
    + apply straight_long; assumption.
    + apply has_return_long.
Qed.
Print Assumptions walk_depth_unbounded.

(* ------------------------------------------------------------------------------------------------
   2. Acceptance (partial).  FRAGMENT: the main routine is built from operator nodes with plain
   immediates (Int, Bytes, Txn/Global fields, arithmetic, comparisons, Pop, Log, ... any arity and
   nesting depth), NaryExpr, Seq nested to any depth, Approve/Reject/ExitProgram and Return(e) —
   [straight]; it ends in a return; every operator is available at the target version and mode per
   the tables in [o]/[modes] and is not a scratch load/store — [okop].  For every such program, of any
   length, at every version 2..10, in both modes, with and without the scratch-slot optimiser and frame
   pointers, and whatever subroutine/slot tables accompany it, the model returns TEAL.
   MISSING for the general statement: conditionals and loops (where NormalizeBlocks does real work:
   the general tree-validity invariant is the subject of Props/C20_tree.v), scratch variables (slot
   assignment and validateSlots with a non-empty slot set, the optimiser's cancellation), subroutines
   (spilling, resolution), MultiValue, WideRatio, Assert. *)
Theorem accepts_well_typed_partial :
  forall (o : copts) (modes : opc -> bool * bool) (p : prog),
    (2 <= o_version o)%N -> (o_version o <= 10)%N ->
    straight o (okop o modes) (p_main p) = true -> has_return (p_main p) = true ->
    exists lines, compile_model o modes p = COk lines.
Proof. exact accepts_straight. Qed.
Print Assumptions accepts_well_typed_partial.

(* non-vacuity: a nested, well-typed member of the fragment under the generated tables *)
Example fragment_member :
  let e := ESeq [pop_int 7;
                 ESeq [EOp O_pop [] TNone [ENary O_add TUint [int_ 1; EOp O_minus [] TUint [int_ 9; int_ 2]; int_ 3]]];
                 EReturn (Some (EOp O_lt [] TUint [EOp O_txn [AStr "Fee"] TUint []; int_ 5]))] in
  wt e = true /\ has_return e = true /\
  forallb (fun v => straight (std_opts v true false false) (okop (std_opts v true false false) gen_modes) e) versions = true.
Proof. vm_compute. repeat split; reflexivity. Qed.

(* ------------------------------------------------------------------------------------------------
   3. The optimiser.  The design refuted totality a second time: on a loop whose cycle consists of
   conditional blocks only, with a store/load pair in the loop condition, the optimiser's STRUCTURAL block
   comparison (TealConditionalBlock.__eq__ has no cycle guard) did not terminate => RecursionError.
   /repo was repaired (commit f003506: the current block is located by identity) and the model follows
   the code, so the refutation is no longer a theorem about the current model.  What remains checkable:
   the former witness is accepted at every version with the optimiser on, and the predicate describing
   the PINNED comparison ([eq_diverges], kept in Comp/Passes.v) still holds on the witness's graph for a
   block that carries a store/load candidate — the exact condition under which the pinned code crashed. *)
Example optimizer_witness_now_accepted :
  wt (p_main opt_witness) = true /\
  forallb (fun v => is_ok (compile_model (std_opts v true true (N.leb 8 v)) gen_modes opt_witness)) versions = true.
Proof. vm_compute. split; reflexivity. Qed.

Example optimizer_pinned_comparison_diverged :
  match compile_one (std_opts 9 true true true) None (p_main opt_witness) with
  | COk cr =>
      existsb (fun b => eq_diverges (cr_graph cr) b &&
                        existsb (fun i => is_op i O_store) (get_ops (cr_graph cr) b) &&
                        existsb (fun i => is_op i O_load) (get_ops (cr_graph cr) b))
              (iterate (cr_graph cr) (cr_start cr))
  | CErr _ => false
  end = true.
Proof. vm_compute. reflexivity. Qed.

(* ------------------------------------------------------------------------------------------------
   4. Former refutation, now an accepted program: a loop as the first statement. *)
Example loop_first_now_accepted :
  wt (p_main loop_first_witness) = true /\
  forallb (fun v => is_ok (compile_model (std_opts v true (N.leb 9 v) (N.leb 8 v)) gen_modes loop_first_witness)) versions = true.
Proof. vm_compute. split; reflexivity. Qed.
