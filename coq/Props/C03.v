(* Props/C03.v — Compile options change cost and shape, never behaviour: the scratch-slot optimiser.
   Property theorems only; proofs live in Proofs/OptimizeSem.v (semantic core), Proofs/OptimizeCorrect.v
   (the passes of pyteal/compiler/optimizer/optimizer.py as modelled in Comp/Passes.v) and
   Proofs/OptimizeOptions.v (version-dependent defaults).

   Reading guide.
   * A routine is a block graph g with start block [start]; [iterate g start] is TealBlock.Iterate(start).
     Ops carry slot OBJECTS ([ASlot u]); an environment [env] numbers them ([e_asg env u] = scratch cell).
     [star env (g_blk g) c d]: the block-graph semantics of Comp/GraphSem.v runs from configuration c to d;
     the halting configurations are GExit v st (return), GRet stk st (retsub: the whole stack goes back),
     GEnd stk st (left a block without successor), GFail, GUnsup o.
   * [conf_eqx C c d]: same kind of configuration, same block, SAME STACK / return value, and states that
     agree on trace, global/local/box state, inner transactions and on every scratch cell outside the
     set C.  C is always the set of cells of the variables the optimiser removed — cells no user-numbered
     slot can have (requested ids are in the skip set).
   * [keep_op l i] = the filter of _remove_extraneous_slot_access for the removed set l;
     [paired l ops]: every op the filter deletes from ops is half of an adjacent `store s; load s`, s in l.
   * [ids_bounded g start]: the start and all successors of allocated blocks are below the id counter;
     [slot_ops_wf g order]: every load/store op carries exactly one argument, a slot object.
   * The DYNAMIC side conditions, [safe_from (PL env L) env (g_blk g) c0], say that along every execution
     from c0, at every executed op: (1) a store of a slot in L finds a value on the stack; (2) a scratch
     cell of a slot in L is read only by the direct load of a slot in L — not by `loads` with that run-time
     index, not by a load with a literal number, not by the load of another variable that received the same
     number.  The compiler guarantees (2) because slots reachable through an index (`int <slot>`
     placeholders of DynamicScratchVar), reserved ids and slots shared between routines are in
     OptimizeOptions._skip_slots (Compile.skip_slots) and the slot assignment is injective; it guarantees
     (1) by stack discipline (C05).  [PL_static] gives a static sufficient condition for (2).
   * [removed_slot g g' start u]: u has a load in g and none in g' (the slots whose accesses were cancelled).
   * [no_orphan_store g g' start]: each removed slot has at most one store op in g.  THE CODE DOES NOT
     CHECK THIS; it is exactly the class predicate of the known finding "optimizer-orphan-store":
     Compile.opt_orphans o p = [] implies it ([C03_opt_orphans_nil_no_orphan_store]). *)
From Coq Require Import List Arith NArith String Bool.
From PV Require Import Base.Bytes Base.Sexp AVM.Syntax AVM.Machine Src.Expr Src.Denote
  Comp.Blocks Comp.Lower Comp.Passes Comp.GraphSem Comp.SimCheck Comp.Compile
  Extract.Wire Extract.WireExpr Gen.Tables
  Proofs.OptimizeSem Proofs.OptimizeCorrect Proofs.OptimizeOptions.
Import ListNotations.

(* ---- (F) the cancellation itself: one slot, all graphs ------------------------------------------- *)
(* If, in the blocks TealBlock.Iterate visits, the ONLY load/store ops of slot s are one `store s`
   immediately followed by one `load s` in block b0, then deleting both preserves every halting
   configuration reachable from the start, in both directions, up to scratch cell [e_asg env s]. *)
Theorem C03_opt_cancel_sound :
  forall env g start s b0 pre post,
    ids_bounded g start ->
    In b0 (iterate g start) ->
    get_ops g b0 = pre ++ mkI O_store [ASlot s] :: mkI O_load [ASlot s] :: post ->
    (forall i, In i (pre ++ post) -> keep_op [s] i = true) ->
    (forall b i, In b (iterate g start) -> b <> b0 -> In i (get_ops g b) -> keep_op [s] i = true) ->
    forall stk st,
      safe_from (PL env (eq s)) env (g_blk g) (GAt start stk st) ->
      forall c, halting c ->
        (star env (g_blk g) (GAt start stk st) c ->
           exists c', star env (g_blk (remove_slot_access g start [s])) (GAt start stk st) c' /\
                      conf_eqx (fun x => x = e_asg env s) c c') /\
        (star env (g_blk (remove_slot_access g start [s])) (GAt start stk st) c ->
           exists c0, star env (g_blk g) (GAt start stk st) c0 /\ conf_eqx (fun x => x = e_asg env s) c0 c).
Proof. exact opt_cancel_sound. Qed.
Print Assumptions C03_opt_cancel_sound.

(* (F) a set of slots removed together, each access of which is half of a cancelling pair *)
Theorem C03_remove_slot_access_sound :
  forall env g start l,
    ids_bounded g start ->
    (forall b, In b (iterate g start) -> paired l (get_ops g b)) ->
    inj_on env (fun s => In s l) ->
    forall stk st,
      safe_from (PL env (fun s => In s l)) env (g_blk g) (GAt start stk st) ->
      forall c, halting c ->
        (star env (g_blk g) (GAt start stk st) c ->
           exists c', star env (g_blk (remove_slot_access g start l)) (GAt start stk st) c' /\
                      conf_eqx (cellsL env (fun s => In s l)) c c') /\
        (star env (g_blk (remove_slot_access g start l)) (GAt start stk st) c ->
           exists c0, star env (g_blk g) (GAt start stk st) c0 /\ conf_eqx (cellsL env (fun s => In s l)) c0 c).
Proof. exact remove_slot_access_sound. Qed.
Print Assumptions C03_remove_slot_access_sound.

(* ---- (P) apply_global_optimizations -------------------------------------------------------------- *)
(* Whatever the per-block fixpoint loops do, the optimised routine reaches exactly the halting
   configurations of the original (same stack at every exit, same return value, same trace and state,
   same scratch except the removed variables' cells) PROVIDED no removed slot has a second store.
   Partial: [no_orphan_store] is a hypothesis the code does not establish ([C03_optimizer_refuted]);
   everything else the statement needs from the optimiser (adjacent pair, no other load — DepNo of
   _has_load_dependencies) is derived from what the code checks. *)
Theorem C03_optimize_routine_sound_partial :
  forall env g start skip g',
    optimize_routine g start skip = Some g' ->
    ids_bounded g start ->
    slot_ops_wf g (iterate g start) ->
    no_orphan_store g g' start ->
    inj_on env (removed_slot g g' start) ->
    forall stk st,
      safe_from (PL env (removed_slot g g' start)) env (g_blk g) (GAt start stk st) ->
      forall c, halting c ->
        (star env (g_blk g) (GAt start stk st) c ->
           exists c', star env (g_blk g') (GAt start stk st) c' /\
                      conf_eqx (cellsL env (removed_slot g g' start)) c c') /\
        (star env (g_blk g') (GAt start stk st) c ->
           exists c0, star env (g_blk g) (GAt start stk st) c0 /\
                      conf_eqx (cellsL env (removed_slot g g' start)) c0 c).
Proof. exact optimize_routine_sound_partial. Qed.
Print Assumptions C03_optimize_routine_sound_partial.

(* (P) the same for one call of _apply_slot_to_stack and for the per-block fixpoint loop *)
Theorem C03_apply_slot_to_stack_sound_partial :
  forall env g start cur skip g',
    apply_slot_to_stack g start cur skip = Some g' ->
    In cur (iterate g start) ->
    ids_bounded g start ->
    slot_ops_wf g (iterate g start) ->
    no_orphan_store g g' start ->
    inj_on env (removed_slot g g' start) ->
    forall stk st,
      safe_from (PL env (removed_slot g g' start)) env (g_blk g) (GAt start stk st) ->
      forall c, halting c ->
        (star env (g_blk g) (GAt start stk st) c ->
           exists c', star env (g_blk g') (GAt start stk st) c' /\
                      conf_eqx (cellsL env (removed_slot g g' start)) c c') /\
        (star env (g_blk g') (GAt start stk st) c ->
           exists c0, star env (g_blk g) (GAt start stk st) c0 /\
                      conf_eqx (cellsL env (removed_slot g g' start)) c0 c).
Proof. exact apply_slot_to_stack_sound_partial. Qed.
Print Assumptions C03_apply_slot_to_stack_sound_partial.

Theorem C03_opt_block_loop_sound_partial :
  forall env n g start cur skip g',
    opt_block_loop n g start cur skip = Some g' ->
    In cur (iterate g start) ->
    ids_bounded g start ->
    slot_ops_wf g (iterate g start) ->
    no_orphan_store g g' start ->
    inj_on env (removed_slot g g' start) ->
    forall stk st,
      safe_from (PL env (removed_slot g g' start)) env (g_blk g) (GAt start stk st) ->
      forall c, halting c ->
        (star env (g_blk g) (GAt start stk st) c ->
           exists c', star env (g_blk g') (GAt start stk st) c' /\
                      conf_eqx (cellsL env (removed_slot g g' start)) c c') /\
        (star env (g_blk g') (GAt start stk st) c ->
           exists c0, star env (g_blk g) (GAt start stk st) c0 /\
                      conf_eqx (cellsL env (removed_slot g g' start)) c0 c).
Proof. exact opt_block_loop_sound_partial. Qed.
Print Assumptions C03_opt_block_loop_sound_partial.

(* (F) the hypothesis is the class predicate of the known finding: for every routine of a program whose
   [opt_orphans] list is empty, [no_orphan_store] holds *)
Theorem C03_opt_orphans_nil_no_orphan_store :
  forall o p crs c g',
    compile_rec (S (List.length (p_subs p))) o p None (p_main p) [] = COk crs ->
    In c crs ->
    optimize_routine (cr_graph c) (cr_start c) (skip_slots p crs) = Some g' ->
    slot_ops_wf (cr_graph c) (iterate (cr_graph c) (cr_start c)) ->
    opt_orphans o p = [] ->
    no_orphan_store (cr_graph c) g' (cr_start c).
Proof. exact opt_orphans_nil_no_orphan_store. Qed.
Print Assumptions C03_opt_orphans_nil_no_orphan_store.

(* (P) the two together, in pipeline form *)
Theorem C03_compiled_routine_optimizer_sound_partial :
  forall env o p crs c g',
    compile_rec (S (List.length (p_subs p))) o p None (p_main p) [] = COk crs ->
    In c crs ->
    optimize_routine (cr_graph c) (cr_start c) (skip_slots p crs) = Some g' ->
    opt_orphans o p = [] ->
    ids_bounded (cr_graph c) (cr_start c) ->
    slot_ops_wf (cr_graph c) (iterate (cr_graph c) (cr_start c)) ->
    inj_on env (removed_slot (cr_graph c) g' (cr_start c)) ->
    forall stk st,
      safe_from (PL env (removed_slot (cr_graph c) g' (cr_start c))) env (g_blk (cr_graph c)) (GAt (cr_start c) stk st) ->
      forall x, halting x ->
        (star env (g_blk (cr_graph c)) (GAt (cr_start c) stk st) x ->
           exists x', star env (g_blk g') (GAt (cr_start c) stk st) x' /\
                      conf_eqx (cellsL env (removed_slot (cr_graph c) g' (cr_start c))) x x') /\
        (star env (g_blk g') (GAt (cr_start c) stk st) x ->
           exists x0, star env (g_blk (cr_graph c)) (GAt (cr_start c) stk st) x0 /\
                      conf_eqx (cellsL env (removed_slot (cr_graph c) g' (cr_start c))) x0 x).
Proof. exact compiled_routine_optimizer_sound. Qed.
Print Assumptions C03_compiled_routine_optimizer_sound_partial.

(* (F) static sufficient condition for the "reads" half of the dynamic hypothesis *)
Theorem C03_PL_static :
  forall env (L : N -> Prop) i stk,
    i_op i <> O_loads ->
    (i_op i = O_load -> exists u, i_args i = [ASlot u] /\ (L u \/ ~ cellsL env L (e_asg env u))) ->
    (forall s, L s -> i = mkI O_store [ASlot s] -> stk <> []) ->
    PL env L i stk.
Proof. exact PL_static. Qed.
Print Assumptions C03_PL_static.

(* ---- (R) the optimiser is NOT sound: a second store of the cancelled slot ----------------------- *)
(* def f(): x.store(Int(1)); x.store(Int(2)); return x.load()   — the graph [rf_g] is what the model of
   compileSubroutine produces for it ([rf_g_is_the_lowering]).  optimize_routine deletes both stores
   and the load: the routine hands [2; 1] back to its caller instead of [2].  The witness satisfies every
   hypothesis of the soundness theorem except [no_orphan_store]. *)
Theorem C03_optimizer_refuted :
  exists (g : graph) (start : id) (skip : list N) (g' : graph) (env : denv) (st : mstate)
         (stk1 : list value) (st1 : mstate) (stk2 : list value) (st2 : mstate),
    ids_bounded g start /\ slot_ops_wf g (iterate g start) /\
    optimize_routine g start skip = Some g' /\
    star env (g_blk g) (GAt start [] st) (GRet stk1 st1) /\
    star env (g_blk g') (GAt start [] st) (GRet stk2 st2) /\
    stk1 <> stk2 /\
    (~ exists c', star env (g_blk g') (GAt start [] st) c' /\ conf_eqx (fun _ => True) (GRet stk1 st1) c') /\
    ~ no_orphan_store g g' start.
Proof. exact optimizer_refuted. Qed.
Print Assumptions C03_optimizer_refuted.

(* ---- (F) the optimiser touches nothing but load/store ops of removed slots ---------------------- *)
Theorem C03_optimizer_preserves_non_slot_ops :
  forall g start l,
    let g' := remove_slot_access g start l in
    g_next g' = g_next g /\ g_inc g' = g_inc g /\
    (forall b, match g_blk g b, g_blk g' b with
               | Some bb, Some bb' => same_shape bb bb'
               | None, None => True
               | _, _ => False
               end) /\
    (forall b, out_of g' b = out_of g b) /\
    iterate g' start = iterate g start /\
    (forall b, get_ops g' b = if mem_id b (iterate g start) then filter (keep_op l) (get_ops g b) else get_ops g b) /\
    (forall i, keep_op l i = false <->
               (i_op i = O_store \/ i_op i = O_load) /\ (forall s, In s (instr_slots i) -> In s l)).
Proof. exact optimizer_preserves_non_slot_ops. Qed.
Print Assumptions C03_optimizer_preserves_non_slot_ops.

(* for a load/store of the usual form the deleted ops are the loads and stores of removed slots *)
Theorem C03_keep_op_false_wf :
  forall l i u, i_args i = [ASlot u] ->
    (keep_op l i = false <-> (i = mkI O_store [ASlot u] \/ i = mkI O_load [ASlot u]) /\ In u l).
Proof. exact keep_op_false_wf. Qed.
Print Assumptions C03_keep_op_false_wf.

Theorem C03_optimize_routine_preserves_non_slot_ops :
  forall g start skip g',
    optimize_routine g start skip = Some g' ->
    g_next g' = g_next g /\ g_inc g' = g_inc g /\
    (forall b, out_of g' b = out_of g b) /\
    iterate g' start = iterate g start /\
    (forall b, exists keep : instr -> bool,
        get_ops g' b = filter keep (get_ops g b) /\
        forall i, keep i = false -> i_op i = O_store \/ i_op i = O_load).
Proof. exact optimize_routine_preserves_non_slot_ops. Qed.
Print Assumptions C03_optimize_routine_preserves_non_slot_ops.

(* (F) TealBlock.Iterate visits the start and is closed under successors (so the filter reaches every
   block an execution can reach), and visits no block twice *)
Theorem C03_iterate_closed :
  forall g start, ids_bounded g start ->
    In start (iterate g start) /\
    (forall p x, In p (iterate g start) -> In x (out_of g p) -> In x (iterate g start)).
Proof. exact iterate_closed. Qed.
Print Assumptions C03_iterate_closed.

(* ---- (F) version-dependent defaults ------------------------------------------------------------- *)
Theorem C03_options_resolved :
  forall body v m ss fp v' ss' fp',
    field "version"%string body = Some [v] -> field "mode"%string body = Some [Atom m] ->
    field "scratch-slots"%string body = Some [ss] -> field "frame-pointers"%string body = Some [fp] ->
    w_N v = Some v' -> w_tri ss = Some ss' -> w_tri fp = Some fp' ->
    match resolve_frame_pointers fp' v' with
    | None => w_opts body = Some (inr ErrInput)
    | Some f =>
        exists o, w_opts body = Some (inl o) /\
                  o_version o = v' /\ o_app_mode o = String.eqb m "app"%string /\
                  o_opt_slots o = resolve_opt_slots ss' v' /\ o_use_fp o = f
    end.
Proof. exact options_resolved. Qed.
Print Assumptions C03_options_resolved.

Theorem C03_option_defaults :
  (forall v, resolve_opt_slots None v = true <-> (gen_DEFAULT_SCRATCH_SLOT_OPTIMIZE_VERSION <= v)%N) /\
  (forall b v, resolve_opt_slots (Some b) v = b) /\
  (forall v, resolve_frame_pointers None v = Some true <-> (gen_FRAME_POINTERS_VERSION <= v)%N) /\
  (forall v, resolve_frame_pointers None v <> None) /\
  (forall v, resolve_frame_pointers (Some false) v = Some false) /\
  (forall v, resolve_frame_pointers (Some true) v = None <-> (v < gen_FRAME_POINTERS_VERSION)%N) /\
  (forall v, resolve_frame_pointers (Some true) v = Some true <-> (gen_FRAME_POINTERS_VERSION <= v)%N).
Proof. exact option_defaults. Qed.
Print Assumptions C03_option_defaults.

Theorem C03_option_defaults_documented :
  gen_DEFAULT_SCRATCH_SLOT_OPTIMIZE_VERSION = 9%N /\ gen_FRAME_POINTERS_VERSION = 8%N /\
  map (resolve_opt_slots None) [2; 3; 4; 5; 6; 7; 8; 9; 10]%N =
    [false; false; false; false; false; false; false; true; true] /\
  map (resolve_frame_pointers None) [2; 3; 4; 5; 6; 7; 8; 9; 10]%N =
    [Some false; Some false; Some false; Some false; Some false; Some false; Some true; Some true; Some true].
Proof. exact option_defaults_documented. Qed.
Print Assumptions C03_option_defaults_documented.
