(* Props/C03.v — TEMPORARY STUB (the optimiser soundness theorems are being proved in
   Proofs/OptimizeCorrect.v and will replace this file). *)
From Coq Require Import List NArith.
From PV Require Import AVM.Syntax Comp.Blocks Comp.Passes.
Import ListNotations.

(* the optimiser never touches an op that is neither a load nor a store *)
Theorem C03_keep_op_other :
  forall remove i, is_op i O_store = false -> is_op i O_load = false -> keep_op remove i = true.
Proof. intros remove i H1 H2. unfold keep_op. rewrite H1, H2. reflexivity. Qed.
Print Assumptions C03_keep_op_other.
