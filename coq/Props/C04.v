(* Props/C04.v — Successful compilation yields complete, target-legal TEAL.

   What is proved here, and about what:

   (A) The checker AVM/LegalCheck.v [legal_check version app msel text] is SOUND for the semantic
       clauses of the property with respect to the reference machine AVM/Machine.v
       (C04_legal_check_sound, C04_legal_run_inside, C04_labels_unique, for every text, context, state
       and number of steps):  accepted  ==>  the program version is the requested one; in every
       execution the pc always points at an instruction (the fall-off-the-end case of [step] is
       unreachable), every return address does too; the instruction about to execute passed the static
       check (opcode in the langspec at that version and in that mode, immediates of the right number,
       kind and range, fields valid at the version/mode, constant-block indices inside the block); each of
       its branch targets resolves ([label_pc] never fails); a step other than callsub/retsub stays
       inside the routine region of its instruction, callsub goes to a routine entry, retsub is never
       executed in the main region; every label is defined once.
       Clauses decided by the checker WITHOUT a semantic theorem (acceptance implies the predicate by
       definition of the checker): pragma line, immediates' ranges, field validity, constant-block
       placement, forward-only branches below version 4, legality of instructions that no execution
       reaches.  The checker runs on the REAL output of the compiler in harness/c04.py.
   (B) PyTeal's own tables, regenerated from /repo on every run, are conservative w.r.t. the independent
       langspec AVM/Langspec.v (C04_optable_conservative, C04_fields_conservative, ...; finite domain:
       every row of the regenerated tables).
   (C) The labels PyTeal's naming scheme produces are pairwise distinct for distinct
       (routine, block) whatever the subroutine names (C04_label_injective, on the model functions
       Comp.Compile.sanitize / Comp.Passes.label_of).
   (R) The property itself is FALSE of the faithful compile model and of the real compiler
       (C04_compile_legal_refuted + witnesses; known findings, replayed on the real code by the check).
   Not proved: [compile_model p = Ok t -> legal_check t = LOk] for the defect-free fragment (that
   would be C04's full statement on the model; the check decides it per program on the real output). *)
From Coq Require Import List Arith NArith Ascii String Bool.
From PV Require Import Base.Bytes Base.Sexp AVM.Syntax AVM.Machine AVM.Parse AVM.Langspec AVM.LegalCheck
  Gen.Tables Gen.FieldTables Proofs.LegalCheckSound Proofs.LegalTables Proofs.LabelInjective Proofs.LegalRefuted.
Import ListNotations.
Local Open Scope string_scope.

(* ---- (A) soundness of the checker ---- *)
Theorem C04_legal_check_sound : forall version app msel text p,
  legal_check version app msel text = LOk ->
  parse_program msel text = Some p ->
  pr_version p = version /\
  forall cx st m, reaches cx p (init_mach st) m ->
    exists i, nth_error (pr_code p) (m_pc m) = Some i /\
              Forall (fun f => (f_ret f < code_len p)%nat) (m_calls m) /\
              instr_legal version app p i /\
              targets_resolve p i /\
              forall m', step cx p m = Running m' -> region_discipline p m m' i.
Proof. exact legal_check_sound_lemma. Qed.

Theorem C04_legal_run_inside : forall version app msel text p,
  legal_check version app msel text = LOk -> parse_program msel text = Some p ->
  forall fuel cx st v m', run fuel cx p (init_mach st) = (v, m') ->
    nth_error (pr_code p) (m_pc m') <> None.
Proof. exact legal_run_inside. Qed.

Theorem C04_labels_unique : forall version app msel text p,
  legal_check version app msel text = LOk -> parse_program msel text = Some p ->
  NoDup (map fst (pr_labels p)).
Proof. exact legal_labels_unique_lemma. Qed.

Theorem C04_accepted_text_parses : forall version app msel text,
  legal_check version app msel text = LOk -> exists p, parse_program msel text = Some p.
Proof. exact legal_check_parses. Qed.

(* what "passed the static check" means *)
Theorem C04_instr_legal_spec : forall version app ni nb i,
  static_instr version app ni nb i = VOk ->
  exists sp, ls_op (p_op i) = Known sp /\ (os_minv sp <= version)%N /\
             (if app then os_app sp else os_sig sp) = true /\
             imms_ok version app (os_imms sp) (p_imms i) = VOk /\
             const_index_ok ni nb i = VOk.
Proof. exact static_instr_spec. Qed.

(* ---- (B) PyTeal's tables against the langspec (re-proved against the regenerated tables) ---- *)
Theorem C04_optable_conservative : forall r, In r gen_optable -> op_row_conservative r = true.
Proof. exact optable_conservative_lemma. Qed.

Theorem C04_optable_covered : forall r, In r gen_optable -> op_row_covered r = true.
Proof. exact optable_covered_lemma. Qed.

Theorem C04_syntax_table_conservative : forall o, In o all_opcs -> syntax_row_conservative o = true.
Proof. exact syntax_table_conservative_lemma. Qed.

Theorem C04_fields_conservative : forall r, In r gen_fields -> field_row_conservative r = true.
Proof. exact fields_conservative_lemma. Qed.

(* every row except the two listed in [field_exceptions] (known findings) *)
Theorem C04_fields2_conservative_except : forall r, In r gen_fields2 -> field2_row_conservative r = true.
Proof. exact fields2_conservative_lemma. Qed.

Theorem C04_txn_arrays_agree : forall r, In r gen_txn_arrays -> txn_array_row_agrees r = true.
Proof. exact txn_arrays_agree_lemma. Qed.

(* ---- (C) label naming ---- *)
Theorem C04_label_injective : forall a b, label_text a = label_text b -> lab_key a = lab_key b.
Proof. exact label_injective_lemma. Qed.

(* ---- (R) the property is false of the faithful model (and of the real compiler) ---- *)
Theorem C04_compile_legal_refuted : exists version app p, ~ compile_legal version app p.
Proof. exact compile_legal_refuted_lemma. Qed.

(* ---- non-vacuity: a program with a loop, a conditional and two subroutines is accepted;
        the known witnesses and a few malformed texts are rejected for the expected reason ---- *)
Definition accepted_example : string :=
"#pragma version 6
int 0
store 0
main_l1:
load 0
int 3
<
bz main_l3
load 0
callsub f_0
pop
load 0
int 1
+
store 0
b main_l1
main_l3:
int 1
return

// f
f_0:
store 1
load 1
bnz f_0_l2
int 2
retsub
f_0_l2:
load 1
callsub g_1
retsub

// g
g_1:
store 2
load 2
int 1
+
retsub".

Example C04_accepts_example : legal_check 6 true [] accepted_example = LOk.
Proof. vm_compute. reflexivity. Qed.

Definition kind_of (r : legal_result) : string :=
  match r with LOk => "ok" | LBad k _ _ => k | LUncovered k _ _ => "uncovered:" ++ k end.

Example C04_rejects_examples :
  kind_of (legal_check 5 true [] accepted_example) = "pragma-version" /\
  kind_of (legal_check 6 true [] "#pragma version 6
int 1") = "falls-off-end" /\
  kind_of (legal_check 6 true [] "#pragma version 6
int 1
callsub f_0
return
f_0:
int 2
pop") = "falls-off-end" /\
  kind_of (legal_check 6 true [] "#pragma version 6
int 1
callsub f_0
f_0:
retsub") = "falls-into-routine" /\
  kind_of (legal_check 6 true [] "#pragma version 6
callsub f_0
int 1
return
f_0:
int 1
bnz main_l1
retsub
g_1:
main_l1:
int 1
return") = "ok" /\
  kind_of (legal_check 6 true [] "#pragma version 6
callsub f_0
main_l1:
int 1
return
f_0:
int 1
bnz main_l1
retsub") = "branch-crosses-routine" /\
  kind_of (legal_check 6 true [] "#pragma version 6
int 1
retsub") = "retsub-in-main" /\
  kind_of (legal_check 6 true [] "#pragma version 6
b l1
int 1
return") = "label-undefined" /\
  kind_of (legal_check 6 true [] "#pragma version 6
l1:
int 1
l1:
return") = "label-duplicate" /\
  kind_of (legal_check 6 true [] "#pragma version 6
int 1
bnz l9
int 1
return
l9:") = "branch-to-end" /\
  kind_of (legal_check 6 true [] "#pragma version 6
load ScratchSlot
return") = "imm-kind" /\
  kind_of (legal_check 6 true [] "#pragma version 6
box_put
int 1
return") = "op-version" /\
  kind_of (legal_check 6 false [] "#pragma version 6
byte 0x00
log
int 1
return") = "op-mode" /\
  kind_of (legal_check 6 true [] "#pragma version 6
intcblock 1 2
intc 2
return") = "const-index" /\
  kind_of (legal_check 8 true [] "#pragma version 8
frame_dig -129
return") = "parse" /\
  kind_of (legal_check 6 true [] "#pragma version 6
int 1
frobnicate
return") = "parse".
Proof. vm_compute. repeat split. Qed.

Print Assumptions C04_legal_check_sound.
Print Assumptions C04_legal_run_inside.
Print Assumptions C04_labels_unique.
Print Assumptions C04_accepted_text_parses.
Print Assumptions C04_instr_legal_spec.
Print Assumptions C04_optable_conservative.
Print Assumptions C04_optable_covered.
Print Assumptions C04_syntax_table_conservative.
Print Assumptions C04_fields_conservative.
Print Assumptions C04_fields2_conservative_except.
Print Assumptions C04_txn_arrays_agree.
Print Assumptions C04_label_injective.
Print Assumptions C04_compile_legal_refuted.
