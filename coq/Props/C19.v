(* Props/C19.v — ABI assignability implies identical encoding.
   Property theorems only; proofs live in Proofs/AssignableProof.v, Proofs/ABILayoutProof.v,
   Proofs/ABIDescrProof.v, Proofs/ABISpecProof.v.
   [assignable] = model of pyteal.abi type_spec_is_assignable_to (ABI/Assignable.v);
   [canon] = encoding-layout normal form (ABI/Layout.v): byte~uint8, address~byte[32]~StaticBytes 32,
   string~byte[]~DynamicBytes, tuple names and NamedTuple class dropped;
   [arc4_encode], [val_has_type], [is_dynamic], [static_len] = the ARC-4 spec (ABI/Spec.v). *)
From Coq Require Import List NArith Ascii String Bool.
From PV Require Import Base.Bytes ABI.Types ABI.Spec ABI.Layout ABI.Descr ABI.Assignable
  Proofs.ABISpecProof Proofs.ABILayoutProof Proofs.ABIDescrProof Proofs.AssignableProof.
Import ListNotations.
Local Open Scope N_scope.

(* MAIN. Whatever the relation admits — for specs nested to any depth — has the same layout: the two
   types differ at most in the spellings that [canon] erases. *)
Theorem C19_assignable_same_layout :
  forall a b : ty, assignable a b = true -> canon a = canon b.
Proof. exact assignable_same_layout. Qed.
Print Assumptions C19_assignable_same_layout.

(* The ARC-4 spec depends on the layout only: two types with the same layout have the same
   dynamic-ness and static length, the same set of values, and every value has the same encoding
   under both (including: it fails to encode under both or under neither). *)
Theorem C19_same_layout_same_encoding :
  forall a b : ty, canon a = canon b ->
    is_dynamic a = is_dynamic b /\ static_len a = static_len b /\
    forall v : val, val_has_type a v = val_has_type b v /\ arc4_encode a v = arc4_encode b v.
Proof. exact same_layout_indistinguishable. Qed.
Print Assumptions C19_same_layout_same_encoding.

(* The property as stated: when A is admitted where B is expected, the raw bytes of any value of A
   are a valid encoding of B, of a well-typed value of B with the same meaning (the same value). *)
Theorem C19_admitted_bytes_are_valid_for_target :
  forall (a b : ty) (v : val) (bs : bytes),
    assignable a b = true -> arc4_encode a v = Some bs ->
    arc4_encode b v = Some bs /\ val_has_type b v = true.
Proof. exact admitted_bytes_valid_for_target. Qed.
Print Assumptions C19_admitted_bytes_are_valid_for_target.

(* Values of differently shaped types are rejected when the call or assignment is built
   ([call_admits] = the test made by SubroutineDefinition.invoke and InnerTxnBuilder.MethodCall). *)
Theorem C19_different_shapes_rejected :
  forall a b : ty, canon a <> canon b -> call_admits a b = false.
Proof. exact different_layout_rejected. Qed.
Print Assumptions C19_different_shapes_rejected.

(* The direct-assignment gates  dst.set(<ABI value>),  member assignment in Tuple.set / Array.set and
   dst.set(<ComputedValue>)  (each class has its own test, none goes through type_spec_is_assignable_to):
   whatever they accept has the layout of the target (for Tuple.set with one value: of the single member). *)
Theorem C19_set_gates_same_layout :
  forall src dst : ty,
    (set_admits src dst = true -> canon src = canon (set_target dst)) /\
    (elem_admits src dst = true -> canon src = canon dst) /\
    (computed_admits src dst = true -> canon src = canon dst).
Proof.
  intros src dst.
  exact (conj (set_admits_same_layout src dst)
              (conj (elem_admits_same_layout src dst) (computed_admits_same_layout src dst))).
Qed.
Print Assumptions C19_set_gates_same_layout.

Theorem C19_set_gates_same_encoding :
  forall src dst : ty,
    (set_admits src dst = true -> forall v, arc4_encode src v = arc4_encode (set_target dst) v) /\
    (elem_admits src dst = true -> forall v, arc4_encode src v = arc4_encode dst v) /\
    (computed_admits src dst = true -> forall v, arc4_encode src v = arc4_encode dst v).
Proof. exact set_gates_same_encoding. Qed.
Print Assumptions C19_set_gates_same_encoding.

(* ComputedValue.store_into(dst) — ReturnedValue, ArrayElement, TupleElement: the destination must have
   the layout (hence the encodings) of the produced spec. *)
Theorem C19_store_into_same_layout :
  forall src dst : ty, store_into_admits src dst = true ->
    canon src = canon dst /\ forall v, arc4_encode src v = arc4_encode dst v.
Proof. exact store_into_admits_same_layout. Qed.
Print Assumptions C19_store_into_same_layout.

(* Method signatures: type_spec_from_algosdk reads a parameter type as the spec of the same ARC-4 type or
   refuses it (uint widths PyTeal has no class for); so an argument accepted by MethodCall for a parameter
   WRITTEN param in the signature has the layout and the encodings of that written type. *)
Theorem C19_method_signature_gate :
  forall arg param : ty, method_arg_admits arg param = true ->
    canon arg = canon param /\ forall v, arc4_encode arg v = arc4_encode param v.
Proof. exact method_arg_admits_same_layout. Qed.
Print Assumptions C19_method_signature_gate.

(* Transaction and reference specs are not ARC-4 values (no encoding); for them the relation is:
   a transaction spec goes exactly to itself or to the generic `txn`; a reference spec exactly to itself;
   nothing else is assignable to or from them. *)
Theorem C19_transaction_specs :
  forall (k1 : txn_kind) (b : ty),
    assignable (TTxn k1) b = true <-> exists k2, b = TTxn k2 /\ (k2 = k1 \/ k2 = TxAny).
Proof. exact assignable_txn_iff. Qed.
Print Assumptions C19_transaction_specs.

Theorem C19_only_transactions_to_transaction :
  forall (a : ty) (k : txn_kind), assignable a (TTxn k) = true -> exists k1, a = TTxn k1.
Proof. exact assignable_to_txn. Qed.
Print Assumptions C19_only_transactions_to_transaction.

Theorem C19_reference_specs :
  forall (k : ref_kind) (b : ty),
    (assignable (TRef k) b = true <-> b = TRef k) /\ (assignable b (TRef k) = true -> b = TRef k).
Proof. exact reference_specs. Qed.
Print Assumptions C19_reference_specs.

(* The modelled function is the literal transcription of the Python text (match order, isinstance
   tests, == on named tuples, str fallback) — one unfolding step, for all a, b. *)
Theorem C19_model_is_transcription :
  forall a b : ty,
    assignable a b =
    if isinst a C_NamedTuple && isinst b C_NamedTuple then py_eq a b
    else if isinst a C_Tuple && isinst b C_Tuple then
      if negb (N.eqb (length_static a) (length_static b)) then false
      else all2_zip assignable (tuple_elems a) (tuple_elems b)
    else if isinst a C_Array && isinst b C_Array then
      match value_spec a, value_spec b with
      | Some ea, Some eb => if negb (assignable ea eb) then false else array_case a b
      | _, _ => false
      end
    else if isinst a C_Uint && isinst b C_Uint then N.eqb (uint_size a) (uint_size b)
    else isinst a (cls_of b) || String.eqb (py_str a) (py_str b).
Proof. exact assignable_eqn. Qed.
Print Assumptions C19_model_is_transcription.

(* The relation is not empty (every spec is assignable to itself) and PyTeal's __str__ is the ARC-4 string. *)
Theorem C19_assignable_refl : forall a : ty, assignable a a = true.
Proof. exact assignable_refl. Qed.
Print Assumptions C19_assignable_refl.

Theorem C19_str_is_arc4_type_string : forall t : ty, py_str t = type_str t.
Proof. exact py_str_type_str. Qed.
Print Assumptions C19_str_is_arc4_type_string.

(* ---- non-vacuity: the hypotheses are satisfiable on a nested, differently spelled pair ---- *)
Definition ex_a : ty := TTup [TAddress; TDynArray (TTup [TByte; TString]); TBool; TBool].
Definition ex_b : ty :=
  TNamed 7 ["owner"; "notes"; "x"; "y"]%string
         [TStaticBytes 32; TDynArray (TNamed 8 ["k"; "v"]%string [TUint 8; TDynBytes]); TBool; TBool].
Definition ex_v : val :=
  VList [VBytes (repeat "A"%char 32); VList [VList [VUint 7; VBytes (bytes_of_string "hi")]]; VBool true; VBool false].

Example C19_nonvacuous_admitted : assignable ex_a ex_b = true /\ ex_a <> ex_b.
Proof. split; [vm_compute; reflexivity | discriminate]. Qed.

Example C19_nonvacuous_encoding :
  exists bs, arc4_encode ex_a ex_v = Some bs /\ arc4_encode ex_b ex_v = Some bs /\ val_has_type ex_a ex_v = true.
Proof. eexists. vm_compute. repeat split; reflexivity. Qed.

Example C19_nonvacuous_rejected :
  canon (TStaticBytes 31) <> canon TAddress /\ call_admits (TStaticBytes 31) TAddress = false /\
  call_admits (TTup [TUint 16]) (TTup [TUint 8; TUint 8]) = false.
Proof. repeat split; try discriminate; vm_compute; reflexivity. Qed.

(* the relation is directional: same layout does not imply assignable (by design of PyTeal) *)
Example C19_nonvacuous_set_gates :
  set_admits (TUint 8) TByte = true /\ set_admits (TUint 64) (TUint 16) = false /\
  set_admits (TStaticBytes 32) TAddress = true /\ set_admits TDynBytes TString = false /\
  elem_admits TAddress (TStaticBytes 32) = true /\ computed_admits (TStaticArray TByte 32) TAddress = true.
Proof. vm_compute. repeat split; reflexivity. Qed.

Example C19_directional :
  canon (TStaticBytes 32) = canon TAddress /\ assignable (TStaticBytes 32) TAddress = false /\
  assignable TAddress (TStaticBytes 32) = true.
Proof. vm_compute. repeat split; reflexivity. Qed.
