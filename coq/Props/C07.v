(* Props/C07.v — ABI decoding and element access return the encoded components.
   Property theorems only (statements about the model coq/ABI/Index.v against the ARC-4 spec
   coq/ABI/Spec.v and the AVM opcode semantics coq/AVM/Ops.v); proofs live in Proofs/ABIIndex*.v.

   Reading guide:  [index_tuple ts i] / [array_elem_plan arr] / [get_plan t] / [decode_plan t ...] are the
   expression trees PyTeal builds (tuple.py _index_tuple, array_base.py ArrayElement.store_into, get(), decode());
   [exec_plan ver p enc idx] runs such a tree on the encoded bytes [enc] with index value [idx] using
   [exec_pure] (None = the program fails);  [stored t v] is what the output value must hold for component
   v : t  (uint64 for bool/byte/uintN, the ARC-4 encoding otherwise). *)
From Coq Require Import List NArith.
From PV Require Import Base.Bytes Base.U64 AVM.Syntax AVM.Ops ABI.Types ABI.Spec ABI.Index
  Proofs.ABIIndexAsm Proofs.ABIIndexSel Proofs.ABIIndexExec Proofs.ABIIndexTuple Proofs.ABIIndexArray
  Proofs.ABIIndexDecode Proofs.ABIIndexOob.
Import ListNotations.
Local Open Scope N_scope.

(* (F) tuple[i] / named-tuple field i: for EVERY member-type list, every encodable value, every position *)
Theorem C07_index_tuple_correct : forall ver nm ts vs enc i t v idx,
    EXTRACT_MIN_VERSION <= ver ->
    arc4_encode (TTuple nm ts) (VList vs) = Some enc -> blen enc <= MAX_BYTES ->
    nth_error ts i = Some t -> nth_error vs i = Some v -> pyteal_elem t = true ->
    exists p sv, index_tuple ts i = Some p /\ stored t v = Some sv /\ exec_plan ver p enc idx = Some sv.
Proof. exact index_tuple_correct. Qed.
Print Assumptions C07_index_tuple_correct.

(* (F) array[i], static and dynamic arrays (incl. address/string/byte strings), every element kind, every
   in-range index; the plan only sees the VALUE of the index expression, so this covers constant and
   run-time indices alike *)
Theorem C07_array_elem_correct : forall ver arr e slen v enc vs i x,
    EXTRACT_MIN_VERSION <= ver ->
    array_info arr = Some (e, slen) -> arc4_encode arr v = Some enc -> blen enc <= MAX_BYTES ->
    elems_of v = Some vs -> nth_error vs i = Some x -> pyteal_elem e = true -> nlen vs < U64 ->
    exists p sv, array_elem_plan arr = Some p /\ stored e x = Some sv /\
                 exec_plan ver p enc (N.of_nat i) = Some sv.
Proof. exact array_elem_correct. Qed.
Print Assumptions C07_array_elem_correct.

(* (F) length() *)
Theorem C07_length_correct : forall arr e slen v enc vs idx,
    array_info arr = Some (e, slen) -> arc4_encode arr v = Some enc -> elems_of v = Some vs ->
    nlen vs < U64 ->
    eval_iexpr enc idx (length_expr slen) = Some (nlen vs).
Proof. exact length_correct. Qed.
Print Assumptions C07_length_correct.

(* (F) get() on String / DynamicBytes strips the 2-byte prefix; on Address / StaticBytes it is the identity *)
Theorem C07_bytes_get_correct : forall ver t bs enc idx,
    EXTRACT_MIN_VERSION <= ver -> arc4_encode t (VBytes bs) = Some enc -> blen enc <= MAX_BYTES ->
    match t with TString | TDynBytes | TAddress | TStaticBytes _ => True | _ => False end ->
    exists p, get_plan t = Some p /\ exec_plan ver p enc idx = Some (VB bs).
Proof. exact bytes_get_correct. Qed.
Print Assumptions C07_bytes_get_correct.

(* (F) x.decode(encoded) on the encoding of x's own type: bool -> the bit, uintN -> the number (get() then
   loads it), everything else -> the bytes *)
Theorem C07_decode_whole_correct : forall ver t v enc idx,
    EXTRACT_MIN_VERSION <= ver -> arc4_encode t v = Some enc -> blen enc <= MAX_BYTES -> pyteal_elem t = true ->
    exists p sv, decode_plan t None None None = Some p /\ stored t v = Some sv /\ exec_plan ver p enc idx = Some sv.
Proof. exact decode_whole_correct. Qed.
Print Assumptions C07_decode_whole_correct.

(* (F) uint_decode with its start / end / length variants *)
Theorem C07_uint_decode_correct : forall ver bits n enc idx a c s e l,
    (bits = 8 \/ bits = 16 \/ bits = 32 \/ bits = 64) -> n < 2 ^ bits ->
    enc = a ++ be_encode (N.to_nat (bits / 8)) n ++ c ->
    eval_iexpr enc idx (odefault s (IInt 0)) = Some (blen a) ->
    (s = None -> e = None -> l = None -> bits = 64 -> a = [] /\ c = []) ->
    exists p, uint_decode bits s e l = Some p /\ exec_plan ver p enc idx = Some (VI n).
Proof. exact uint_decode_correct. Qed.
Print Assumptions C07_uint_decode_correct.

(* (F) the opcode chosen for constant arguments means what substring3 / extract3 / "to the end" mean
   (incl. `extract s 0`, the one-byte immediates, the version gates) *)
Theorem C07_substring_choice_correct :
  (forall ver s e o enc, sel_substring ver s e = SelOk o -> s < U64 -> e < U64 ->
                         exec_sel enc o s e true = do_substring3 enc s e) /\
  (forall ver s l o enc, sel_extract ver s l = SelOk o -> s < U64 -> l < U64 ->
                         exec_sel enc o s l false = do_extract3 enc s l) /\
  (forall ver s o enc, sel_suffix ver s = SelOk o -> s < U64 ->
                       exec_sel enc o s 0 false = do_substring3 enc s (blen enc)) /\
  (forall ver a b o, (sel_substring ver a b = SelOk o \/ sel_extract ver a b = SelOk o \/ sel_suffix ver a = SelOk o) ->
                     match o with
                     | SExtractImm s l => s < 256 /\ l < 256
                     | SSubstringImm s e => s < 256 /\ e < 256
                     | _ => True
                     end).
Proof.
  split; [exact sel_substring_correct|]. split; [exact sel_extract_correct|].
  split; [exact sel_suffix_correct | exact sel_imm_range].
Qed.
Print Assumptions C07_substring_choice_correct.

Theorem C07_selector_errors :
  (forall ver s e, sel_substring ver s e = SelError <->
       (e < s \/ (ver < SUBSTRING_MIN_VERSION /\ (e = s \/ ver < EXTRACT_MIN_VERSION)))) /\
  (forall ver s l, sel_extract ver s l = SelError <-> ver < EXTRACT_MIN_VERSION) /\
  (forall ver s, sel_suffix ver s = SelError <->
       ((s < 256 /\ ver < EXTRACT_MIN_VERSION) \/ (256 <= s /\ ver < SUBSTRING_MIN_VERSION))).
Proof. split; [exact sel_substring_error|]. split; [exact sel_extract_error | exact sel_suffix_error]. Qed.
Print Assumptions C07_selector_errors.

(* ---------------- out of range ---------------- *)
(* (F) element static, not bool, at least one byte: EVERY index >= length fails — static arrays (idx >= N)
   and dynamic arrays, any index value up to 2^64-1 and beyond *)
Theorem C07_array_oob_fails_static_elems : forall ver arr e slen v enc vs idx p,
    array_info arr = Some (e, slen) -> arc4_encode arr v = Some enc -> elems_of v = Some vs ->
    is_bool e = false -> is_dynamic e = false -> 0 < static_len e -> pyteal_elem e = true ->
    nlen vs <= idx ->
    array_elem_plan arr = Some p -> exec_plan ver p enc idx = None.
Proof. exact array_oob_fails_static_elems. Qed.
Print Assumptions C07_array_oob_fails_static_elems.

(* (F) bool arrays fail beyond the last byte ... *)
Theorem C07_array_oob_bool_fails_beyond_padding : forall ver arr slen v enc vs,
    array_info arr = Some (TBool, slen) -> arc4_encode arr v = Some enc -> elems_of v = Some vs ->
    forall idx, 8 * bool_seq_len (nlen vs) <= idx ->
    exec_plan ver (PGetbit (if match slen with None => true | Some _ => false end then IAdd IIdx (IInt 16) else IIdx)) enc idx = None.
Proof. exact array_oob_bool_fails_beyond_padding. Qed.
Print Assumptions C07_array_oob_bool_fails_beyond_padding.

(* (R) ... but inside the last byte every out-of-range index returns 0 instead of failing *)
Theorem C07_array_oob_bool_padding_returns_zero : forall ver arr slen v enc vs,
    array_info arr = Some (TBool, slen) -> arc4_encode arr v = Some enc -> elems_of v = Some vs ->
    forall idx, nlen vs <= idx -> idx < 8 * bool_seq_len (nlen vs) ->
    exec_plan ver (PGetbit (if match slen with None => true | Some _ => false end then IAdd IIdx (IInt 16) else IIdx)) enc idx = Some (VI 0).
Proof. exact array_oob_bool_padding_returns_zero. Qed.
Print Assumptions C07_array_oob_bool_padding_returns_zero.

Theorem C07_bool_plan : forall arr slen, array_info arr = Some (TBool, slen) ->
    array_elem_plan arr = Some (PGetbit (if match slen with None => true | Some _ => false end then IAdd IIdx (IInt 16) else IIdx)).
Proof. exact bool_plan. Qed.
Print Assumptions C07_bool_plan.

(* (R) elements of byte length 0: no index fails *)
Theorem C07_array_oob_zero_length_elems_never_fail : forall ver arr e slen v enc vs idx,
    array_info arr = Some (e, slen) -> arc4_encode arr v = Some enc -> elems_of v = Some vs ->
    is_bool e = false -> is_dynamic e = false -> static_len e = 0 -> pyteal_elem e = true ->
    idx < U64 ->
    exists p, array_elem_plan arr = Some p /\ exec_plan ver p enc idx = Some (VB []).
Proof. exact array_oob_zero_length_elems_never_fail. Qed.
Print Assumptions C07_array_oob_zero_length_elems_never_fail.

(* (R) arrays of dynamic elements: tail bytes are read as a head offset; witness string[] = ["\x00\x03"], index 1 *)
Theorem C07_array_oob_dynamic_elem_witness :
  exists enc p out, arc4_encode wit_dyn_ty wit_dyn_val = Some enc /\ array_elem_plan wit_dyn_ty = Some p /\
                    exec_plan 8 p enc 1 = Some (VB out).
Proof. exact array_oob_dynamic_elem_witness. Qed.
Print Assumptions C07_array_oob_dynamic_elem_witness.

(* (R) hence the property's last sentence, stated for all arrays, is false of the faithful model *)
Theorem C07_array_oob_refuted :
  ~ (forall ver arr e slen v enc vs idx p,
        array_info arr = Some (e, slen) -> arc4_encode arr v = Some enc -> elems_of v = Some vs ->
        nlen vs <= idx -> array_elem_plan arr = Some p -> exec_plan ver p enc idx = None).
Proof. exact array_oob_refuted. Qed.
Print Assumptions C07_array_oob_refuted.

(* the byte-level facts the theorems rest on (about the ARC-4 spec only) *)
Theorem C07_encode_static_len : forall t v bs,
    arc4_encode t v = Some bs -> is_dynamic t = false -> blen bs = static_len t.
Proof. exact Proofs.ABIIndexElems.encode_static_len. Qed.
Print Assumptions C07_encode_static_len.
