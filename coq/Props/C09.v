(* Props/C09.v — Routed methods receive ARC-4 arguments and log ARC-4 results.
   Property theorems only; proofs live in Proofs/RouterArgs*.v; model and ARC-4 client spec in
   Router/Args.v.  METHOD_ARG_NUM_CUTOFF and RETURN_HASH_PREFIX come from Gen/Tables.v, regenerated
   from /repo on every run: the statements below are re-checked against the current constants. *)
From Coq Require Import List Arith NArith Ascii String Bool.
From PV Require Import Base.Bytes ABI.Types ABI.Spec ABI.Descr Gen.Tables Router.Args
  Proofs.RouterArgsLists Proofs.RouterArgsProof Proofs.RouterArgsGlue Proofs.RouterArgsCells.
Import ListNotations.

(* ARG BINDING.  For EVERY method signature (any number of parameters; plain, transaction and
   reference parameters in any position) and EVERY argument list for which the ARC-4 client produces a
   call c, placed anywhere in a group (arbitrary transactions before and after): evaluating the binding
   plan that the router glue computes from the signature, on c's application arguments and that group,
   succeeds, and (args_ok, Router/Args.v)
     - every plain parameter holds exactly the ARC-4 encoding of the value passed for it,
     - every reference parameter holds an index that the AVM resolves, in c's foreign arrays (with the
       implicit entry 0), to the account / asset / application passed for it,
     - the n-th transaction parameter in declaration order denotes group position |before| + n, which
       holds the transaction passed for it, of the declared type; there are exactly as many such
       positions as transaction parameters and the call sits right after them — i.e. they are the
       immediately preceding transactions, in declaration order.
   [member] is the element access on an encoded tuple (C07's subject), used only when more than 15
   non-transaction parameters force the de-tupling of ApplicationArgs[15]; it is assumed correct
   (hypothesis), and validated for the concrete [member_bytes] by the harness on every such call. *)
Theorem C09_arg_binding_correct :
  forall (member : list ty -> nat -> bytes -> option bytes),
    (forall ts vs bs j t v,
        arc4_encode (TTuple None ts) (VList vs) = Some bs ->
        nth_error ts j = Some t -> nth_error vs j = Some v ->
        member ts j bs = arc4_encode t v) ->
  forall sel sender app_id s args c before me after,
    client_encode sel sender app_id s args = Some c ->
    exists bounds,
      eval_all member (c_args c) (group_of before c me after) (group_index_of before c)
               (binding_plan (s_params s)) = Some bounds /\
      args_ok sender app_id c (group_of before c me after) (List.length before) 0
              (combine (s_params s) args) bounds /\
      List.length (c_txns c) = List.length (filter is_txn_ty (s_params s)) /\
      List.length (s_params s) = List.length args.
Proof. exact arg_binding_main. Qed.
Print Assumptions C09_arg_binding_correct.

(* TRANSACTION TYPE ENFORCED.  Whatever the application arguments and the group are (made by a
   conforming client or not): if the glue gets through, parameter i of declared type TTxn k denotes an
   existing group transaction before the call whose type is k (any type for `txn`).  Hence a
   transaction of another type makes the call fail. *)
Theorem C09_txn_type_enforced :
  forall member args group gi tys i k bounds,
    nth_error tys i = Some (TTxn k) ->
    eval_all member args group gi (binding_plan tys) = Some bounds ->
    exists g x, nth_error bounds i = Some (RTxn g x) /\ g < gi /\ nth_error group g = Some x /\
                txn_type_ok k x = true.
Proof. exact txn_type_enforced_main. Qed.
Print Assumptions C09_txn_type_enforced.

(* CUT-OFF, glue side.  15 non-transaction parameters are read from 15 application arguments; *)
Theorem C09_cutoff_15_individual :
  forall tys, List.length tys = 15 -> forallb not_txn_ty tys = true ->
    binding_plan tys = mapi_from 0 (fun idx t => mk_binding (SArg (idx + 1)) t) tys /\ tupled_types tys = [].
Proof. exact cutoff_15_individual_main. Qed.
Print Assumptions C09_cutoff_15_individual.

(* 16 are read as 14 application arguments + the two members of a tuple in application argument 15. *)
Theorem C09_cutoff_16_tupled :
  forall tys, List.length tys = 16 -> forallb not_txn_ty tys = true ->
    exists t14 t15,
      skipn 14 tys = [t14; t15] /\ tupled_types tys = [t14; t15] /\
      binding_plan tys =
        mapi_from 0 (fun idx t => mk_binding (SArg (idx + 1)) t) (firstn 14 tys)
        ++ [mk_binding (SMember 15 [t14; t15] 0) t14; mk_binding (SMember 15 [t14; t15] 1) t15].
Proof. exact cutoff_16_tupled_main. Qed.
Print Assumptions C09_cutoff_16_tupled.

(* CUT-OFF, client side (ARC-4): at most 15 wire arguments -> one application argument each;
   more -> exactly 15 application arguments after the selector, the 15th being the tuple of the rest. *)
Theorem C09_client_cutoff :
  forall w bs, pack w = Some bs ->
    (List.length w <= 15 -> List.length bs = List.length w /\ Forall2 enc_rel w bs) /\
    (15 < List.length w ->
       List.length bs = 15 /\ Forall2 enc_rel (firstn 14 w) (firstn 14 bs) /\
       nth_error bs 14 = arc4_encode (TTuple None (map fst (skipn 14 w))) (VList (map snd (skipn 14 w)))).
Proof. exact client_cutoff_main. Qed.
Print Assumptions C09_client_cutoff.

(* the constant the router uses is the one ARC-4 fixes *)
Theorem C09_cutoff_constant : CUTOFF = 15.
Proof. exact cutoff_is_15. Qed.
Print Assumptions C09_cutoff_constant.

(* every parameter keeps its kind in the plan (a transaction parameter of kind k is bound by a group
   transaction with kind k asserted, a reference by an index, anything else by a decoded value) *)
Theorem C09_plan_shape : forall tys, Forall2 plan_shape tys (binding_plan tys).
Proof. exact binding_plan_shape. Qed.
Print Assumptions C09_plan_shape.

(* BOTH GLUE FLAVOURS.  The decoding steps of the scratch-slot glue and of the frame-pointer glue (cells
   of the `proto 0 0` caster: argument i in frame cell i (+1 when the method has an output), the tuple
   instance in the last cell, output_temp in cell 0), executed in emission order (application
   arguments incl. the tuple, transaction parameters, de-tupling) and read back in declaration order,
   give the handler exactly what the binding plan evaluates to — for ANY application arguments and group
   (cells of distinct instances never alias; the tuple is decoded before it is de-tupled). *)
Theorem C09_glue_storage_agrees_with_plan :
  forall member fl has_out tys args group gi bounds,
    eval_all member args group gi (binding_plan tys) = Some bounds ->
    exists cs, exec_gsteps member args group gi [] (decode_steps fl has_out tys) = Some cs /\
               read_args cs (map (arg_cell fl has_out) (seq 0 (List.length tys))) = Some bounds.
Proof. exact glue_equiv_main. Qed.
Print Assumptions C09_glue_storage_agrees_with_plan.

(* END TO END (model).  A call made by the ARC-4 client, placed anywhere in a group, run through the glue
   of either flavour with an arbitrary handler h: h is invoked on arguments bound as the caller passed
   them (args_ok); the outcome is Failed iff h fails (or yields no / an unencodable value for a
   non-void method), else Approved with h's own log followed — for a non-void method — by exactly one
   entry, return prefix ++ ARC-4 encoding of h's result. *)
Theorem C09_routed_call_correct :
  forall (member : list ty -> nat -> bytes -> option bytes),
    (forall ts vs bs j t v,
        arc4_encode (TTuple None ts) (VList vs) = Some bs ->
        nth_error ts j = Some t -> nth_error vs j = Some v ->
        member ts j bs = arc4_encode t v) ->
  forall fl sel sender app_id s args c before me after (h : handler),
    client_encode sel sender app_id s args = Some c ->
    exists bounds,
      args_ok sender app_id c (group_of before c me after) (List.length before) 0 (combine (s_params s) args) bounds /\
      run_glue member fl s h (c_args c) (group_of before c me after) (group_index_of before c) =
        match h bounds with
        | None => Failed
        | Some (logs, res) =>
            match s_ret s with
            | None => Approved logs
            | Some t =>
                match res with
                | Some r => match arc4_encode t r with
                            | Some e => Approved (logs ++ [return_prefix ++ e])
                            | None => Failed
                            end
                | None => Failed
                end
            end
        end.
Proof. exact routed_call_main. Qed.
Print Assumptions C09_routed_call_correct.

(* RETURN.  An approved call of a non-void method: the handler ran once on the decoded arguments, and
   the call's log is the handler's log followed by exactly one entry, return prefix ++ encoding of the
   result; it is the last entry (nothing after it, approval follows). *)
Theorem C09_return_logged_once :
  forall member fl s h args group gi t logs,
    s_ret s = Some t ->
    run_glue member fl s h args group gi = Approved logs ->
    exists bounds hl r e,
      glue_bounds member fl s args group gi = Some bounds /\
      h bounds = Some (hl, Some r) /\
      arc4_encode t r = Some e /\
      logs = hl ++ [return_prefix ++ e].
Proof. exact return_logged_once_main. Qed.
Print Assumptions C09_return_logged_once.

Theorem C09_return_logged_complete :
  forall member fl s h args group gi t bounds hl r e,
    s_ret s = Some t ->
    glue_bounds member fl s args group gi = Some bounds ->
    h bounds = Some (hl, Some r) -> arc4_encode t r = Some e ->
    run_glue member fl s h args group gi = Approved (hl ++ [return_prefix ++ e]).
Proof. exact return_logged_complete_main. Qed.
Print Assumptions C09_return_logged_complete.

Theorem C09_void_logs_nothing :
  forall member fl s h args group gi logs,
    s_ret s = None ->
    run_glue member fl s h args group gi = Approved logs ->
    exists bounds res, glue_bounds member fl s args group gi = Some bounds /\ h bounds = Some (logs, res).
Proof. exact void_logs_nothing_main. Qed.
Print Assumptions C09_void_logs_nothing.

(* RETURN_HASH_PREFIX of this tree is 0x151f7c75 *)
Theorem C09_return_prefix_is_arc4 :
  return_prefix = [ascii_of_N 21; ascii_of_N 31; ascii_of_N 124; ascii_of_N 117].
Proof. exact return_prefix_value. Qed.
Print Assumptions C09_return_prefix_is_arc4.

(* CONTRACT.  For EVERY list of registrations (add_method_handler with or without an overriding name; the
   decorator form) and every hash function: the contract lists exactly the registered methods, in order,
   under their REGISTERED names, with their argument type strings, return type string and description
   (the given one, else the docstring's) — each entry a function of its own registration only; the selector a
   client computes from an entry (first 4 bytes of the hash of name(args)returns) is the one the approval
   program compares ApplicationArgs[0] with; and that is the ARC-4 selector.
   (Before /repo 330bd50 this was false for a different overriding name — the contract kept the
   subroutine's own name; the model follows the repaired code.) *)
Theorem C09_contract_selectors_agree :
  forall (hash : string -> bytes) registered,
    map ms_name (contract_methods registered) = map reg_name registered /\
    map ms_args (contract_methods registered) = map (fun r => map type_str (s_params (r_sig r))) registered /\
    map ms_returns (contract_methods registered) = map (fun r => ret_str type_str (s_ret (r_sig r))) registered /\
    map ms_desc (contract_methods registered) = map reg_desc registered /\
    contract_selectors hash registered = dispatched_selectors hash registered /\
    dispatched_selectors hash registered = map (fun r => firstn 4 (hash (arc4_sig_str (registered_sig r)))) registered.
Proof. exact contract_selectors_agree_main. Qed.
Print Assumptions C09_contract_selectors_agree.

(* REJECTED ATTEMPTS LEAVE NO TRACE.  add_method_handler as a state transition (Router/Args.v [accepts]: not an
   ABIReturnSubroutine / never-executed config / signature already registered / selector collision => rejected):
   a rejected attempt changes neither the method table nor the contract; an accepted one appends exactly its
   own entry; and after ANY sequence of attempts the contract lists every dispatched signature exactly once. *)
Theorem C09_rejected_attempt_leaves_contract :
  forall (hash : string -> bytes) st a,
    accepts hash st a = None ->
    attempt_step hash st a = st /\ contract_methods (attempt_step hash st a) = contract_methods st.
Proof. exact rejected_attempt_leaves_contract_main. Qed.
Print Assumptions C09_rejected_attempt_leaves_contract.

Theorem C09_accepted_attempt_appends :
  forall (hash : string -> bytes) st a r,
    accepts hash st a = Some r ->
    contract_methods (attempt_step hash st a) = contract_methods st ++ [spec_of r].
Proof. exact accepted_attempt_appends_main. Qed.
Print Assumptions C09_accepted_attempt_appends.

Theorem C09_contract_lists_each_once :
  forall (hash : string -> bytes) l st,
    NoDup (map dispatched_sig_str st) ->
    NoDup (map (fun m => spec_sig_str m) (contract_methods (run_attempts hash st l))).
Proof. exact contract_lists_each_once_main. Qed.
Print Assumptions C09_contract_lists_each_once.

(* the program always dispatches on the ARC-4 signature under the REGISTERED name *)
Theorem C09_dispatched_is_registered :
  forall r, dispatched_sig_str r = arc4_sig_str (registered_sig r).
Proof. exact dispatched_is_registered_main. Qed.
Print Assumptions C09_dispatched_is_registered.

(* non-vacuity for the overriding-name case: add_method_handler(add, overriding_name="foo") *)
Example C09_override_example :
  spec_sig_str (spec_of ex_override) = "foo(uint64)uint64"%string /\
  dispatched_sig_str ex_override = "foo(uint64)uint64"%string.
Proof. exact override_contract_follows_registered_name. Qed.

(* ---- non-vacuity: a 19-parameter call (16 non-transaction arguments -> tuple; 3 transactions; references) ---- *)
Definition ex_sig : msig :=
  mkSig "m" ([TTxn TxPay] ++ repeat (TUint 64) 13 ++ [TString; TRef RAccount; TTxn TxAny; TBool; TRef RAsset; TTxn TxAxfer]) (Some (TUint 64)).
Definition ex_args : list carg :=
  [CTxn (mkGtx 1 [])] ++ map (fun n => CVal (VUint n)) [1;2;3;4;5;6;7;8;9;10;11;12;13]%N
  ++ [CVal (VBytes (bytes_of_string "hi")); CAccount (bytes_of_string "acct"); CTxn (mkGtx 6 []); CVal (VBool true);
      CAsset 99%N; CTxn (mkGtx 4 [])].

Example ex_client_some :
  exists c, client_encode [] (bytes_of_string "sender") 77%N ex_sig ex_args = Some c /\
            List.length (c_args c) = 16 /\ c_accounts c = [bytes_of_string "acct"] /\ c_assets c = [99%N] /\
            List.length (c_txns c) = 3.
Proof. eexists. vm_compute. repeat split. Qed.

(* the concrete element access satisfies the hypothesis on this call: the de-tupled members are the encodings *)
Example ex_bind_member_bytes :
  match client_encode [] (bytes_of_string "sender") 77%N ex_sig ex_args with
  | Some c =>
      eval_all member_bytes (c_args c) (group_of [mkGtx 2 []] c (mkGtx 6 []) []) (group_index_of [mkGtx 2 []] c)
               (binding_plan (s_params ex_sig))
  | None => None
  end
  = Some ([RTxn 1 (mkGtx 1 [])] ++ map (fun n => RBytes (be_encode 8 n)) [1;2;3;4;5;6;7;8;9;10;11;12;13]%N
          ++ [RBytes (be_encode 2 2 ++ bytes_of_string "hi"); RIndex RAccount 1; RTxn 2 (mkGtx 6 []);
              RBytes [ascii_of_N 128]; RIndex RAsset 0; RTxn 3 (mkGtx 4 [])]).
Proof. vm_compute. reflexivity. Qed.

(* a wrong transaction type is rejected by the glue: position 1 must be `pay` *)
Example ex_wrong_type_fails :
  match client_encode [] (bytes_of_string "sender") 77%N ex_sig ex_args with
  | Some c =>
      eval_all member_bytes (c_args c) ([mkGtx 2 []; mkGtx 3 []; mkGtx 6 []; mkGtx 4 []; mkGtx 6 []]) 4
               (binding_plan (s_params ex_sig))
  | None => Some []
  end = None.
Proof. vm_compute. reflexivity. Qed.
