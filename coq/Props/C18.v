(* Props/C18.v — comments, pragmas, nonces and names never change the code.
   Property theorems only; proofs live in Proofs/C18*.v, the model in Comp/Annotate.v.
   F = proved in full, P = partial (gap stated), R = refuted on the faithful model (witness = finding). *)
From Coq Require Import List Arith NArith Ascii String Bool.
From PV Require Import Base.Bytes Base.Sexp AVM.Syntax AVM.Machine AVM.Parse Src.Expr Src.Denote
  Comp.Blocks Comp.Lower Comp.Passes Comp.GraphSem Comp.Assemble Comp.Compile Comp.Annotate Extract.WireExpr
  Proofs.LowerFrame Proofs.LowerLemmas Proofs.LowerCorrect
  Proofs.C18Text Proofs.C18Fuel Proofs.C18Sem Proofs.C18Commute Proofs.C18Stream.
Import ListNotations.
Local Open Scope string_scope.

(* ================= behaviour (F) ================= *)

(* [arel e e'] (Comp/Annotate.v): e' is e with annotations added, removed or changed anywhere — Comment(text, .)
   around any sub-expression, Nonce(lit, .) around any sub-expression, Pragma(.) (identity), any Assert comment on
   either side, stand-alone Comment(text) inserted between the statements of any Seq — for ANY texts.
   For every environment, stack and state the two recipes have the same outcomes under the source semantics. *)
Theorem C18_annotation_behaviour_invariant :
  forall env e e', arel e e' ->
  forall stk st r, evaluates env e stk st r <-> evaluates env e' stk st r.
Proof. exact annotation_behaviour. Qed.
Print Assumptions C18_annotation_behaviour_invariant.

(* the fuel offset is exact for a Comment wrapper: one unit *)
Theorem C18_comment_wrapper_exact :
  forall env f text e stk st,
    denote env (S f) (annot_comment text e) stk st = denote env f e stk st.
Proof. exact comment_eval. Qed.
Print Assumptions C18_comment_wrapper_exact.

(* an Assert comment is not even looked at by the semantics; Pragma is the identity *)
Theorem C18_assert_comment_and_pragma_inert :
  forall env f conds cm cm' stk st e,
    denote env f (EAssert conds cm) stk st = denote env f (EAssert conds cm') stk st /\ annot_pragma e = e.
Proof. intros env f conds cm cm' stk st e. split; [destruct f; reflexivity|reflexivity]. Qed.
Print Assumptions C18_assert_comment_and_pragma_inert.

(* the evaluator is monotone in its fuel (so [evaluates] is a partial function) *)
Theorem C18_denote_fuel_mono :
  forall env f f' e stk st,
    f <= f' -> denote env f e stk st <> DFuel -> denote env f' e stk st = denote env f e stk st.
Proof. exact denote_fuel_mono. Qed.
Print Assumptions C18_denote_fuel_mono.

Theorem C18_evaluates_functional :
  forall env e stk st r1 r2, evaluates env e stk st r1 -> evaluates env e stk st r2 -> r1 = r2.
Proof. exact evaluates_functional. Qed.
Print Assumptions C18_evaluates_functional.

(* whole main routines, including compileSubroutine's implicit Return *)
Theorem C18_annotation_run_main :
  forall env main main',
    arel main main' -> type_of main = type_of main' -> has_return main = has_return main' ->
    forall f st, fst (run_main env f main st) <> DVFuel ->
    exists f', run_main env f' main' st = run_main env f main st.
Proof. exact annotation_run_main. Qed.
Print Assumptions C18_annotation_run_main.

(* the wrappers keep type_of and has_return (the hypotheses above) *)
Theorem C18_wrappers_keep_typing :
  forall text lit e,
    type_of (annot_comment text e) = type_of e /\ has_return (annot_comment text e) = has_return e /\
    type_of (annot_nonce lit e) = type_of e /\ has_return (annot_nonce lit e) = has_return e.
Proof.
  intros text lit e. repeat split;
    [apply annot_comment_type|apply annot_comment_has_return].
Qed.
Print Assumptions C18_wrappers_keep_typing.

(* through C01's lowering theorem: the lowered graphs of a recipe and of its annotated variant both reach
   the configuration prescribed by the SAME outcome (continuation / loop exit / return / failure) *)
Theorem C18_annotation_graph_behaviour :
  forall (env : denv) (o : copts) (c : lctx) (e e' : expr),
    consistent env c -> arel e e' ->
    forall k1 g1 s1 en1 g1' G1, wf g1 -> lower o c e k1 g1 = ((s1, en1), g1') -> gincl (g_blk g1') G1 ->
    forall k2 g2 s2 en2 g2' G2, wf g2 -> lower o c e' k2 g2 = ((s2, en2), g2') -> gincl (g_blk g2') G2 ->
    forall stk st r, evaluates env e stk st r ->
      tgt env G1 (GAt s1 stk st) k1 c r /\ tgt env G2 (GAt s2 stk st) k2 c r.
Proof. exact annotation_graph_behaviour. Qed.
Print Assumptions C18_annotation_graph_behaviour.

(* non-vacuity: the relation relates a recipe to each of its annotated forms *)
Example C18_arel_inhabited :
  forall text lit e conds cm xs ys, nonce_ok lit ->
    arel e (annot_comment text e) /\ arel e (annot_nonce lit e) /\ arel e (annot_pragma e) /\
    arel (EAssert conds cm) (annot_assert conds text) /\
    arel (ESeq (xs ++ ys)) (ESeq (xs ++ annot_comment0 text :: ys)).
Proof.
  intros. repeat split;
    [apply arel_comment|apply arel_nonce; assumption|apply arel_pragma|apply arel_assert_comment|apply arel_seq_insert].
Qed.

Example C18_nonce_ok_example : nonce_ok "0xA1b2".
Proof. eexists. vm_compute. reflexivity. Qed.

(* ================= Nonce (F) ================= *)

(* on the block graph Nonce adds exactly an empty Seq start, [byte lit] and [pop], in front of the child's
   unchanged fragment; under the semantics it is the child *)
Theorem C18_nonce_adds_push_pop_only :
  (forall o c lit e k g,
     lower o c (annot_nonce lit e) k g =
     let '((s, en), g1) := lower o c e k g in
     let '(popb, g2) := add_block g1 (BSimple [mkI O_pop []] (Some s)) in
     let '(byteb, g3) := add_block g2 (BSimple [mkI O_byte [AStr lit]] (Some popb)) in
     let '(st, g4) := add_block g3 (BSimple [] (Some byteb)) in
     ((st, en), g4)) /\
  (forall env f lit e stk st, nonce_ok lit ->
     denote env (S (S (S f))) (annot_nonce lit e) stk st = denote env (S (S f)) e stk st).
Proof. split; [exact nonce_lowering|exact nonce_eval]. Qed.
Print Assumptions C18_nonce_adds_push_pop_only.

(* ================= text: comments (F) ================= *)

(* Comment never hands a line with a line break to CommentExpr, whatever the text *)
Theorem C18_comment_lines_accepted :
  forall text ln, In ln (splitlines text) ->
    Forall (fun c => c <> chr 10 /\ c <> chr 13) (list_ascii_of_string ln).
Proof. exact comment_lines_accepted. Qed.
Print Assumptions C18_comment_lines_accepted.

(* every comment op assembles to one line that starts with // and contains no line feed ... *)
Theorem C18_comment_op_line :
  forall text ln, In ln (splitlines text) ->
    exists s, assemble_instr (mkI O_comment [AStr ln]) = Some s /\
              is_comment_line s = true /\ no_nl (list_ascii_of_string s).
Proof. exact comment_op_line. Qed.
Print Assumptions C18_comment_op_line.

(* ... and deleting every such line from a program text does not change what the assembler reads *)
Theorem C18_comment_lines_invisible :
  forall msel ls,
    ls <> [] -> Forall (fun ln => no_nl (list_ascii_of_string ln)) ls ->
    statements_of_text msel (join_nl ls) =
    statements_of_text msel (join_nl (filter (fun ln => negb (is_comment_line ln)) ls)).
Proof. exact comment_lines_invisible. Qed.
Print Assumptions C18_comment_lines_invisible.

(* ================= text: subroutine names ================= *)

(* (F) the label is made of [A-Za-z0-9_] whatever the name, and its line reads as exactly one label statement *)
Theorem C18_label_chars_safe :
  forall msel name i,
    forallb label_char (list_ascii_of_string (sub_label name i)) = true /\
    tokens_of_line (sub_label name i ++ ":") = [sub_label name i ++ ":"] /\
    parse_stmt msel [sub_label name i ++ ":"] = Some (Some (SLabel (sub_label name i))).
Proof.
  intros msel name i. split; [apply sub_label_chars|].
  apply label_line_statement; [|apply sub_label_chars].
  intros E. apply (sub_label_nonempty name i). rewrite E. reflexivity.
Qed.
Print Assumptions C18_label_chars_safe.

(* (F) for EVERY name the subroutine header reads as exactly one statement, the label.  Since /repo 3627216
   TealLabel.assemble emits one `// ` line per line of name.splitlines() (or one empty comment line); before that
   commit the name was emitted raw and a line feed in it injected instructions (this theorem replaces the former
   refutation C18_subroutine_comment_single_line_refuted).  Trusted assumption, as everywhere: the assembler splits
   its input at U+000A only — the separators splitlines() knows beyond \n and \r\n are gone from every emitted
   line anyway (C18_comment_lines_accepted's lemma splitlines_no_break). *)
Theorem C18_subroutine_comment_single_line :
  forall msel name i,
    assemble_comp (sub_header name i) = Some (header_text name (sub_label name i)) /\
    statements_of_text msel (header_text name (sub_label name i)) = Some [SLabel (sub_label name i)].
Proof. intros msel name i. split; [reflexivity|apply sub_header_single_statement]. Qed.
Print Assumptions C18_subroutine_comment_single_line.

(* the former witness: the name foo / int 0 / return (three lines) now yields three comment lines *)
Example C18_former_injection_witness :
  header_text evil_name (sub_label evil_name 0) =
    nl ++ "// foo" ++ nl ++ "// int 0" ++ nl ++ "// return" ++ nl ++ "fooint0return_0:" /\
  statements_of_text [] (header_text evil_name (sub_label evil_name 0)) = Some [SLabel "fooint0return_0"].
Proof. exact evil_name_header. Qed.

(* ================= instruction stream ================= *)

(* (R) "an annotation leaves the stream (comments stripped, labels alpha-renamed) unchanged" is false of the faithful
   model in three ways; each pair is related by [arel_prog] *)
Theorem C18_annotation_stream_refuted :
  arel_prog wA_plain wA_annot /\ stream_eq (opts 6 false) wA_plain wA_annot = Some false.
Proof. split; [exact wA_related|exact wA_streams_differ]. Qed.
Print Assumptions C18_annotation_stream_refuted.

Theorem C18_annotation_stream_optimizer_refuted :
  arel_prog wB_plain wB_annot /\ stream_eq (opts 9 true) wB_plain wB_annot = Some false /\
  stream_eq (opts 9 false) wB_plain wB_annot = Some true.
Proof. split; [exact wB_related|split; [exact wB_streams_differ|exact wB_streams_equal_unoptimised]]. Qed.
Print Assumptions C18_annotation_stream_optimizer_refuted.

Theorem C18_annotation_trailing_comment_refuted :
  arel_prog wC_plain wC_annot /\ stream_eq (opts 6 false) wC_plain wC_annot = Some false /\
  arel_prog wC_main_plain wC_main_annot /\
  compile_model (opts 6 false) gen_modes wC_main_plain = COk ["#pragma version 6"; "int 1"; "pop"; "int 1"; "return"] /\
  compile_model (opts 6 false) gen_modes wC_main_annot = CErr ErrCompile.
Proof.
  split; [exact wC_related|]. split; [exact wC_streams_differ|]. split; [exact wC_main_related|]. exact wC_main_outputs.
Qed.
Print Assumptions C18_annotation_trailing_comment_refuted.

(* (P) what IS invariant: on a routine's block graph g (as produced by lowering + addIncoming), deleting every comment
   op BEFORE NormalizeBlocks, sortBlocks and flattenBlocks yields exactly the comment-stripped components, whenever
   NormalizeBlocks' second pass never visits a block made of comment ops only ([normalize_clean], executable).
   PARTIAL — not covered: (i) the step from "the annotated graph with its comment ops deleted" to "the graph of the
   un-annotated program" (they differ by empty blocks: Seq start blocks and emptied comment blocks; needs the
   empty-block elision theory of NormalizeBlocks), (ii) the slot optimiser (comment ops between store and load matter:
   C18_annotation_stream_optimizer_refuted), (iii) slot assignment, spilling, subroutine flattening (they do not look
   at comment ops; tied by the correspondence only).  The side condition fails on witness (A). *)
Theorem C18_annotation_stream_invariant_partial :
  forall g start end_,
    normalize_clean g start = true ->
    routine_code (strip_graph g) start end_ = option_map strip_comps (routine_code g start end_).
Proof. exact routine_code_strip_commute. Qed.
Print Assumptions C18_annotation_stream_invariant_partial.

(* its ingredients hold unconditionally for sortBlocks and flattenBlocks *)
Theorem C18_sort_flatten_ignore_comments :
  forall g g' start end_ order, srel g g' ->
    sort_blocks g' start end_ = sort_blocks g start end_ /\
    flatten_blocks g' order = option_map strip_comps (flatten_blocks g order).
Proof. intros g g' start end_ order R. split; [apply sort_blocks_srel; exact R|apply flatten_blocks_srel; exact R]. Qed.
Print Assumptions C18_sort_flatten_ignore_comments.

(* non-vacuity: a program with Comment wrappers, a commented branch and a commented loop body satisfies the side
   condition and compiles to at least 12 components; witness (A) does not satisfy it *)
Example C18_partial_nonvacuous :
  (let '(g, s, en) := lowered ex_clean_prog in
   normalize_clean g s = true /\
   routine_code (strip_graph g) s en = option_map strip_comps (routine_code g s en) /\
   option_map (fun l => Nat.leb 12 (List.length l)) (routine_code g s en) = Some true) /\
  (let '(g, s, _) := lowered (p_main wA_annot) in normalize_clean g s = false).
Proof. split; [exact ex_clean|exact wA_side_condition_fails]. Qed.
