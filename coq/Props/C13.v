(* Props/C13.v — Literals reach the program byte-for-byte.
   Property theorems only; proofs live in Proofs/Lit*.v.
   Models: Lit/Escape.v (escapeStr), Lit/BaseN.v (validators, Bytes/Int/Addr/MethodSignature lines).
   Specifications: Lit/Spec.v (what a literal denotes), Lit/RFC4648.v (base16/32/64),
   AVM/Parse.v (the assembler's tokeniser, literal decoders and statement parser). *)
From Coq Require Import List NArith ZArith Ascii String.
From PV Require Import Base.Bytes Base.Sexp AVM.Syntax AVM.Machine AVM.Parse
  Lit.Escape Lit.BaseN Lit.RFC4648 Lit.Spec Lit.GoTok
  Proofs.LitEscapeProof Proofs.LitLineProof Proofs.LitBaseNProof Proofs.LitIntProof
  Proofs.LitFinalProof Proofs.LitEncodeProof Proofs.LitGoTokProof.
Import ListNotations.
Local Open Scope string_scope.
Local Open Scope list_scope.

(* ---------------------------------------------------------------------------------------------
   Bytes(str).  For EVERY byte string b (the UTF-8 encoding of the argument): the line
   `byte <escapeStr>` splits into exactly the op word and the literal, and the literal parses
   back to b.  No quote, backslash, `//`, `;`, blank or control byte inside b can end or split it. *)
Theorem C13_escape_roundtrip : forall b : bytes,
  tokens_of_line (byte_line b) = ["byte"; escape_str b] /\
  parse_string_literal (escape_str b) = Some b.
Proof. exact escape_roundtrip. Qed.
Print Assumptions C13_escape_roundtrip.

(* ... also with a trailing comment of arbitrary content ... *)
Theorem C13_escape_roundtrip_comment : forall (b : bytes) (cmt : string),
  tokens_of_line (byte_line b ++ " //" ++ cmt)%string = ["byte"; escape_str b].
Proof. exact escape_tokens_comment. Qed.
Print Assumptions C13_escape_roundtrip_comment.

(* ... followed by `;` and any further statements on the same line ... *)
Theorem C13_escape_roundtrip_semicolon : forall (b : bytes) (more : string),
  tokens_of_line (byte_line b ++ ";" ++ more)%string = ["byte"; escape_str b; ";"] ++ tokens_of_line more.
Proof. exact escape_tokens_semicolon. Qed.
Print Assumptions C13_escape_roundtrip_semicolon.

(* ... and preceded by other statements on the same line (any finished tokens [acc]). *)
Theorem C13_escape_roundtrip_after : forall (b : bytes) (acc : list string),
  tok_line (list_ascii_of_string (byte_line b)) [] false false false acc = rev acc ++ ["byte"; escape_str b].
Proof. exact escape_tokens_after_boundary. Qed.
Print Assumptions C13_escape_roundtrip_after.

(* Inside a program text the literal's line neither swallows nor spills into its neighbours
   (the escaped text contains no raw line feed): the statements are those before, `byte b`,
   those after. *)
Theorem C13_escape_in_program : forall msel (pre post : string) (b : bytes),
  statements_of_text msel (pre ++ nl ++ byte_line b ++ nl ++ post)%string =
  match statements_of_text msel pre, statements_of_text msel post with
  | Some x, Some y => Some (x ++ SInstr (mkP O_byte [IBytes b]) :: y)
  | _, _ => None
  end.
Proof. exact program_with_literal. Qed.
Print Assumptions C13_escape_in_program.

(* ---------------------------------------------------------------------------------------------
   Bytes, every form, against the specification [bytes_value] (UTF-8 bytes / raw bytes / RFC 4648
   decoding): a well-formed literal is accepted and its line is read by the assembler as the
   instruction pushing exactly the specified bytes; a malformed one is rejected at construction. *)
Theorem C13_bytes_literal_correct : forall msel (a : bytes_arg),
  match bytes_value a with
  | Some b => exists line, bytes_line a = Some line /\
                           parse_stmt msel (tokens_of_line line) = push_bytes b
  | None => bytes_line a = None
  end.
Proof. exact bytes_literal_correct. Qed.
Print Assumptions C13_bytes_literal_correct.

(* bytes / bytearray arguments: 0x + lower-case hex decodes to the same bytes *)
Theorem C13_hex_roundtrip : forall b : bytes,
  decode_hex0x ("0x" ++ string_of_list_ascii (hex_lower b)) = Some b.
Proof. exact hex_roundtrip. Qed.
Print Assumptions C13_hex_roundtrip.

(* validator accepts  =>  the assembler's decoder returns the RFC 4648 value;
   validator rejects  =>  the text is not a well-formed encoding *)
Theorem C13_base16_valid_decodes : forall s : string,
  if valid_base16 s
  then exists b, b16_decode (list_ascii_of_string s) = Some b /\ decode_hex0x ("0x" ++ s) = Some b
  else b16_decode (list_ascii_of_string s) = None.
Proof. exact base16_valid_decodes. Qed.
Print Assumptions C13_base16_valid_decodes.

Theorem C13_base64_valid_decodes : forall s : string,
  if valid_base64 s
  then exists b, b64_decode (list_ascii_of_string s) = Some b /\ decode_base64 s = Some b
  else b64_decode (list_ascii_of_string s) = None.
Proof. exact base64_valid_decodes. Qed.
Print Assumptions C13_base64_valid_decodes.

Theorem C13_base32_valid_decodes : forall s : string,
  if valid_base32 s
  then exists b, b32_decode (list_ascii_of_string s) = Some b /\ decode_base32 s = Some b
  else b32_decode (list_ascii_of_string s) = None.
Proof. exact base32_valid_decodes. Qed.
Print Assumptions C13_base32_valid_decodes.

(* every byte string has a canonical spelling that is accepted and read back *)
Theorem C13_base64_encode_accepted : forall b : bytes,
  valid_base64_l (b64_encode b) = true /\ decode_base64 (string_of_list_ascii (b64_encode b)) = Some b.
Proof. exact base64_encode_accepted. Qed.
Print Assumptions C13_base64_encode_accepted.

Theorem C13_base32_encode_accepted : forall (padded : bool) (b : bytes),
  valid_base32_l (b32_encode padded b) = true /\
  decode_base32 (string_of_list_ascii (b32_encode padded b)) = Some b.
Proof. exact base32_encode_accepted. Qed.
Print Assumptions C13_base32_encode_accepted.

(* ---------------------------------------------------------------------------------------------
   Int *)
Theorem C13_int_roundtrip : forall n : N,
  (n < 18446744073709551616)%N -> parse_int_arg (N_to_dec n) = Some n.
Proof. exact parse_int_arg_dec. Qed.
Print Assumptions C13_int_roundtrip.

(* the printed number has no leading zero: an assembler that gives a leading 0 a meaning (octal,
   0x, 0b, 0o prefixes) reads the same value *)
Theorem C13_int_no_leading_zero : forall n : N, (0 < n)%N ->
  exists d t, list_ascii_of_string (N_to_dec n) = ascii_of_N (48 + d) :: t /\ (0 < d)%N /\ (d < 10)%N.
Proof. exact N_to_dec_no_leading_zero. Qed.
Print Assumptions C13_int_no_leading_zero.

Theorem C13_int_literal_correct : forall msel (z : Z),
  match int_value z with
  | Some n => exists line, int_line z = Some line /\ parse_stmt msel (tokens_of_line line) = push_int n
  | None => int_line z = None
  end.
Proof. exact int_literal_correct. Qed.
Print Assumptions C13_int_literal_correct.

(* ---------------------------------------------------------------------------------------------
   Addr.  An accepted address makes the program push the first 32 of the 36 bytes its text
   decodes to (RFC 4648 base32) ... *)
Theorem C13_addr_pushes_key : forall msel (s line : string),
  addr_line s = Some line ->
  exists b, b32_decode (list_ascii_of_string s) = Some b /\ List.length b = 36%nat /\
            parse_stmt msel (tokens_of_line line) = push_addr (firstn 32 b).
Proof. exact addr_literal_reads. Qed.
Print Assumptions C13_addr_pushes_key.

(* ... texts of the wrong length or alphabet are rejected ... *)
Theorem C13_addr_rejects_shape : forall s : string,
  addr_line s = None <-> (String.length s <> 58%nat \/ b32_decode (list_ascii_of_string s) = None).
Proof. exact addr_rejects_shape. Qed.
Print Assumptions C13_addr_rejects_shape.

(* ... but "malformed addresses are rejected" is FALSE: the checksum is never examined.  For every
   hash function ck there is an accepted address that the specification [addr_value] rejects. *)
Theorem C13_addr_rejects_malformed_refuted : forall ck : bytes -> bytes,
  exists s, addr_value ck s = None /\ addr_line s <> None.
Proof. exact addr_spec_refuted. Qed.
Print Assumptions C13_addr_rejects_malformed_refuted.

Theorem C13_addr_checksum_unchecked : forall ck : bytes -> bytes,
  exists s b, addr_line s <> None /\ b32_decode (list_ascii_of_string s) = Some b /\
              skipn 32 b <> ck (firstn 32 b).
Proof. exact addr_checksum_unchecked. Qed.
Print Assumptions C13_addr_checksum_unchecked.

(* ---------------------------------------------------------------------------------------------
   MethodSignature (after /repo ae4cf37, which rejects texts containing a double quote, a
   backslash, LF or CR).  FULL statement: every accepted text is emitted as a line that splits
   into exactly the op word and one literal, the literal reads back as exactly the text, and the
   statement is the `method` instruction for that text (selector = the hash oracle msel). *)
Theorem C13_method_sig_text_safe : forall msel (s line : string),
  method_line s = Some line ->
  tokens_of_line line = ["method"; method_arg s] /\
  parse_string_literal (method_arg s) = Some (list_ascii_of_string s) /\
  forall sel, alookup String.eqb s msel = Some sel ->
              parse_stmt msel (tokens_of_line line) = push_method sel.
Proof. exact method_literal_correct. Qed.
Print Assumptions C13_method_sig_text_safe.

(* ... inside a program text the line stays one line: no other character than LF ends a TEAL
   line in the assembler model, and LF is rejected (VT, FF, FS, GS, RS, NEL, U+2028/9 - separators
   for Python's str.splitlines only - are accepted and stay inside the literal). *)
Theorem C13_method_sig_in_program : forall msel (pre post s line : string) (sel : bytes),
  method_line s = Some line -> alookup String.eqb s msel = Some sel ->
  statements_of_text msel (pre ++ nl ++ line ++ nl ++ post)%string =
  match statements_of_text msel pre, statements_of_text msel post with
  | Some x, Some y => Some (x ++ SInstr (mkP O_method_signature [IBytes sel]) :: y)
  | _, _ => None
  end.
Proof. exact method_in_program. Qed.
Print Assumptions C13_method_sig_in_program.

(* exactly the empty text and texts with one of the four characters are rejected *)
Theorem C13_method_sig_rejects : forall s : string,
  method_line s = None <-> (s = ""%string \/ existsb sig_bad (list_ascii_of_string s) = true).
Proof. exact method_line_rejects. Qed.
Print Assumptions C13_method_sig_rejects.

(* ---------------------------------------------------------------------------------------------
   Side theorems for the previous-character variant of the tokeniser (Lit/GoTok.v): a closing
   quote is recognised unless the character before it is a backslash. *)
Theorem C13_prevchar_escape_roundtrip : forall b : bytes,
  go_tokens_of_line (byte_line b) = ["byte"; escape_str b].
Proof. exact go_escape_tokens. Qed.
Print Assumptions C13_prevchar_escape_roundtrip.

Theorem C13_prevchar_escape_roundtrip_comment : forall (b : bytes) (cmt : string),
  ends_with_backslash b = false ->
  go_tokens_of_line (byte_line b ++ " //" ++ cmt)%string = ["byte"; escape_str b].
Proof. exact go_escape_tokens_comment. Qed.
Print Assumptions C13_prevchar_escape_roundtrip_comment.

Theorem C13_prevchar_comment_after_backslash_differs :
  exists b cmt,
    tokens_of_line (byte_line b ++ " //" ++ cmt)%string = ["byte"; escape_str b] /\
    go_tokens_of_line (byte_line b ++ " //" ++ cmt)%string <> ["byte"; escape_str b].
Proof. exact go_comment_after_backslash_differs. Qed.
Print Assumptions C13_prevchar_comment_after_backslash_differs.
