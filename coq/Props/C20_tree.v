(* Props/C20_tree.v — C20, the parent pointers: addIncoming computes exact predecessor lists,
   validateTree accepts exactly the graphs whose reachable edges are registered once, and
   NormalizeBlocks (current code, after the repair 39fa261 of /repo) keeps that invariant; the
   AssertionError defects of the code before the repair are kept as refutations about the explicitly
   defined old variants [normalize_pinned], [normalize_startfix], [normalize_noskip] (Comp/SimCheck.v).
   Property theorems only; proofs live in Proofs/IncomingProof.v, Proofs/Normalize*.v. *)
From Coq Require Import List NArith.
From PV Require Import Base.Bytes AVM.Syntax AVM.Machine Src.Expr Src.Denote
  Comp.Blocks Comp.Passes Comp.GraphSem Comp.SimCheck
  Proofs.LowerFrame Proofs.NormalizeSem Proofs.NormalizeGraph Proofs.IncomingProof
  Proofs.NormalizeCorrect Proofs.NormalizeExamples Proofs.LowerShape Proofs.NormalizeLowered.
From PV Require Import Comp.Lower Comp.Compile.
Import ListNotations.

(* addIncoming, with the model's fuel 3 * S (g_next g): the blocks are untouched and every block
   reachable from the start holds exactly its reachable predecessors, each once *)
Theorem C20_add_incoming_exact :
  forall (g : graph) (s : id),
    wf g -> (forall b, reach g s b -> g_inc g b = []) ->
    let g' := fst (add_incoming g s) in
    g_blk g' = g_blk g /\ g_next g' = g_next g /\ inc_exact g' s.
Proof. exact add_incoming_exact. Qed.
Print Assumptions C20_add_incoming_exact.

(* the general form (any initial lists): what is added, what is kept, no duplicate created *)
Theorem C20_add_incoming_spec :
  forall (g : graph) (s : id), wf g -> ai_post g s (fst (add_incoming g s)).
Proof. exact add_incoming_spec. Qed.
Print Assumptions C20_add_incoming_spec.

(* the fuel: 1 + 2 * g_next g iterations are enough (one pop per iteration, at most two pushes per
   first visit); the model runs with 3 * S (g_next g) *)
Theorem C20_add_incoming_fuel_suffices :
  forall (g : graph) (s : id), wf g ->
  forall fuel, 1 + 2 * g_next g <= fuel ->
    ai_post g s (fst (add_incoming_loop fuel g [(s, None, 0)] [] 0)).
Proof. exact add_incoming_fuel_suffices. Qed.
Print Assumptions C20_add_incoming_fuel_suffices.

(* validateTree: the DFS with its visited list traverses every edge out of every block reachable from
   the start (each exactly once), and asserts the edge's source occurs exactly once in the target's
   incoming list *)
Theorem C20_validate_tree_iff :
  forall (g : graph) (s : id), wf g ->
    (validate_tree g s = true <->
     forall p b, reach g s p -> In b (out_of g p) -> count_id p (g_inc g b) = 1).
Proof. exact validate_tree_iff. Qed.
Print Assumptions C20_validate_tree_iff.

Theorem C20_validate_tree_passes_after_add_incoming :
  forall (g : graph) (s : id),
    wf g -> (forall b, NoDup (g_inc g b)) ->
    validate_tree (fst (add_incoming g s)) s = true.
Proof. exact validate_tree_passes_after_add_incoming. Qed.
Print Assumptions C20_validate_tree_passes_after_add_incoming.

(* CURRENT code: validateTree's assertion survives NormalizeBlocks on ALL graphs with complete
   conditional blocks and duplicate-free incoming lists *)
Theorem C20_normalize_keeps_tree_valid :
  forall (g : graph) (s : id) (g' : graph) (s' : id),
    wf g -> cond_full g -> (forall x, NoDup (g_inc g x)) ->
    validate_tree g s = true ->
    normalize g s = (g', s') ->
    validate_tree g' s' = true.
Proof. exact normalize_keeps_tree_valid. Qed.
Print Assumptions C20_normalize_keeps_tree_valid.

(* the invariant that carries it *)
Theorem C20_normalize_invariant :
  forall (g : graph) (s : id) (g' : graph) (s' : id),
    cond_full g -> inc_covers g s -> (forall x, NoDup (g_inc g x)) ->
    normalize g s = (g', s') ->
    cond_full g' /\ inc_covers g' s' /\ (forall x, NoDup (g_inc g' x)).
Proof. exact normalize_tinv. Qed.
Print Assumptions C20_normalize_invariant.

(* the sequence of compile_one on a freshly lowered graph: addIncoming, validateTree,
   NormalizeBlocks, validateTree — neither assertion fires *)
Theorem C20_add_incoming_normalize_tree_valid :
  forall (g : graph) (s : id) (g' : graph) (s' : id),
    wf g -> cond_full g -> (forall b, NoDup (g_inc g b)) ->
    normalize (fst (add_incoming g s)) s = (g', s') ->
    validate_tree (fst (add_incoming g s)) s = true /\ validate_tree g' s' = true.
Proof. exact add_incoming_normalize_tree_valid. Qed.
Print Assumptions C20_add_incoming_normalize_tree_valid.

(* for EVERY recipe lowered as a whole routine, neither validateTree call of compile_one can fail *)
Theorem C20_lowered_tree_valid :
  forall (o : copts) (c : lctx) (e : expr) (s en : id) (g0 g' : graph) (s' : id),
    l_brk c = None -> l_cont c = None ->
    lower o c e None empty_graph = ((s, en), g0) ->
    normalize (fst (add_incoming g0 s)) s = (g', s') ->
    validate_tree (fst (add_incoming g0 s)) s = true /\ validate_tree g' s' = true.
Proof. exact lowered_tree_valid. Qed.
Print Assumptions C20_lowered_tree_valid.

(* compile_one itself, for every routine without a deferred expression (all but ABI-returning
   subroutines): once PyTeal's own checks pass it returns a compiled routine — no AssertionError —
   whose graph is the normalised lowered graph, equivalent to the lowered graph when the root is not
   loop-headed *)
Theorem C20_compile_one_tree_checks_pass :
  forall (o : copts) (sub : option routine) (ast0 : expr),
    (match sub with Some r => r_deferred r | None => None end) = None ->
    check_expr o (option_map r_ret sub) false (root_ast ast0) = None ->
    has_bad_continue false (root_ast ast0) = false ->
    exists cr, compile_one o sub ast0 = COk cr /\
      let pm := match sub with Some r => param_instr o r | None => main_param end in
      let '((s, _), g0) := lower o (mkL (option_map r_ret sub) None None pm) (root_ast ast0) None empty_graph in
      normalize (fst (add_incoming g0 s)) s = (cr_graph cr, cr_start cr) /\
      (head_loop (root_ast ast0) = false ->
       forall env, equiv_from env (g_blk g0) s (g_blk (cr_graph cr)) (cr_start cr)).
Proof. exact compile_one_tree_checks_pass. Qed.
Print Assumptions C20_compile_one_tree_checks_pass.

(* ---- HISTORICAL: the code before the repair ---- *)
(* DEFECT 1 (pinned code): an empty start block in front of a block with two predecessors.
   Witness on the pinned tree: Seq(While(Txn.fee() < Int(3)).Do(Pop(Int(1))), Approve()) -> AssertionError *)
Theorem C20_normalize_pinned_keeps_tree_valid_refuted :
  exists g s,
    wf g /\ inc_exact g s /\ norm_cert_pinned g s = true /\ validate_tree g s = true /\
    (let '(g', s') := normalize_pinned g s in validate_tree g' s') = false.
Proof. exact normalize_pinned_keeps_tree_valid_refuted. Qed.
Print Assumptions C20_normalize_pinned_keeps_tree_valid_refuted.

(* DEFECT 2 (pinned code, and pinned code + [start = outgoing[0]] alone): replaceOutgoing's [elif].
   Witness: Seq(Pop(Int(1)), If(Txn.fee() < Int(2), Seq()),
                While(Txn.fee() < Int(3)).Do(Pop(Int(1))), Approve()) -> AssertionError *)
Theorem C20_normalize_startfix_keeps_tree_valid_refuted :
  exists g s,
    wf g /\ inc_exact g s /\ norm_cert_pinned g s = true /\ validate_tree g s = true /\
    (let '(g', s') := normalize_startfix g s in validate_tree g' s') = false /\
    (let '(g', s') := normalize_pinned g s in validate_tree g' s') = false.
Proof. exact normalize_startfix_keeps_tree_valid_refuted. Qed.
Print Assumptions C20_normalize_startfix_keeps_tree_valid_refuted.

(* with those two hunks only, graphs with an empty block that is its own successor still broke the
   assertion (why the repair has its third hunk; no PyTeal expression lowers to such a graph) *)
Theorem C20_normalize_noskip_keeps_tree_valid_refuted :
  exists g s,
    wf g /\ inc_exact g s /\ validate_tree g s = true /\
    (let '(g', s') := normalize_noskip g s in validate_tree g' s') = false.
Proof. exact normalize_noskip_keeps_tree_valid_refuted. Qed.
Print Assumptions C20_normalize_noskip_keeps_tree_valid_refuted.

(* the partial repairs and the current code on the three witnesses *)
Theorem C20_repairs_on_witnesses :
  (let '(g', s') := normalize_startfix (with_incoming g_loop_first 0) 0 in validate_tree g' s') = true /\
  (let '(g', s') := normalize_noskip (with_incoming g_if_empty_then_loop 0) 0 in validate_tree g' s') = true /\
  (let '(g', s') := normalize (with_incoming g_loop_first 0) 0 in validate_tree g' s') = true /\
  (let '(g', s') := normalize (with_incoming g_if_empty_then_loop 0) 0 in validate_tree g' s') = true /\
  (let '(g', s') := normalize (with_incoming g_empty_self_loop 0) 0 in validate_tree g' s') = true.
Proof. exact repairs_on_witnesses. Qed.
Print Assumptions C20_repairs_on_witnesses.
