(* Props/C15.v — source maps are faithful and never perturb the program: the provable core.
   Property theorems only; proofs live in Proofs/VLQProof.v, VLQKernelProof.v, R3Proof.v, AnnotProof.v.
   What is NOT here (validated on the implementation by harness/c15.py, see design_notes/C15.md):
   frame capture, one entry per TEAL line, marker attribution, TEAL identity with/without the map. *)
From Coq Require Import ZArith List Bool Ascii String.
From PV Require Import AVM.Parse Lit.PyInt Lit.VLQ Lit.R3 Lit.Annot Gen.VLQKernel
  Proofs.VLQProof Proofs.VLQKernelProof Proofs.R3Proof Proofs.AnnotProof.
Import ListNotations.
Local Open Scope Z_scope.

(* 1. base64-VLQ: every list of integers (negative, zero, arbitrarily large) survives encode/decode. *)
Theorem vlq_roundtrip : forall l : list Z, vlq_decode (vlq_encode l) = Some l.
Proof. exact vlq_roundtrip_hand. Qed.
Print Assumptions vlq_roundtrip.

(* 1g. the same about the kernel translated from the Python source on this run: with enough fuel
   the encoder terminates (never runs out of fuel, never raises) and the decoder reads the list back. *)
Theorem vlq_roundtrip_generated : forall (l : list Z) (F : nat), (enc_fuel l <= F)%nat ->
  exists s, base64vlq_encode F l = Some s /\ base64vlq_decode s = Some l.
Proof. exact gen_vlq_roundtrip. Qed.
Print Assumptions vlq_roundtrip_generated.

(* 1m. the translated kernel IS the hand model (character codes instead of characters) *)
Theorem vlq_generated_is_model :
  (forall l F, (enc_fuel l <= F)%nat -> base64vlq_encode F l = Some (map code (vlq_encode_chars l))) /\
  (forall cs, base64vlq_decode (map code cs) = vlq_decode_chars cs).
Proof. split; [exact gen_encode_eq|exact gen_decode_eq]. Qed.
Print Assumptions vlq_generated_is_model.

(* 2. Revision-3 mappings: a non-empty table whose references name their source and whose columns
   increase within each line (what R3SourceMap itself demands) is read back unchanged — same
   line / column / source / source line / source column / name associations. *)
Theorem r3_mappings_roundtrip : forall m : r3table, m <> [] -> wf_table m ->
  let '(srcs, names, mappings) := r3_to_json m in
  r3_from_json srcs names mappings = Some m.
Proof. exact r3_roundtrip. Qed.
Print Assumptions r3_mappings_roundtrip.

(* 3. annotation: a line that ends outside a string literal / base64 argument, followed by at least
   one blank, the marker // and ANY text, has the tokens of the line alone. *)
Theorem annotation_strips : forall L ws text : string,
  line_ends_clean L = true -> blanks (list_ascii_of_string ws) ->
  tokens_of_line (annotate L ws text) = tokens_of_line L.
Proof. exact annotation_strips_line. Qed.
Print Assumptions annotation_strips.

(* 3p. whole programs: lines and comment texts without a line break, joined by newlines *)
Theorem annotation_strips_whole_program : forall prog : list aline, prog <> [] -> Forall aline_ok prog ->
  map tokens_of_line (split_lines (join_with newline (map aline_annotated prog)) []) =
  map tokens_of_line (split_lines (join_with newline (map al_teal prog)) []).
Proof. exact annotation_strips_program. Qed.
Print Assumptions annotation_strips_whole_program.

(* ---------------- non-vacuity and behaviour examples ---------------- *)
Example vlq_example :
  vlq_encode [0; 1; -1; 15; -15; 16; -16; 1024; -(2 ^ 70)] = "ACDefgBhBggChgggggggggggggC"%string /\
  vlq_decode "ACDefgBhBggChgggggggggggggC" = Some [0; 1; -1; 15; -15; 16; -16; 1024; -(2 ^ 70)].
Proof. split; vm_compute; reflexivity. Qed.

(* decoder quirks kept by the model: minus zero, dropped unfinished group, non-alphabet character *)
Example vlq_decoder_quirks :
  vlq_decode "B" = Some [0] /\ vlq_decode "Ag" = Some [0] /\ vlq_decode "A A" = Some [0; -15] /\ vlq_decode "A~" = None.
Proof. repeat split; vm_compute; reflexivity. Qed.

Definition example_table : r3table :=
  [ [mkSeg 0 (Some (mkRef (Some "prog.py"%string) 19 8 None))];
    [];
    [mkSeg 0 (Some (mkRef (Some "lib.py"%string) 3 0 (Some "helper"%string))); mkSeg 7 None;
     mkSeg 9 (Some (mkRef (Some "prog.py"%string) 2 40 (Some "helper"%string)))] ].

Example r3_example_wf : example_table <> [] /\ wf_table example_table.
Proof.
  split; [discriminate|].
  repeat constructor; cbn; discriminate.
Qed.

Example r3_example :
  r3_to_json example_table = (["prog.py"; "lib.py"], ["helper"], "AAmBQ;;AChBRA,O,EDDwCA")%string /\
  r3_from_json ["prog.py"; "lib.py"]%string ["helper"%string] "AAmBQ;;AChBRA,O,EDDwCA" = Some example_table.
Proof. split; vm_compute; reflexivity. Qed.

(* why the round trip needs m <> [] : ''.split(';') is [''] — no associations either way *)
Example r3_empty_table_reads_as_one_empty_line :
  r3_to_json [] = ([], [], ""%string) /\ r3_from_json [] [] "" = Some [[]].
Proof. split; vm_compute; reflexivity. Qed.

Example annotation_examples :
  line_ends_clean "int 100017" = true /\
  line_ends_clean "byte ""a // b ; c""" = true /\
  line_ends_clean "byte base64(//8=)" = true /\
  line_ends_clean "byte base64 //8=" = true /\
  line_ends_clean "" = true /\
  line_ends_clean "// hello // world" = true /\
  blanks (list_ascii_of_string "  ") /\
  tokens_of_line (annotate "byte ""a // b ; c""" "  " "  prog.py  41  pt.Bytes('a // b ; c')") = ["byte"; """a // b ; c"""]%string.
Proof. repeat split; try (vm_compute; reflexivity); discriminate. Qed.

(* the hypothesis is needed: inside an unterminated string, or where a base64 argument is expected,
   the appended text is NOT a comment *)
Example annotation_hypothesis_needed :
  line_ends_clean "byte ""abc" = false /\
  tokens_of_line (annotate "byte ""abc" " " " x") <> tokens_of_line "byte ""abc" /\
  line_ends_clean "byte base64" = false /\
  tokens_of_line (annotate "byte base64" " " " x") <> tokens_of_line "byte base64".
Proof. repeat split; try (vm_compute; reflexivity); vm_compute; discriminate. Qed.
