(* Props/C02.v — Subroutine calls behave as function calls, incl. recursion.
   Property theorems only; proofs live in Proofs/SpillProof.v, Proofs/PrologueProof.v,
   Proofs/CallPartial.v; the semantics in Comp/SpillSem.v (abstract callee) and AVM/Machine.v. *)
From Coq Require Import String.
From Coq Require Import Arith NArith Bool List.
From PV Require Import Base.Bytes AVM.Syntax AVM.Ops AVM.Machine Comp.Passes Comp.Compile
  Comp.SpillSem Proofs.SpillProof Proofs.PrologueProof Proofs.CallPartial Proofs.CallExamples.
Import ListNotations.
Notation length := List.length.

(* ---- the call statement is kept, exactly where it was, between the spill and the restore code ---- *)
Theorem C02_spill_keeps_call :
  forall version ret slots nargs stmt, In stmt (spill_one version ret slots nargs stmt).
Proof.
  intros. unfold spill_one. apply in_or_app. right. apply in_or_app. right. simpl. auto.
Qed.
Print Assumptions C02_spill_keeps_call.

(* ---- (F) the spill/restore code around a re-entrant call preserves the caller's frame ----
   For every version (all three code paths: cover / uncover-or-swap / dig), every non-empty duplicate-free
   list of local slots, every number of arguments, every argument list, every stack S of operands the
   caller has already computed, every scratch content m, and every callee — which may rewrite ALL slots —
   that leaves as many results as the flag r (second parameter of spill_one) says
   — [spill] passes the CALLED subroutine's flag since the fix 258948a in /repo —:
   the code emitted by spillLocalSlotsDuringRecursion leaves the callee's results on top of S,
   every local slot holds its value from before the call, every other slot holds what the callee left.
   [length slots + numArgs - 1 <= 255] and [length slots <= 255]: the emitted uncover/dig/cover
   immediates are bytes. *)
Theorem C02_spill_frame_same_type :
  forall (version : N) (r : bool) (slots : list N) (numArgs : nat) (cargs : list arg)
         (callee : callee_t) (args S : list value) (m : scratch),
    slots <> [] -> NoDup slots -> Forall slot_ok slots ->
    length args = numArgs ->
    (length slots + numArgs - 1 <= 255)%nat -> (length slots <= 255)%nat ->
    length (fst (callee args m)) = (if r then 1 else 0)%nat ->
    exists m'',
      srun callee numArgs (spill_one version r slots numArgs (call_stmt cargs)) (rev args ++ S) m
      = Some (rev (fst (callee args m)) ++ S, m'')
      /\ (forall n, In n slots -> m'' n = m n)
      /\ (forall n, ~ In n slots -> m'' n = snd (callee args m) n).
Proof. exact spill_frame_same_type. Qed.
Print Assumptions C02_spill_frame_same_type.

(* no local slots: [spill] leaves the routine alone; the bare call has the frame property for any
   number of results *)
Theorem C02_spill_frame_no_slots :
  forall (numArgs : nat) (cargs : list arg) (callee : callee_t) (args S : list value) (m : scratch),
    length args = numArgs ->
    srun callee numArgs [call_stmt cargs] (rev args ++ S) m
    = Some (rev (fst (callee args m)) ++ S, snd (callee args m)).
Proof. exact spill_frame_no_slots. Qed.
Print Assumptions C02_spill_frame_no_slots.

(* ---- (R) the frame property FAILS when the flag and the callee disagree ----
   This is what the compiler did before the fix 258948a (flag = the CALLER's return type) under mutual
   recursion none <-> uint64.  Flag false, callee returns a value: the stack is wrong
   and both local slots are corrupted — on AVM 4 and AVM 6 *)
Theorem C02_spill_frame_refuted_callee_returns :
  forall version, version = 4%N \/ version = 6%N ->
  exists stk m'',
    srun callee_one 1 (spill_one version false [3;4]%N 1 (call_stmt [ASub 1%N])) (rev [VI 7] ++ [VI 1000]) m0
    = Some (stk, m'')
    /\ length (fst (callee_one [VI 7] m0)) = 1%nat
    /\ stk <> rev (fst (callee_one [VI 7] m0)) ++ [VI 1000]
    /\ m'' 3%N <> m0 3%N /\ m'' 4%N <> m0 4%N.
Proof. exact spill_frame_refuted_callee_returns. Qed.
Print Assumptions C02_spill_frame_refuted_callee_returns.

(* flag true, callee returns nothing: the caller's operand (1000) is consumed, both slots corrupted *)
Theorem C02_spill_frame_refuted_callee_none :
  forall version, version = 4%N \/ version = 6%N ->
  exists stk m'',
    srun callee_none 1 (spill_one version true [3;4]%N 1 (call_stmt [ASub 1%N])) (rev [VI 7] ++ [VI 1000]) m0
    = Some (stk, m'')
    /\ length (fst (callee_none [VI 7] m0)) = 0%nat
    /\ stk <> rev (fst (callee_none [VI 7] m0)) ++ [VI 1000]
    /\ m'' 3%N <> m0 3%N /\ m'' 4%N <> m0 4%N.
Proof. exact spill_frame_refuted_callee_none. Qed.
Print Assumptions C02_spill_frame_refuted_callee_none.

(* [spill] hands spill_one the CALLED subroutine's flag (the fix 258948a), shown on the mutual recursion
   f : none (id 1) <-> g : uint64 (id 2): the call of g inside f is wrapped for a result, the call of f
   inside g for none, so C02_spill_frame_same_type applies to both calls. *)
Theorem C02_spill_uses_callee_flag :
  spill 6 ex_prog
        [mkFR None [call_stmt [ASub 1%N]];
         mkFR (Some ex_f) [call_stmt [ASub 2%N]];
         mkFR (Some ex_g) [call_stmt [ASub 1%N]]]
        [(None, []); (Some 1%N, [3; 4]%N); (Some 2%N, [5]%N)]
  = COk [mkFR None [call_stmt [ASub 1%N]];
         mkFR (Some ex_f) (spill_one 6 true [3; 4]%N 1 (call_stmt [ASub 2%N]));
         mkFR (Some ex_g) (spill_one 6 false [5]%N 1 (call_stmt [ASub 1%N]))].
Proof. exact spill_uses_callee_flag. Qed.
Print Assumptions C02_spill_uses_callee_flag.

(* ---- (F) scratch convention: reversed stores bind parameter i to argument i ---- *)
Theorem C02_prologue_scratch :
  forall (callee : callee_t) (na : nat) (slots : list N) (args S : list value) (m : scratch),
    NoDup slots -> Forall slot_ok slots -> length args = length slots ->
    exists m',
      srun callee na (scratch_prologue slots) (rev args ++ S) m = Some (S, m')
      /\ (forall i s v, nth_error slots i = Some s -> nth_error args i = Some v ->
            m' s = v
            /\ forall stk, sstep callee na (OpI O_load s) stk m' = Some (v :: stk, m'))
      /\ (forall n, ~ In n slots -> m' n = m n).
Proof. exact prologue_scratch. Qed.
Print Assumptions C02_prologue_scratch.

(* ---- (F) frame-pointer convention on the reference machine ---- *)
Theorem C02_callsub_proto :
  forall cx p (m : mach) (l : string) (t : nat) (A R : N),
    nth_error (pr_code p) (m_pc m) = Some (mkP O_callsub [IName l]) ->
    label_pc p l = Some t ->
    nth_error (pr_code p) t = Some (mkP O_proto [IInt A; IInt R]) ->
    (height m <= STACK_MAX)%nat -> (N.to_nat A <= height m)%nat ->
    let m1 := mkM t (m_stack m) (mkFrame (S (m_pc m)) None :: m_calls m) true (m_intc m) (m_bytec m) (m_st m) in
    step cx p m = Running m1 /\
    step cx p m1 =
    Running (mkM (S t) (m_stack m)
                 (mkFrame (S (m_pc m)) (Some (height m, N.to_nat A, N.to_nat R)) :: m_calls m)
                 false (m_intc m) (m_bytec m) (m_st m)).
Proof. exact callsub_proto_steps. Qed.
Print Assumptions C02_callsub_proto.

(* frame_dig (i - A) pushes argument i for EVERY content above the frame pointer *)
Theorem C02_prologue_fp :
  forall cx p (m : mach) (ret : nat) (fs : list frame) (A R i : nat) (args locals C : list value) (v : value),
    m_calls m = mkFrame ret (Some (length (rev args ++ C), A, R)) :: fs ->
    m_stack m = locals ++ rev args ++ C ->
    length args = A -> (A <= 128)%nat -> nth_error args i = Some v ->
    (height m <= STACK_MAX)%nat ->
    nth_error (pr_code p) (m_pc m) = Some (mkP O_frame_dig [IInt (256 - N.of_nat (A - i))]) ->
    step cx p m = Running (with_pc_stack m (S (m_pc m)) (v :: m_stack m)).
Proof. exact prologue_fp. Qed.
Print Assumptions C02_prologue_fp.

(* frame_bury 0; retsub with the result on top of any number of locals delivers result :: caller stack *)
Theorem C02_retsub_fp :
  forall cx p (m : mach) (ret : nat) (fs : list frame) (A : nat) (imms : list imm)
         (result cell0 : value) (above args C : list value),
    m_calls m = mkFrame ret (Some (length (rev args ++ C), A, 1%nat)) :: fs ->
    m_stack m = result :: above ++ cell0 :: rev args ++ C ->
    length args = A -> (height m <= STACK_MAX)%nat ->
    nth_error (pr_code p) (m_pc m) = Some (mkP O_frame_bury [IInt 0]) ->
    nth_error (pr_code p) (S (m_pc m)) = Some (mkP O_retsub imms) ->
    let m1 := with_pc_stack m (S (m_pc m)) (above ++ result :: rev args ++ C) in
    step cx p m = Running m1 /\
    step cx p m1 = Running (mkM ret (result :: C) fs false (m_intc m) (m_bytec m) (m_st m)).
Proof. exact retsub_fp. Qed.
Print Assumptions C02_retsub_fp.

Theorem C02_retsub_fp_no_locals :
  forall cx p (m : mach) (ret : nat) (fs : list frame) (A : nat) (imms : list imm)
         (result : value) (args C : list value),
    m_calls m = mkFrame ret (Some (length (rev args ++ C), A, 1%nat)) :: fs ->
    m_stack m = result :: rev args ++ C ->
    length args = A -> (height m <= STACK_MAX)%nat ->
    nth_error (pr_code p) (m_pc m) = Some (mkP O_retsub imms) ->
    step cx p m = Running (mkM ret (result :: C) fs false (m_intc m) (m_bytec m) (m_st m)).
Proof. exact retsub_fp_no_locals. Qed.
Print Assumptions C02_retsub_fp_no_locals.

Theorem C02_retsub_fp_none :
  forall cx p (m : mach) (ret : nat) (fs : list frame) (A : nat) (imms : list imm)
         (locals args C : list value),
    m_calls m = mkFrame ret (Some (length (rev args ++ C), A, 0%nat)) :: fs ->
    m_stack m = locals ++ rev args ++ C ->
    length args = A -> (height m <= STACK_MAX)%nat ->
    nth_error (pr_code p) (m_pc m) = Some (mkP O_retsub imms) ->
    step cx p m = Running (mkM ret C fs false (m_intc m) (m_bytec m) (m_st m)).
Proof. exact retsub_fp_none. Qed.
Print Assumptions C02_retsub_fp_none.

(* general form: R result cells at the frame pointer, anything above *)
Theorem C02_retsub_fp_general :
  forall cx p (m : mach) (ret : nat) (fs : list frame) (A R : nat) (imms : list imm)
         (above rs args C : list value),
    m_calls m = mkFrame ret (Some (length (rev args ++ C), A, R)) :: fs ->
    m_stack m = above ++ rs ++ rev args ++ C ->
    length args = A -> length rs = R ->
    (height m <= STACK_MAX)%nat ->
    nth_error (pr_code p) (m_pc m) = Some (mkP O_retsub imms) ->
    step cx p m = Running (mkM ret (rs ++ C) fs false (m_intc m) (m_bytec m) (m_st m)).
Proof. exact retsub_fp_general. Qed.
Print Assumptions C02_retsub_fp_general.

(* ---- bridge: a non-call step of the straight-line semantics is a machine step ---- *)
Theorem C02_sstep_is_exec_op :
  forall cx callee na (o : opc) (ns : list N) stk (st : mstate) stk' m',
    o <> O_callsub ->
    sstep callee na (COp (mkI o (map AInt ns))) stk (sc_of st) = Some (stk', m') ->
    exists st', exec_op cx o (map IInt ns) stk st = OOk stk' st' /\ forall n, sc_of st' n = m' n.
Proof. exact sstep_is_exec_op. Qed.
Print Assumptions C02_sstep_is_exec_op.

(* ---- (P) end to end on the machine: non-recursive call, scratch convention, straight-line body ----
   Missing for the full property: bodies with control flow / nested or recursive calls (recursion is
   covered by C02_spill_frame_same_type with an abstract callee, not composed with this theorem), the
   frame-pointer convention end to end (pieces above), and the link from the source semantics to [f]. *)
Theorem C02_call_correct_partial :
  forall cx p (f : list value -> value)
         (m : mach) (l : string) (t : nat) (slots : list N) (args Sk : list value)
         (body : list pinstr) (imms : list imm),
    nth_error (pr_code p) (m_pc m) = Some (mkP O_callsub [IName l]) ->
    label_pc p l = Some t ->
    seg_at p t (map store_instr (rev slots) ++ body) ->
    nth_error (pr_code p) (t + length slots + length body) = Some (mkP O_retsub imms) ->
    m_stack m = rev args ++ Sk -> length args = length slots ->
    NoDup slots -> Forall slot_ok slots ->
    (height m <= STACK_MAX)%nat -> (S (length Sk) <= STACK_MAX)%nat ->
    (forall st1,
        (forall i s v, nth_error slots i = Some s -> nth_error args i = Some v -> sc_of st1 s = v) ->
        exists st2, mrun cx body Sk st1 = Some (f args :: Sk, st2)) ->
    exists st2,
      msteps cx p (2 + length slots + length body) m
      = Some (mkM (S (m_pc m)) (f args :: Sk) (m_calls m) false (m_intc m) (m_bytec m) st2).
Proof. exact call_correct_partial_fun. Qed.
Print Assumptions C02_call_correct_partial.
