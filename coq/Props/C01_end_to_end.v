(* Props/C01_end_to_end.v — property C01 (compiled TEAL computes what the PyTeal expression denotes)
   for ONE routine, end to end: from the source semantics [denote] down to the flattened linear
   instruction list, composed from the stage theorems
     A  lowering                       Props/C01.v            (C01_lower_correct)
     D  addIncoming + NormalizeBlocks  Props/C01_normalize.v  (lowered_normalize_correct)
     C  sortBlocks                     Props/C01_flatten.v    (C01_sort_blocks_complete)
     B  flattenBlocks                  Props/C01_flatten.v    (C01_flatten_correct)
   and the glue proved in Proofs/EndToEnd*.v.  Property theorems only. *)
From Coq Require Import List NArith String.
From PV Require Import Base.Bytes AVM.Syntax AVM.Machine Src.Expr Src.Denote
  Comp.Blocks Comp.Lower Comp.Passes Comp.GraphSem Comp.LinearSem Comp.SimCheck Comp.Compile
  Proofs.LowerFrame Proofs.LowerLemmas Proofs.LowerCorrect Proofs.LowerShape
  Proofs.NormalizeLowered Proofs.FlattenCorrect Proofs.SortCorrect
  Proofs.EndToEndExits Proofs.EndToEndGlue Proofs.EndToEnd Proofs.EndToEndTyped Proofs.EndToEndExamples
  Proofs.OptimizeSem Proofs.OptimizeCorrect Proofs.EndToEndOpt Proofs.EndToEndOptExample.
From PV Require Import Src.WellTyped.
Import ListNotations.

(* ---- the end-to-end theorem ----
   For every option record o, every routine context — the main routine (sub = None) or a subroutine
   body (sub = Some r) without deferred expression (every subroutine except an ABI-returning one) —
   and every recipe ast0 such that
     * compile_one o sub ast0 succeeds with cr (PyTeal's own checks, the lowering, addIncoming,
       validateTree, NormalizeBlocks, validateTree), the scratch-slot optimiser not being applied,
     * sortBlocks and flattenBlocks succeed on cr, giving the instruction list [code],
     * the root handed to the lowering is not headed by a loop (true of every root PyTeal can build; see
       C01_end_to_end_needs_root_condition and C01_root_head_loop),
   the start block of the routine is at pc 0 of [code], and for every evaluation environment consistent
   with the lowering context (same notion of "inside a subroutine", same parameter loads), every fuel,
   every initial operand stack and machine state: whenever the source semantics gives an outcome
   other than out-of-fuel / outside-the-modelled-fragment, the linear code started at pc 0 with that
   stack and state reaches exactly the corresponding halting configuration
       DExit v st  ->  LExit v st    (return / exit: same value, same state)
       DRet stk st ->  LRet stk st   (retsub: same stack, same state)
       DFail       ->  LFail
       DNorm/DEnd  ->  LEnd stk st   (control ran off the routine; DBrk/DCont likewise, but the checks of
                                      compile_one exclude an escaping Break/Continue)
   and reaches NO other halting configuration. *)
Theorem C01_routine_end_to_end :
  forall (o : copts) (sub : option routine) (ast0 : expr) (cr : croutine)
         (order : list id) (code : list comp),
    (match sub with Some r => r_deferred r | None => None end) = None ->
    compile_one o sub ast0 = COk cr ->
    head_loop (root_ast ast0) = false ->
    sort_blocks (cr_graph cr) (cr_start cr) (cr_end cr) = Some order ->
    flatten_blocks (cr_graph cr) order = Some code ->
    pos_of (cr_graph cr) order (cr_start cr) = 0 /\
    forall env : denv, consistent env (routine_ctx o sub) ->
    forall (fuel : nat) (stk : list value) (st : mstate) (h : lconf),
      halt_of (denote env fuel (root_ast ast0) stk st) = Some h ->
      lstar env code (LAt 0 stk st) h /\
      forall c2, lstar env code (LAt 0 stk st) c2 -> lfinal c2 = true -> c2 = h.
Proof. exact routine_end_to_end. Qed.
Print Assumptions C01_routine_end_to_end.

(* the same, one stage earlier: the normalised block graph of the routine (what the optimiser, the slot
   assignment and sortBlocks receive) computes what the source semantics prescribes *)
Theorem C01_routine_graph_correct :
  forall (o : copts) (sub : option routine) (ast0 : expr) (cr : croutine),
    (match sub with Some r => r_deferred r | None => None end) = None ->
    compile_one o sub ast0 = COk cr ->
    head_loop (root_ast ast0) = false ->
    forall env : denv, consistent env (routine_ctx o sub) ->
    forall (fuel : nat) (stk : list value) (st : mstate) (h : gconf),
      ghalt_of (denote env fuel (root_ast ast0) stk st) = Some h ->
      star env (g_blk (cr_graph cr)) (GAt (cr_start cr) stk st) h.
Proof. exact routine_graph_correct. Qed.
Print Assumptions C01_routine_graph_correct.

(* ---- the glue facts ---- *)

(* lowering a whole routine that passes PyTeal's checks (no Break/Continue outside a loop, no Continue
   in a loop header): the only block control can fall off is the end block, a simple block without
   successor.  This is the [single_exit] / [ends_last] obligation of the sort and flatten stages. *)
Theorem C01_lowered_routine_single_exit :
  forall (o : copts) (c : lctx) (e : expr) (s en : id) (g0 : graph),
    l_brk c = None -> l_cont c = None ->
    check_expr o (l_sub_ret c) false e = None -> has_bad_continue false e = false ->
    lower o c e None empty_graph = ((s, en), g0) ->
    (forall i bb, g_blk g0 i = Some bb ->
       existsb is_term_op (b_ops bb) = false /\ outgoing bb = [] -> i = en) /\
    exists ops, g_blk g0 en = Some (BSimple ops None).
Proof. exact lower_root_exits. Qed.
Print Assumptions C01_lowered_routine_single_exit.

(* the general form, for every fragment, continuation and loop context *)
Theorem C01_lower_exits :
  forall (o : copts) (e : expr) (c : lctx) (il pb : bool),
    (il = true -> l_brk c <> None) /\ (il = true -> pb = false -> l_cont c <> None) ->
    check_expr o (l_sub_ret c) il e = None /\ has_bad_continue pb e = false ->
    forall (k : option id) (g : graph) (s en : id) (g' : graph),
      wf g -> lower o c e k g = ((s, en), g') ->
      (forall i bb, g_blk g' i = Some bb ->
         existsb is_term_op (b_ops bb) = false /\ outgoing bb = [] ->
         g_blk g i = Some bb \/ match k with None => Some en | Some _ => None end = Some i) /\
      exists ops n, g_blk g' en = Some (BSimple ops n) /\ (n = k \/ n = l_brk c \/ n = l_cont c).
Proof. exact lower_exits. Qed.
Print Assumptions C01_lower_exits.

(* NormalizeBlocks keeps the single exit (and the end block keeps its id: it absorbs its predecessor) *)
Theorem C01_normalize_keeps_exit :
  forall (g : graph) (s : id) (g' : graph) (s' en : id),
    normalize g s = (g', s') -> exits_at g en -> exits_at g' en.
Proof. exact normalize_exits. Qed.
Print Assumptions C01_normalize_keeps_exit.

(* everything the later stages use about a compiled routine, in one statement *)
Theorem C01_compiled_routine_facts :
  forall (o : copts) (sub : option routine) (ast0 : expr) (cr : croutine),
    (match sub with Some r => r_deferred r | None => None end) = None ->
    compile_one o sub ast0 = COk cr ->
    exists s g0,
      lower o (routine_ctx o sub) (root_ast ast0) None empty_graph = ((s, cr_end cr), g0) /\
      wf g0 /\
      (head_loop (root_ast ast0) = false ->
       forall env, equiv_from env (g_blk g0) s (g_blk (cr_graph cr)) (cr_start cr)) /\
      wf (cr_graph cr) /\
      exits_at (cr_graph cr) (cr_end cr).
Proof. exact compiled_routine_facts. Qed.
Print Assumptions C01_compiled_routine_facts.

(* ---- the side condition on the root ---- *)
Theorem C01_root_head_loop :
  forall ast0, head_loop ast0 = false -> head_loop (root_ast ast0) = false.
Proof. exact root_head_loop. Qed.
Print Assumptions C01_root_head_loop.

Theorem C01_root_head_loop_stmt :
  forall ast0, has_return ast0 = false -> type_of ast0 = TNone -> head_loop (root_ast ast0) = false.
Proof. exact root_head_loop_stmt. Qed.
Print Assumptions C01_root_head_loop_stmt.

(* every well-typed recipe (Src/WellTyped.v: what PyTeal's constructors accept for a main routine — the
   quantifier of C20) satisfies it: a loop has type none and no constructor takes a none-typed first
   operand / condition / returned value *)
Theorem C01_well_typed_root_not_loop_headed :
  forall (fty : string -> string -> option ty) (ast0 : expr),
    well_typed fty false ast0 = true -> head_loop (root_ast ast0) = false.
Proof. exact wt_root_head_loop. Qed.
Print Assumptions C01_well_typed_root_not_loop_headed.

(* hence, for a well-typed main routine, the end-to-end theorem has no side condition *)
Theorem C01_main_end_to_end_well_typed :
  forall (fty : string -> string -> option ty) (o : copts) (ast0 : expr) (cr : croutine)
         (order : list id) (code : list comp),
    well_typed fty false ast0 = true ->
    compile_one o None ast0 = COk cr ->
    sort_blocks (cr_graph cr) (cr_start cr) (cr_end cr) = Some order ->
    flatten_blocks (cr_graph cr) order = Some code ->
    pos_of (cr_graph cr) order (cr_start cr) = 0 /\
    forall env : denv, consistent env (routine_ctx o None) ->
    forall (fuel : nat) (stk : list value) (st : mstate) (h : lconf),
      halt_of (denote env fuel (root_ast ast0) stk st) = Some h ->
      lstar env code (LAt 0 stk st) h /\
      forall c2, lstar env code (LAt 0 stk st) c2 -> lfinal c2 = true -> c2 = h.
Proof. exact main_end_to_end_well_typed. Qed.
Print Assumptions C01_main_end_to_end_well_typed.

(* a subroutine as compile_rec compiles it (compile_one o (Some r) (decl_body o r)): the declaration body
   is a Seq, so the side condition holds for EVERY subroutine without deferred expression *)
Theorem C01_subroutine_end_to_end :
  forall (o : copts) (r : routine) (cr : croutine) (order : list id) (code : list comp),
    r_deferred r = None ->
    compile_one o (Some r) (decl_body o r) = COk cr ->
    sort_blocks (cr_graph cr) (cr_start cr) (cr_end cr) = Some order ->
    flatten_blocks (cr_graph cr) order = Some code ->
    pos_of (cr_graph cr) order (cr_start cr) = 0 /\
    forall env : denv, consistent env (routine_ctx o (Some r)) ->
    forall (fuel : nat) (stk : list value) (st : mstate) (h : lconf),
      halt_of (denote env fuel (root_ast (decl_body o r)) stk st) = Some h ->
      lstar env code (LAt 0 stk st) h /\
      forall c2, lstar env code (LAt 0 stk st) c2 -> lfinal c2 = true -> c2 = h.
Proof. exact subroutine_end_to_end. Qed.
Print Assumptions C01_subroutine_end_to_end.

(* it cannot be dropped: a While used as an operand (rejected by PyTeal's constructors, accepted by the
   checks of compile_one) gives a routine whose code starts with the END of the loop body *)
Theorem C01_end_to_end_needs_root_condition :
  exists o ast0 cr order code env fuel stk st h,
    compile_one o None ast0 = COk cr /\
    head_loop (root_ast ast0) = true /\
    sort_blocks (cr_graph cr) (cr_start cr) (cr_end cr) = Some order /\
    flatten_blocks (cr_graph cr) order = Some code /\
    consistent env (routine_ctx o None) /\
    halt_of (denote env fuel (root_ast ast0) stk st) = Some h /\
    ~ lstar env code (LAt 0 stk st) h.
Proof. exact end_to_end_needs_root_condition. Qed.
Print Assumptions C01_end_to_end_needs_root_condition.

(* ---- non-vacuity: a routine with a loop and an If; every hypothesis holds, the run predicted by the
   theorem is the run the linear machine computes ---- *)
Theorem C01_routine_end_to_end_example :
  let cr := cr_of opts0 ex_ast in
  compile_one opts0 None ex_ast = COk cr /\
  head_loop (root_ast ex_ast) = false /\
  sort_blocks (cr_graph cr) (cr_start cr) (cr_end cr) = Some (order_of cr) /\
  flatten_blocks (cr_graph cr) (order_of cr) = Some (code_of cr) /\
  consistent ex_env1 (routine_ctx opts0 None) /\
  denote ex_env1 100 (root_ast ex_ast) [] ex_st = DExit (VI 1) ex_final /\
  lstar ex_env1 (code_of cr) (LAt 0 [] ex_st) (LExit (VI 1) ex_final) /\
  lrun 200 ex_env1 (code_of cr) (LAt 0 [] ex_st) = LExit (VI 1) ex_final /\
  List.length (code_of cr) = 22.
Proof. exact routine_end_to_end_example. Qed.
Print Assumptions C01_routine_end_to_end_example.

Theorem C01_example_is_well_typed : well_typed (fun _ _ => None) false ex_ast = true.
Proof. exact ex_ast_well_typed. Qed.
Print Assumptions C01_example_is_well_typed.

(* a subroutine with one argument and a loop: called with 4 on the stack it returns 12 by retsub *)
Theorem C01_subroutine_end_to_end_example :
  compile_one sub_opts (Some ex_sub) (decl_body sub_opts ex_sub) = COk sub_cr /\
  sort_blocks (cr_graph sub_cr) (cr_start sub_cr) (cr_end sub_cr) = Some (order_of sub_cr) /\
  flatten_blocks (cr_graph sub_cr) (order_of sub_cr) = Some (code_of sub_cr) /\
  consistent ex_env_sub (routine_ctx sub_opts (Some ex_sub)) /\
  denote ex_env_sub 100 (root_ast (decl_body sub_opts ex_sub)) [VI 4] ex_st = DRet [VI 12] sub_final /\
  lstar ex_env_sub (code_of sub_cr) (LAt 0 [VI 4] ex_st) (LRet [VI 12] sub_final) /\
  lrun 200 ex_env_sub (code_of sub_cr) (LAt 0 [VI 4] ex_st) = LRet [VI 12] sub_final.
Proof. exact subroutine_end_to_end_example. Qed.
Print Assumptions C01_subroutine_end_to_end_example.

(* ---- with the scratch-slot optimiser (stretch; PARTIAL) ----
   The optimiser deletes load/store operations only: the graph stays well-formed and keeps its single exit
   (unconditionally), so sortBlocks/flattenBlocks are correct on the optimised graph too. *)
Theorem C01_optimizer_keeps_shape :
  forall (g : graph) (start : id) (skip : list N) (g' : graph) (en : id),
    optimize_routine g start skip = Some g' -> wf g -> exits_at g en -> wf g' /\ exits_at g' en.
Proof. exact optimize_keeps_shape. Qed.
Print Assumptions C01_optimizer_keeps_shape.

(* PARTIAL.  End to end with the optimiser applied between compile_one and sortBlocks, as far as C03's
   theorem about the optimiser goes: under ITS hypotheses (ids_bounded, slot_ops_wf, no_orphan_store — which
   the code does not establish, see C03_optimizer_refuted —, inj_on, safe_from) the code reaches a halting
   configuration that equals the source outcome UP TO the scratch cells of the removed slots, and no other.
   Missing for a full statement: the optimiser's own side conditions. *)
Theorem C01_routine_end_to_end_optimized_partial :
  forall (o : copts) (sub : option routine) (ast0 : expr) (cr : croutine) (skip : list N) (g' : graph)
         (order : list id) (code : list comp),
    (match sub with Some r => r_deferred r | None => None end) = None ->
    compile_one o sub ast0 = COk cr ->
    head_loop (root_ast ast0) = false ->
    optimize_routine (cr_graph cr) (cr_start cr) skip = Some g' ->
    sort_blocks g' (cr_start cr) (cr_end cr) = Some order ->
    flatten_blocks g' order = Some code ->
    ids_bounded (cr_graph cr) (cr_start cr) ->
    slot_ops_wf (cr_graph cr) (iterate (cr_graph cr) (cr_start cr)) ->
    no_orphan_store (cr_graph cr) g' (cr_start cr) ->
    pos_of g' order (cr_start cr) = 0 /\
    forall env : denv, consistent env (routine_ctx o sub) ->
    inj_on env (removed_slot (cr_graph cr) g' (cr_start cr)) ->
    forall (fuel : nat) (stk : list value) (st : mstate) (gh : gconf),
      ghalt_of (denote env fuel (root_ast ast0) stk st) = Some gh ->
      safe_from (PL env (removed_slot (cr_graph cr) g' (cr_start cr))) env (g_blk (cr_graph cr))
                (GAt (cr_start cr) stk st) ->
      exists gh',
        conf_eqx (cellsL env (removed_slot (cr_graph cr) g' (cr_start cr))) gh gh' /\
        lstar env code (LAt 0 stk st) (img (pos_of g' order) gh') /\
        forall c2, lstar env code (LAt 0 stk st) c2 -> lfinal c2 = true -> c2 = img (pos_of g' order) gh'.
Proof. exact routine_end_to_end_optimized_partial. Qed.
Print Assumptions C01_routine_end_to_end_optimized_partial.

Theorem C01_optimized_end_to_end_example :
  optimize_routine (cr_graph exo_cr) (cr_start exo_cr) [] = Some exo_g /\
  exists st', lstar ex_env1 exo_code (LAt 0 [] ex_st) (LExit (VI 1) st') /\
              lrun 200 ex_env1 exo_code (LAt 0 [] ex_st) = LExit (VI 1) st'.
Proof. exact optimized_end_to_end_example. Qed.
Print Assumptions C01_optimized_end_to_end_example.
