(* Props/C01_slots.v — property C01 (compiled TEAL computes what the PyTeal expression denotes): the
   scratch-slot ASSIGNMENT composed into the end-to-end theorem for one routine.

   Before the assignment a routine's code carries slot OBJECTS ([ASlot u] immediates); the shared
   one-step function [do_op] reads [load/store <slot u>] as "cell [e_asg env u], no range check".
   [assign_slots] (Comp/Compile.v) replaces every [ASlot u] by [AInt (look u)]; from then on load/store go
   through [exec_op] with the AVM's range check (< 256).  This file states that
     1. the rewrite is a semantic identity — per operation, step for step on linear code, block step for
        block step on graphs — when the environment numbers the variables as [look] does and directly
        accessed variables are numbered below 256 (theorems C01_slot_rewrite_xxx);
     2. a successful [assign_slots] rewrites every routine with one function [look_of asg], injective on
        the program's slots and, when requested ids are valid scratch numbers, below 256
        (theorems C01_assign_slots_xxx) — proved for the pipeline's own function (C10's theorems are about the
        separate model Comp/Slots.v);
     3. hence the end-to-end theorem holds for the ASSIGNED code (C01_routine_end_to_end_slots), whose
        instruction list is the linear rewrite of the un-assigned one and contains no placeholder
        (C01_routine_assigned_code), so that the final statement (C01_routine_end_to_end_assigned,
        C01_program_routines_end_to_end) mentions the abstract reading of variables on the SOURCE side only;
     4. under the assignment two different variables never share a cell (C01_assigned_variables_independent).
   Property theorems only; proofs in Proofs/SlotCompose*.v. *)
From Coq Require Import List NArith String.
From PV Require Import Base.Bytes AVM.Syntax AVM.Machine Src.Expr Src.Denote
  Comp.Blocks Comp.Lower Comp.Passes Comp.GraphSem Comp.LinearSem Comp.SimCheck Comp.Compile Comp.Assemble
  Proofs.LowerFrame Proofs.LowerCorrect Proofs.LowerShape Proofs.NormalizeLowered Proofs.FlattenCorrect Proofs.SortCorrect
  Proofs.EndToEndGlue Proofs.EndToEnd Proofs.EndToEndExamples
  Proofs.SlotCompose Proofs.SlotComposeAssign Proofs.SlotComposeEnd Proofs.SlotComposeCover
  Proofs.SlotComposeFinal Proofs.SlotComposePipeline Proofs.SlotComposeExamples.
Import ListNotations.

(* ---------------------------------------------------------------------------------------------- *)
(* 1. the rewrite preserves the semantics                                                          *)
(* ---------------------------------------------------------------------------------------------- *)

(* One operation, whatever the opcode and wherever the slot immediates sit (load/store, the [int] of a
   ScratchIndex, anything else): agreement on the slots that occur; range only for a direct access. *)
Theorem C01_slot_rewrite_op :
  forall (env : denv) (look : N -> N) (o : opc) (imms : list arg) (stk : list value) (st : mstate),
    agree_on env look (arg_slots imms) ->
    in_range look (direct_slots (mkI o imms)) ->
    do_op env o (map (rw_arg look) imms) stk st = do_op env o imms stk st.
Proof. exact do_op_rw. Qed.
Print Assumptions C01_slot_rewrite_op.

(* Linear code: the step function of the rewritten code IS the step function of the abstract code — on
   every configuration, hence same stacks, same machine states, same halting outcomes, step for step. *)
Theorem C01_slot_rewrite_linear_step :
  forall (env : denv) (look : N -> N) (code : list comp),
    agree_on env look (code_slots code) -> in_range look (code_direct code) ->
    forall c, lstep env (rw_code look code) c = lstep env code c.
Proof. exact lstep_rw. Qed.
Print Assumptions C01_slot_rewrite_linear_step.

(* ... in the simple form: every slot of the code numbered as the environment says, below 256 *)
Theorem C01_slot_rewrite_preserves :
  forall (env : denv) (look : N -> N) (code : list comp),
    slots_ok env look (code_slots code) ->
    (forall c, lstep env (rw_code look code) c = lstep env code c) /\
    (forall c c', lstar env (rw_code look code) c c' <-> lstar env code c c') /\
    (forall fuel c, lrun fuel env (rw_code look code) c = lrun fuel env code c).
Proof. exact rewrite_preserves. Qed.
Print Assumptions C01_slot_rewrite_preserves.

(* Block graphs: a graph in which some blocks (those whose slots are numbered consistently) are rewritten *)
Theorem C01_slot_rewrite_graph :
  forall (env : denv) (look : N -> N) (G G' : bgraph),
    rw_graph env look G G' ->
    (forall c, gstep env G' c = gstep env G c) /\
    (forall c c', star env G' c c' <-> star env G c c').
Proof. intros env look G G' H. split; [exact (gstep_rw env look G G' H)|exact (star_rw env look G G' H)]. Qed.
Print Assumptions C01_slot_rewrite_graph.

(* what map_graph_ops (the function assign_slots maps over the routines) does to a routine's graph *)
Theorem C01_rewritten_routine_graph :
  forall (look : N -> N) (c : croutine) (b : id),
    g_blk (cr_graph (rw_routine look c)) b =
    if mem_id b (iterate (cr_graph c) (cr_start c)) then option_map (rw_block look) (g_blk (cr_graph c) b)
    else g_blk (cr_graph c) b.
Proof. exact mgo_blk. Qed.
Print Assumptions C01_rewritten_routine_graph.

(* after the rewrite nothing is a placeholder, and code without placeholders ignores [e_asg] *)
Theorem C01_rewritten_code_no_slots :
  forall (look : N -> N) (code : list comp), code_slots (rw_code look code) = [].
Proof. exact rw_code_no_slots. Qed.
Print Assumptions C01_rewritten_code_no_slots.

Theorem C01_no_slots_asg_irrelevant :
  forall (env : denv) (f : N -> N) (code : list comp), code_slots code = [] ->
    (forall c, lstep (with_asg env f) code c = lstep env code c) /\
    (forall c c', lstar (with_asg env f) code c c' <-> lstar env code c c').
Proof. intros env f code H. split; [exact (lstep_asg_irrelevant env f code H)|exact (lstar_asg_irrelevant env f code H)]. Qed.
Print Assumptions C01_no_slots_asg_irrelevant.

(* the range hypothesis cannot be dropped: agreement alone does not make the rewrite an identity *)
Theorem C01_slot_rewrite_needs_range :
  exists (env : denv) (look : N -> N) (code : list comp) (c : lconf),
    agree_on env look (code_slots code) /\
    lstep env code c = Some (LAt 1 [VI 0] ex_st) /\
    lstep env (rw_code look code) c = Some LFail.
Proof. exact rewrite_needs_range. Qed.
Print Assumptions C01_slot_rewrite_needs_range.

(* ---------------------------------------------------------------------------------------------- *)
(* 2. what assign_slots computes                                                                   *)
(* ---------------------------------------------------------------------------------------------- *)
Theorem C01_assign_slots_rewrites :
  forall (p : prog) (crs crs' : list croutine) (locals : list (option N * list N)) (asg : list (N * N)),
    assign_slots p crs = COk (crs', locals, asg) ->
    crs' = map (rw_routine (look_of asg)) crs.
Proof. intros p crs crs' locals asg H. exact (proj1 (assign_slots_facts p crs crs' locals asg H)). Qed.
Print Assumptions C01_assign_slots_rewrites.

Theorem C01_assign_slots_injective :
  forall (p : prog) (crs crs' : list croutine) (locals : list (option N * list N)) (asg : list (N * N)),
    assign_slots p crs = COk (crs', locals, asg) ->
    forall s1 s2, In s1 (all_slots crs) -> In s2 (all_slots crs) ->
      look_of asg s1 = look_of asg s2 -> s1 = s2.
Proof. exact assign_look_injective. Qed.
Print Assumptions C01_assign_slots_injective.

Theorem C01_assign_slots_in_range :
  forall (p : prog) (crs crs' : list croutine) (locals : list (option N * list N)) (asg : list (N * N)),
    assign_slots p crs = COk (crs', locals, asg) ->
    requested_valid p (all_slots crs) ->
    forall s, In s (all_slots crs) -> (look_of asg s < 256)%N.
Proof. exact assign_look_in_range. Qed.
Print Assumptions C01_assign_slots_in_range.

Theorem C01_assign_slots_requested :
  forall (p : prog) (crs crs' : list croutine) (locals : list (option N * list N)) (asg : list (N * N)),
    assign_slots p crs = COk (crs', locals, asg) ->
    forall s, In s (all_slots crs) -> res p s = true -> look_of asg s = sid p s.
Proof. exact assign_look_requested. Qed.
Print Assumptions C01_assign_slots_requested.

(* [requested_valid] from the program record alone *)
Theorem C01_requested_valid_of_table :
  forall (p : prog) (l : list N),
    (forall u i, In (u, (i, true)) (p_slots p) -> (i < 256)%N) -> requested_valid p l.
Proof. exact requested_valid_of_table. Qed.
Print Assumptions C01_requested_valid_of_table.

(* ---------------------------------------------------------------------------------------------- *)
(* 3. the end-to-end theorem with the assignment                                                   *)
(* ---------------------------------------------------------------------------------------------- *)

(* for ANY numbering [look]: compile_one, rewrite the graph, sortBlocks, flattenBlocks *)
Theorem C01_routine_end_to_end_rewritten :
  forall (o : copts) (sub : option routine) (ast0 : expr) (cr : croutine) (look : N -> N)
         (order : list id) (code : list comp),
    (match sub with Some r => r_deferred r | None => None end) = None ->
    compile_one o sub ast0 = COk cr ->
    head_loop (root_ast ast0) = false ->
    let cr' := rw_routine look cr in
    sort_blocks (cr_graph cr') (cr_start cr') (cr_end cr') = Some order ->
    flatten_blocks (cr_graph cr') order = Some code ->
    pos_of (cr_graph cr') order (cr_start cr') = 0 /\
    forall env : denv, consistent env (routine_ctx o sub) ->
    slots_ok env look (routine_slots cr) ->
    forall (fuel : nat) (stk : list value) (st : mstate) (h : lconf),
      halt_of (denote env fuel (root_ast ast0) stk st) = Some h ->
      lstar env code (LAt 0 stk st) h /\
      forall c2, lstar env code (LAt 0 stk st) c2 -> lfinal c2 = true -> c2 = h.
Proof. exact routine_end_to_end_rewritten. Qed.
Print Assumptions C01_routine_end_to_end_rewritten.

(* for the numbering assign_slots computes (range discharged) *)
Theorem C01_routine_end_to_end_slots :
  forall (o : copts) (sub : option routine) (ast0 : expr) (cr : croutine) (p : prog)
         (crs crs' : list croutine) (locals : list (option N * list N)) (asg : list (N * N)),
    (match sub with Some r => r_deferred r | None => None end) = None ->
    compile_one o sub ast0 = COk cr ->
    head_loop (root_ast ast0) = false ->
    In cr crs ->
    assign_slots p crs = COk (crs', locals, asg) ->
    requested_valid p (all_slots crs) ->
    let cr' := rw_routine (look_of asg) cr in
    In cr' crs' /\
    forall (order : list id) (code : list comp),
    sort_blocks (cr_graph cr') (cr_start cr') (cr_end cr') = Some order ->
    flatten_blocks (cr_graph cr') order = Some code ->
    pos_of (cr_graph cr') order (cr_start cr') = 0 /\
    forall env : denv, consistent env (routine_ctx o sub) ->
    agree_on env (look_of asg) (routine_slots cr) ->
    forall (fuel : nat) (stk : list value) (st : mstate) (h : lconf),
      halt_of (denote env fuel (root_ast ast0) stk st) = Some h ->
      lstar env code (LAt 0 stk st) h /\
      forall c2, lstar env code (LAt 0 stk st) c2 -> lfinal c2 = true -> c2 = h.
Proof. exact routine_end_to_end_slots. Qed.
Print Assumptions C01_routine_end_to_end_slots.

(* the code of the rewritten routine = the linear rewrite of the code of the routine; no placeholder left *)
Theorem C01_routine_assigned_code :
  forall (o : copts) (sub : option routine) (ast0 : expr) (cr : croutine) (look : N -> N)
         (order : list id) (code : list comp),
    (match sub with Some r => r_deferred r | None => None end) = None ->
    compile_one o sub ast0 = COk cr ->
    let cr' := rw_routine look cr in
    sort_blocks (cr_graph cr') (cr_start cr') (cr_end cr') = Some order ->
    flatten_blocks (cr_graph cr') order = Some code ->
    sort_blocks (cr_graph cr) (cr_start cr) (cr_end cr) = Some order /\
    (exists code0, flatten_blocks (cr_graph cr) order = Some code0 /\ code = rw_code look code0) /\
    code_slots code = [].
Proof. exact routine_assigned_code. Qed.
Print Assumptions C01_routine_assigned_code.

(* the second route: C01_routine_end_to_end for the un-assigned code, then the linear rewrite theorem *)
Theorem C01_routine_end_to_end_linear :
  forall (o : copts) (sub : option routine) (ast0 : expr) (cr : croutine) (look : N -> N)
         (order : list id) (code0 : list comp),
    (match sub with Some r => r_deferred r | None => None end) = None ->
    compile_one o sub ast0 = COk cr ->
    head_loop (root_ast ast0) = false ->
    sort_blocks (cr_graph cr) (cr_start cr) (cr_end cr) = Some order ->
    flatten_blocks (cr_graph cr) order = Some code0 ->
    forall env : denv, consistent env (routine_ctx o sub) ->
    slots_ok env look (routine_slots cr) ->
    forall (fuel : nat) (stk : list value) (st : mstate) (h : lconf),
      halt_of (denote env fuel (root_ast ast0) stk st) = Some h ->
      lstar env (rw_code look code0) (LAt 0 stk st) h /\
      forall c2, lstar env (rw_code look code0) (LAt 0 stk st) c2 -> lfinal c2 = true -> c2 = h.
Proof. exact routine_end_to_end_linear. Qed.
Print Assumptions C01_routine_end_to_end_linear.

(* THE statement.  The emitted code contains no placeholder and is run in an environment whose e_asg
   component is ARBITRARY; it computes what the source semantics denotes when the variables are numbered by
   the assignment ([with_asg env (look_of asg)] = env with e_asg := look_of asg). *)
Theorem C01_routine_end_to_end_assigned :
  forall (o : copts) (sub : option routine) (ast0 : expr) (cr : croutine) (p : prog)
         (crs crs' : list croutine) (locals : list (option N * list N)) (asg : list (N * N)),
    (match sub with Some r => r_deferred r | None => None end) = None ->
    compile_one o sub ast0 = COk cr ->
    head_loop (root_ast ast0) = false ->
    In cr crs ->
    assign_slots p crs = COk (crs', locals, asg) ->
    requested_valid p (all_slots crs) ->
    let cr' := rw_routine (look_of asg) cr in
    In cr' crs' /\
    forall (order : list id) (code : list comp),
    sort_blocks (cr_graph cr') (cr_start cr') (cr_end cr') = Some order ->
    flatten_blocks (cr_graph cr') order = Some code ->
    pos_of (cr_graph cr') order (cr_start cr') = 0 /\
    code_slots code = [] /\
    forall env : denv, consistent env (routine_ctx o sub) ->
    forall (fuel : nat) (stk : list value) (st : mstate) (h : lconf),
      halt_of (denote (with_asg env (look_of asg)) fuel (root_ast ast0) stk st) = Some h ->
      lstar env code (LAt 0 stk st) h /\
      forall c2, lstar env code (LAt 0 stk st) c2 -> lfinal c2 = true -> c2 = h.
Proof. exact routine_end_to_end_assigned. Qed.
Print Assumptions C01_routine_end_to_end_assigned.

(* every routine compile_components flattens (optimiser off) is such a routine *)
Theorem C01_program_routines_end_to_end :
  forall (o : copts) (modes : opc -> bool * bool) (p : prog) (comps : list comp),
    compile_components o modes p = COk comps -> o_opt_slots o = false ->
    head_loop (root_ast (p_main p)) = false ->
    (forall r, In r (p_subs p) -> r_deferred r = None) ->
    exists crs crs' locals asg,
      compile_rec (S (List.length (p_subs p))) o p None (p_main p) [] = COk crs /\
      assign_slots p crs = COk (crs', locals, asg) /\
      (requested_valid p (all_slots crs) ->
       forall cr, In cr crs ->
         exists sub ast0,
           compile_one o sub ast0 = COk cr /\
           let cr' := rw_routine (look_of asg) cr in
           In cr' crs' /\
           forall order code,
             sort_blocks (cr_graph cr') (cr_start cr') (cr_end cr') = Some order ->
             flatten_blocks (cr_graph cr') order = Some code ->
             pos_of (cr_graph cr') order (cr_start cr') = 0 /\
             code_slots code = [] /\
             forall env, consistent env (routine_ctx o sub) ->
             forall fuel stk st h,
               halt_of (denote (with_asg env (look_of asg)) fuel (root_ast ast0) stk st) = Some h ->
               lstar env code (LAt 0 stk st) h /\
               forall c2, lstar env code (LAt 0 stk st) c2 -> lfinal c2 = true -> c2 = h).
Proof. exact program_routines_end_to_end. Qed.
Print Assumptions C01_program_routines_end_to_end.

(* the routines compile_rec returns are compile_one results of the main routine / of declaration bodies *)
Theorem C01_compile_rec_origin :
  forall (o : copts) (p : prog) (crs : list croutine),
    compile_rec (S (List.length (p_subs p))) o p None (p_main p) [] = COk crs ->
    forall cr, In cr crs -> origin o p cr.
Proof. exact compile_rec_origin. Qed.
Print Assumptions C01_compile_rec_origin.

(* ---------------------------------------------------------------------------------------------- *)
(* 4. each variable a cell of its own                                                              *)
(* ---------------------------------------------------------------------------------------------- *)
Theorem C01_assigned_variables_independent :
  forall (p : prog) (crs crs' : list croutine) (locals : list (option N * list N)) (asg : list (N * N)),
    assign_slots p crs = COk (crs', locals, asg) ->
    forall u1 u2, In u1 (all_slots crs) -> In u2 (all_slots crs) ->
    forall (st : mstate) (v : value),
      scratch_get (s_scratch (set_scratch st (look_of asg u1) v)) (look_of asg u1) = v /\
      (u1 <> u2 ->
       scratch_get (s_scratch (set_scratch st (look_of asg u1) v)) (look_of asg u2) =
       scratch_get (s_scratch st) (look_of asg u2)).
Proof. exact assigned_variables_independent. Qed.
Print Assumptions C01_assigned_variables_independent.

(* ---------------------------------------------------------------------------------------------- *)
(* 5. non-vacuity and necessity                                                                    *)
(* ---------------------------------------------------------------------------------------------- *)
(* two variables (acc: requested id 7; i: automatic), a loop, [int <slot of acc>; loads]: all hypotheses
   hold, the assignment is acc |-> 7, i |-> 0, the predicted run is the computed run *)
Theorem C01_slots_example :
  compile_one opts0 None sl_ast = COk sl_cr /\
  head_loop (root_ast sl_ast) = false /\
  assign_slots sl_prog [sl_cr] = COk sl_res /\
  In (rw_routine (look_of sl_asg) sl_cr) (fst (fst sl_res)) /\
  sort_blocks (cr_graph (rw_routine (look_of sl_asg) sl_cr)) (cr_start (rw_routine (look_of sl_asg) sl_cr))
              (cr_end (rw_routine (look_of sl_asg) sl_cr)) = Some sl_order /\
  flatten_blocks (cr_graph (rw_routine (look_of sl_asg) sl_cr)) sl_order = Some sl_code /\
  code_slots sl_code = [] /\
  consistent sl_env0 (routine_ctx opts0 None) /\
  denote (with_asg sl_env0 (look_of sl_asg)) 100 (root_ast sl_ast) [] ex_st = DExit (VI 6) sl_final /\
  lstar sl_env0 sl_code (LAt 0 [] ex_st) (LExit (VI 6) sl_final) /\
  lrun 200 sl_env0 sl_code (LAt 0 [] ex_st) = LExit (VI 6) sl_final /\
  scratch_get (s_scratch sl_final) 7 = VI 6 /\ scratch_get (s_scratch sl_final) 0 = VI 3.
Proof. exact routine_end_to_end_assigned_example. Qed.
Print Assumptions C01_slots_example.

Theorem C01_slots_example_assignment :
  look_of sl_asg v_acc = 7%N /\ look_of sl_asg v_i = 0%N /\ routine_slots sl_cr = [v_acc; v_i].
Proof. exact sl_assignment. Qed.
Print Assumptions C01_slots_example_assignment.

(* the emitted text is what the real compiler prints for this program (labels main_l1 / main_l3 there) *)
Theorem C01_slots_example_text :
  assemble_all sl_code =
  Some [ "int 0"; "store 7"; "int 0"; "store 0"; "l1:"; "load 0"; "int 3"; "<"; "bz l3";
         "load 7"; "int 2"; "+"; "store 7"; "load 0"; "int 1"; "+"; "store 0"; "b l1"; "l3:";
         "int 7"; "loads"; "return" ]%string.
Proof. exact sl_code_text. Qed.
Print Assumptions C01_slots_example_text.

Theorem C01_slot_rewrite_example :
  let code0 := code_of sl_cr in
  let env := with_asg sl_env0 (look_of sl_asg) in
  slots_ok env (look_of sl_asg) (code_slots code0) /\
  code_slots code0 <> [] /\
  rw_code (look_of sl_asg) code0 = sl_code /\
  (forall c, lstep env (rw_code (look_of sl_asg) code0) c = lstep env code0 c) /\
  lrun 200 env code0 (LAt 0 [] ex_st) = LExit (VI 6) sl_final.
Proof. exact rewrite_preserves_example. Qed.
Print Assumptions C01_slot_rewrite_example.

(* [requested_valid] cannot be dropped in the model: a program record claiming requested id 300 passes
   assign_slots; the source semantics exits with 5, the emitted code fails at [store 300].  Not a defect of
   /repo: ScratchSlot(300) raises TealInputError "Invalid slot ID" (checked; C10_constructor_rejects). *)
Theorem C01_slots_needs_requested_valid :
  compile_one opts0 None bad_ast = COk bad_cr /\
  (exists crs' locals, assign_slots bad_prog [bad_cr] = COk (crs', locals, bad_asg)) /\
  ~ requested_valid bad_prog (all_slots [bad_cr]) /\
  (exists st', denote (with_asg sl_env0 (look_of bad_asg)) 100 (root_ast bad_ast) [] ex_st = DExit (VI 5) st') /\
  lrun 200 sl_env0 bad_code (LAt 0 [] ex_st) = LFail.
Proof. exact slots_needs_requested_valid. Qed.
Print Assumptions C01_slots_needs_requested_valid.
