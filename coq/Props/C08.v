(* Props/C08.v — Router dispatches a call to its handler iff the registration allows it.
   Property theorems only; proofs live in Proofs/RouterDispatch.v, satisfiability examples in
   Proofs/RouterExamples.v.  Model: Router/Dispatch.v (the Cond/Assert/Reject skeleton router.py builds,
   handlers abstract), specification: [allowed] / [allowed_rel] / [clear_allowed] in the same file. *)
From Coq Require Import List NArith Bool.
From PV Require Import Base.Bytes Router.Dispatch Proofs.RouterDispatch Proofs.RouterExamples.
Import ListNotations.

(* For every router configuration that registration accepts (any number of methods with arbitrary
   MethodConfig, any bare-action table, pairwise distinct selectors) and every call whose OnCompletion is not
   ClearState (the protocol never runs an approval program with it; Example ex_clear_state_guard_needed shows
   the guard is necessary), any argument list, creation or not: the approval program runs handler h iff the
   registration allows exactly h for that call; every other call is rejected or fails - no other handler. *)
Theorem router_dispatch_correct :
  forall (r : router_cfg) (c : call),
    cfg_ok r = true -> c_oc c <> ClearState ->
    (forall h, dispatch r c = RunsHandler h <-> allowed r c = Some h) /\
    (allowed r c = None -> dispatch r c = Rejects \/ dispatch r c = Fails).
Proof. exact router_dispatch_correct_lemma. Qed.
Print Assumptions router_dispatch_correct.

(* the same with the outcome spelled out: Reject() only when nothing at all is registered, a failing
   assert / err / txna otherwise *)
Theorem router_dispatch_exact :
  forall (r : router_cfg) (c : call),
    cfg_ok r = true -> c_oc c <> ClearState ->
    dispatch r c = match allowed r c with
                   | Some h => RunsHandler h
                   | None => if nothing_registered r then Rejects else Fails
                   end.
Proof. exact dispatch_exact. Qed.
Print Assumptions router_dispatch_exact.

(* [allowed] (first registered method with that selector) is the relation of the property text (some
   registered method with that selector whose MethodConfig allows the call, or the bare action of that
   OnCompletion when there are no arguments) - this is where distinct selectors are needed *)
Theorem allowed_iff_rel :
  forall (r : router_cfg) (c : call) (h : handler),
    cfg_ok r = true -> (allowed r c = Some h <-> allowed_rel r c h).
Proof. exact allowed_iff_rel_lemma. Qed.
Print Assumptions allowed_iff_rel.

(* MethodConfig.approval_cond (short cuts included) is true exactly when the CallConfig registered for the
   call's OnCompletion allows its creation status *)
Theorem approval_cond_correct :
  forall (m : method_config) (c : call),
    c_oc c <> ClearState ->
    acond_holds (approval_cond m) c = Some (cc_allows (mc_get m (c_oc c)) (c_create c)).
Proof. exact approval_cond_sound. Qed.
Print Assumptions approval_cond_correct.

(* the clear-state program runs exactly the clear_state action given to Router(...), whatever the call
   looks like, and rejects when none was given *)
Theorem clear_program_correct :
  forall (r : router_cfg) (c : call),
    dispatch_clear r c = match clear_allowed r with Some h => RunsHandler h | None => Rejects end.
Proof. exact clear_program_correct_lemma. Qed.
Print Assumptions clear_program_correct.

(* registration succeeds exactly for: constructible bare actions without a clear_state entry, methods whose
   MethodConfig has clear_state = NEVER and is not all-NEVER, pairwise distinct selectors; the router then
   holds the methods in registration order *)
Theorem registration_rejects_duplicates_and_never :
  forall (b : bare_actions) (cl : option handler) (ms : list method) (r : router_cfg),
    register b cl ms = RegOk r <->
    (ba_init_ok b = true /\
     Forall (fun m => mc_clear_state (m_cfg m) = NEVER /\ mc_is_never (m_cfg m) = false) ms /\
     NoDup (map m_sel ms) /\
     r = mkRouter b cl ms).
Proof. exact registration_lemma. Qed.
Print Assumptions registration_rejects_duplicates_and_never.

(* what registration accepts satisfies the hypothesis of the dispatch theorems *)
Theorem registered_router_is_ok :
  forall b cl ms r, register b cl ms = RegOk r -> cfg_ok r = true.
Proof. exact register_ok_cfg_ok. Qed.
Print Assumptions registered_router_is_ok.
