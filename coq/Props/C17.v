(* Props/C17.v — Reading a routine-local variable before writing it is rejected.
   Property theorems only; proofs live in Proofs/ValidateSlotsProof.v; the model of
   TealBlock.validateSlots and the specification predicates are in Comp/ValidateSlots.v.

   Reading guide.  A routine is a finite block graph g (any shape, cycles included) with start block
   [start]; [init] are the slots shared with other routines (assumed initialised by PyTeal).
   [validate_slots g start init = Some errs]: the model of start.validateSlots(slotsInUse=init) returns the
   error list errs (each error named by the tag of its load's source expression); compilation is rejected
   iff errs <> [] (scratchslots.py raises TealInternalError from errs[0]).
   [unstored_path g start init s b i t]: op i of block b is `load s` (tag t), s is not shared, and some
   control-flow path from the start reaches that op without passing a `store s` (blocks on the way are
   non-terminal, no return/retsub/err in front of the load in its own block).
   [scan_path]: the same without the last condition (what the block scan of validateSlots sees). *)
From Coq Require Import List NArith.
From PV Require Import Comp.ValidateSlots Proofs.ValidateSlotsProof.
Import ListNotations.

(* THE property (one direction, as stated by C17): an unstored control-flow path to a load implies that
   the validation terminates and its error list names that load.  All graphs, all start blocks, all sets
   of shared slots; the memoisation on (block, sorted slot tuple) shared by the whole recursion loses
   nothing. *)
Theorem C17_validate_complete :
  forall (g : graph) (start : nat) (init : list N) (s : N) (b i : nat) (t : N),
    unstored_path g start init s b i t ->
    exists errs, validate_slots g start init = Some errs /\ In t errs.
Proof. exact validate_complete_lemma. Qed.
Print Assumptions C17_validate_complete.

(* The validation always terminates (fuel_bound = #edges * 2^#slots + 1 recursion depth suffices) ... *)
Theorem C17_validate_total :
  forall (g : graph) (init : list N) (start : nat), validate_slots g start init <> None.
Proof. exact validate_slots_total. Qed.
Print Assumptions C17_validate_total.

(* ... and an answer obtained with any other fuel (the extracted binary uses a fixed one) is that answer. *)
Theorem C17_fuel_irrelevant :
  forall fuel g start init errs vis,
    validate_slots_fuel fuel g start init = Some (errs, vis) -> validate_slots g start init = Some errs.
Proof. exact validate_slots_fuel_agrees. Qed.
Print Assumptions C17_fuel_irrelevant.

(* Auxiliary, exact characterisation of what is reported: a tag is reported iff it is the tag of a load
   with an unstored SCAN path (a block path from the start through non-terminal blocks that never stores
   the slot, and no store in front of the load inside its block — but possibly a return/retsub/err in
   front of it there: validateSlots keeps scanning a block after a terminator, so it may also reject a
   dead load, which C17 permits).  Direction <- restricted to [unstored_path] is the property theorem;
   direction -> is validate_reports_only_graph_loads. *)
Theorem C17_validate_exact :
  forall g start init errs, validate_slots g start init = Some errs ->
    forall t, In t errs <-> exists s b i, scan_path g start init s b i t.
Proof. exact validate_exact. Qed.
Print Assumptions C17_validate_exact.

Theorem C17_validate_reports_only_graph_loads :
  forall g start init errs t, validate_slots g start init = Some errs -> In t errs ->
    exists s b i, scan_path g start init s b i t.
Proof. exact validate_reports_lemma. Qed.
Print Assumptions C17_validate_reports_only_graph_loads.

(* Consequence for accepted routines, on the abstract execution semantics of the block graph
   ([runs_to]: ops execute in order, a terminator ends the run, a branch may go either way, every other
   op — callsub included — leaves routine-local slots alone): whenever an execution is about to run a load
   of a non-shared slot, it has executed a store to that slot before.
   PARTIAL: this is about the block graph validateSlots sees, not about the AVM run of the final TEAL:
   flattening, slot numbering, the spill code around recursive calls (spill loads are compiler-inserted
   and excluded) and the fact that the condition of a branch is a run-time value are not covered here;
   stores through `stores` (DynamicScratchVar) are not counted by PyTeal, so it rejects more than needed. *)
Theorem C17_compiled_never_reads_unwritten_partial :
  forall g start init,
    validate_slots g start init = Some [] ->
    forall b k tr s t,
      runs_to g start b k tr ->
      nth_error (ops_of (getb g b)) k = Some (Load s t) ->
      ~ In s init ->
      In (Store s) tr.
Proof. exact accepted_never_reads_unwritten_lemma. Qed.
Print Assumptions C17_compiled_never_reads_unwritten_partial.

(* ---------------- non-vacuity: hypotheses are satisfiable, on graphs with the shapes C17 names ------- *)

(* A loop with a Break-like exit and an early return:
     0: x:=..; (cond) -> 1 | 5          loop head: body or exit
     1: (cond) -> 2 | 3                 if
     2: store 7 ; -> 4                  then: write slot 7
     3: -> 5                            else: Break (jumps to the loop exit, slot 7 unwritten)
     4: (cond) -> 0 | 6                 continue looping, or early return
     5: load 7 (tag 1) ; term           after the loop: reads slot 7
     6: term ; load 7 (tag 2)           early return, then a dead load in the same block
   Paths 0,5 (zero iterations) and 0,1,3,5 (Break) reach the load of 7 unwritten. *)
Definition ex_loop : graph :=
  [ Cond [Store 1%N; Other] (Some 1) (Some 5);
    Cond [Load 1%N 9%N] (Some 2) (Some 3);
    Simple [Store 7%N] (Some 4);
    Simple [] (Some 5);
    Cond [Other] (Some 0) (Some 6);
    Simple [Load 7%N 1%N; Term] None;
    Simple [Term; Load 7%N 2%N] None ].

Example C17_ex_unstored_break_path : unstored_path ex_loop 0 [] 7%N 5 0 1%N.
Proof.
  split; [| simpl; tauto].
  exists [0; 1; 3]. split.
  - apply (bp_step ex_loop 0 [0; 1] 3 5); [| reflexivity | simpl; tauto].
    apply (bp_step ex_loop 0 [0] 1 3); [| reflexivity | simpl; tauto].
    apply (bp_step ex_loop 0 [] 0 1); [apply bp_nil | reflexivity | simpl; tauto].
  - split; [reflexivity |]. split; [simpl; tauto |].
    simpl. intros H. repeat (destruct H as [H | H]; [discriminate |]). exact H.
Qed.

(* the model reports the live load (tag 1) and NOT the dead one behind the early return (tag 2: its
   block is only entered with slot 7 written) *)
Example C17_ex_loop_result : validate_slots ex_loop 0 [] = Some [1%N].
Proof. vm_compute. reflexivity. Qed.

(* with slot 7 shared (pre-initialised) the routine is accepted; the hypothesis of the partial theorem holds *)
Example C17_ex_loop_shared_accepted : validate_slots ex_loop 0 [7%N] = Some [].
Proof. vm_compute. reflexivity. Qed.

(* a dead load behind a terminator in the same block IS reported when the slot is unwritten on entry:
   scan_path holds where unstored_path does not *)
Example C17_ex_dead_load_reported :
  validate_slots [Simple [Term; Load 7%N 2%N] None] 0 [] = Some [2%N].
Proof. vm_compute. reflexivity. Qed.

(* the memo matters: the join block 2 is entered twice, first with slot 7 written (true branch), then
   without; keying the memo on the block alone would skip the second visit and miss the load *)
Example C17_ex_memo_diamond :
  validate_slots [Cond [] (Some 1) (Some 2); Simple [Store 7%N] (Some 2); Simple [Load 7%N 3%N] None] 0 [] = Some [3%N].
Proof. vm_compute. reflexivity. Qed.

(* an abstract execution reaching the load through the Break edge *)
Example C17_ex_run : runs_to ex_loop 0 5 0 [Store 1%N; Other; Load 1%N 9%N].
Proof.
  apply (run_jump ex_loop 0 3); [| simpl; tauto].
  apply (run_jump ex_loop 0 1); [| simpl; tauto].
  change [Store 1%N; Other; Load 1%N 9%N] with ([Store 1%N; Other] ++ [Load 1%N 9%N]).
  apply (run_op ex_loop 0 1 0); [| reflexivity | discriminate].
  apply (run_jump ex_loop 0 0); [| simpl; tauto].
  change [Store 1%N; Other] with ([Store 1%N] ++ [Other]).
  apply (run_op ex_loop 0 0 1); [| reflexivity | discriminate].
  change [Store 1%N] with ([] ++ [Store 1%N]).
  apply (run_op ex_loop 0 0 0); [apply run_start | reflexivity | discriminate].
Qed.
