(* Props/C05.v — Emitted code keeps stack and type discipline on every path.
   Property theorems only; proofs live in Proofs/StackSigProof.v and Proofs/StackCheckSound.v.

   Reading guide.
   * [annot_inductive p rt ann] (AVM/StackCheck.v) is the verified checker: [ann] gives, for each pc, the
     routine it belongs to, whether its [proto] ran, and the abstract types (uint64 / bytes / any) of the
     cells that routine OWNS (its arguments and what it pushed), TOP FIRST; [rt] is the table of routine
     signatures.  The extracted [stack_check] computes [rt] and [ann] and accepts only when
     [annot_inductive] holds ([C05_stack_check_accept_means]).
   * [conf p rt ann m] (Proofs/StackCheckSound.v): machine state [m] agrees with the annotation at [m_pc m]:
     its stack splits into the current routine's cells, which have exactly the annotated height and
     each a value of the annotated type ([VI] in uint64/any, [VB] in bytes/any), and the callers' cells below;
     every pending frame returns to a pc whose annotation is the callee's declared results on top of
     what the caller had left, and frame pointers sit exactly above the routine's arguments.
   * [reach cx p n m0 = Some m]: [m] is reached from [m0] by [n] steps of [Machine.step]. *)
From Coq Require Import List Arith NArith Ascii String Bool.
From PV Require Import Base.Bytes AVM.Syntax AVM.Ops AVM.Machine AVM.Parse AVM.StackSig AVM.StackCheck
  Proofs.StackSigProof Proofs.StackSigPool Proofs.StackCheckSound.
Import ListNotations.

(* Soundness, for EVERY program, routine table and annotation the checker accepts, every typed context,
   every initial state and every number of steps: the reached state conforms to the annotation.
   (All control-flow paths: there is no bound on [n], and [conf] contains the call stack.) *)
Theorem C05_stack_check_sound :
  forall p rt ann, annot_inductive p rt ann = true ->
  forall cx, ctx_typed cx ->
  forall n st m, reach cx p n (init_mach st) = Some m -> conf p rt ann m.
Proof. exact stack_check_sound_lemma. Qed.
Print Assumptions C05_stack_check_sound.

(* Heights agree on all paths: two executions (any contexts, states, lengths) that stand at the same pc
   own the same number of cells there, typed by the same annotation. *)
Theorem C05_heights_agree_on_all_paths :
  forall p rt ann, annot_inductive p rt ann = true ->
  forall cx1 cx2, ctx_typed cx1 -> ctx_typed cx2 ->
  forall n1 n2 st1 st2 m1 m2,
    reach cx1 p n1 (init_mach st1) = Some m1 -> reach cx2 p n2 (init_mach st2) = Some m2 ->
    m_pc m1 = m_pc m2 ->
    exists a cur1 below1 cur2 below2,
      nth_error ann (m_pc m1) = Some (Some a) /\
      m_stack m1 = cur1 ++ below1 /\ m_stack m2 = cur2 ++ below2 /\
      stack_has cur1 (a_stk a) /\ stack_has cur2 (a_stk a) /\
      List.length cur1 = List.length cur2.
Proof.
  intros p rt ann IND cx1 cx2 T1 T2 n1 n2 st1 st2 m1 m2 R1 R2 E.
  eapply conf_same_pc; eauto using stack_check_sound_lemma.
Qed.
Print Assumptions C05_heights_agree_on_all_paths.

(* No opcode takes an operand from below the cells its routine owns: at every reached state the
   instruction exists (control never runs off the end) and the routine's OWN cells alone satisfy the
   opcode's operand count. *)
Theorem C05_operands_come_from_own_cells :
  forall p rt ann, annot_inductive p rt ann = true ->
  forall cx, ctx_typed cx ->
  forall n st m, reach cx p n (init_mach st) = Some m ->
    exists i a cur below,
      nth_error (pr_code p) (m_pc m) = Some i /\ nth_error ann (m_pc m) = Some (Some a) /\
      m_stack m = cur ++ below /\ stack_has cur (a_stk a) /\
      (sig_of (p_op i) (p_imms i) <> SCtl -> enough_cells (sig_of (p_op i) (p_imms i)) cur = true).
Proof.
  intros p rt ann IND cx CT n st m R. apply (conf_own_cells p rt ann IND). eapply stack_check_sound_lemma; eauto.
Qed.
Print Assumptions C05_operands_come_from_own_cells.

(* No reached step fails by stack underflow, by a missing or too small frame (callsub / retsub / proto /
   frame_dig / frame_bury), by a missing label or by running off the end.  Holds for every accepted
   program, including those in which [any]-typed cells reach typed operands. *)
Theorem C05_no_underflow_or_frame_failure :
  forall p rt ann, annot_inductive p rt ann = true ->
  forall cx, ctx_typed cx ->
  forall n st m, reach cx p n (init_mach st) = Some m -> ~ depth_failure cx p m.
Proof.
  intros p rt ann IND cx CT n st m R. eapply conf_no_depth_failure; eauto. eapply stack_check_sound_lemma; eauto.
Qed.
Print Assumptions C05_no_underflow_or_frame_failure.

(* The corollary of the property statement: when moreover no operand position that requires a definite
   type is annotated [any] ([annot_strict]: the program is "anytype-free" as far as its operands go), no
   reached step fails with a type or stack-underflow error ([shape_failure], defined in
   Proofs/StackCheckSound.v from the signatures of AVM/StackSig.v).  What may still fail: err, assert,
   arithmetic, ranges, constant-block indices, the 1000-cell limit. *)
Theorem C05_no_anytype_no_type_error :
  forall p rt ann, annot_inductive p rt ann = true -> annot_strict p rt ann = true ->
  forall cx, ctx_typed cx ->
  forall n st m, reach cx p n (init_mach st) = Some m -> ~ shape_failure cx p m.
Proof.
  intros p rt ann IND STR cx CT n st m R. eapply conf_no_shape_failure; eauto. eapply stack_check_sound_lemma; eauto.
Qed.
Print Assumptions C05_no_anytype_no_type_error.

(* the same for the fuelled interpreter [run]: a run that ends with [VFail] did not end in a shape failure *)
Theorem C05_run_never_ends_in_type_error :
  forall p rt ann, annot_inductive p rt ann = true -> annot_strict p rt ann = true ->
  forall cx, ctx_typed cx ->
  forall fuel st mf, run fuel cx p (init_mach st) = (VFail, mf) -> ~ shape_failure cx p mf.
Proof.
  intros p rt ann IND STR cx CT fuel st mf H.
  destruct (run_reach _ _ _ _ _ _ H) as [n [m [R S]]]; [discriminate|].
  rewrite (step_done_same _ _ _ _ _ S).
  eapply conf_no_shape_failure; eauto. eapply stack_check_sound_lemma; eauto.
Qed.
Print Assumptions C05_run_never_ends_in_type_error.

(* what an "accept" of the extracted checker means *)
Theorem C05_stack_check_accept_means :
  forall p decl rt ann strict, stack_check p decl = V5Accept rt ann strict ->
    annot_inductive p rt ann = true /\ (strict = true -> annot_strict p rt ann = true).
Proof.
  intros p decl rt ann strict H. unfold stack_check in H.
  destruct (build_rt p decl); try discriminate.
  destruct (settle _ p _) as [[pc m|pc m| |a] rt']; try discriminate.
  destruct (annot_inductive p rt' a) eqn:E; try discriminate.
  inversion H; subst. split; auto.
Qed.
Print Assumptions C05_stack_check_accept_means.

(* The signature table against the machine, both directions that do not depend on values:
   (1) abstraction: an accepted abstract stack, a conforming concrete top part, a successful opcode
       => the cells below are untouched and the new top part has the predicted types;
   (2) necessity: an opcode that succeeds had operands of the shape the signature asks for
       (except itxn_field, where the machine model accepts any value). *)
Theorem C05_signatures_abstract_the_machine :
  forall cx o imms strict abs abs' cur below st stk' st',
    ctx_typed cx -> sig_apply strict (sig_of o imms) abs = Some abs' -> stack_has cur abs ->
    exec_op cx o imms (cur ++ below) st = OOk stk' st' ->
    exists cur', stk' = cur' ++ below /\ stack_has cur' abs'.
Proof. exact exec_op_sound. Qed.
Print Assumptions C05_signatures_abstract_the_machine.

Theorem C05_signatures_necessary :
  forall cx o imms stk st stk' st',
    exec_op cx o imms stk st = OOk stk' st' -> o <> O_itxn_field ->
    (forall n, imms = [IInt n] -> (n <= 255)%N) ->
    operands_ok (sig_of o imms) stk = true.
Proof. exact sig_necessary. Qed.
Print Assumptions C05_signatures_necessary.

(* (3) the table is not too lax either (finite check, 127 opcode/immediate cases x all operand shapes up to the
   opcode's depth over {uint64, bytes}): every shape the signature accepts is realised by some stack from a
   small pool of values on which the machine succeeds.  With (2): a shape is accepted exactly when the opcode
   can succeed on operands of that shape, so [shape_failure] = "fails whatever the operand VALUES are". *)
Theorem C05_signatures_realisable_on_pool : all_realisable = true /\ all_meaningful = true.
Proof. exact sig_realisable_on_pool. Qed.
Print Assumptions C05_signatures_realisable_on_pool.

(* ---- non-vacuity: real compileTeal output (pasted), parsed by AVM/Parse.v, checked by vm_compute ---- *)
Local Open Scope string_scope.
Definition ex_mutual_v6 : string := "#pragma version 6
int 3
callsub h_2
int 1
int 2
callsub f_0
return

// f
f_0:
store 1
store 0
load 0
load 1
+
store 2
load 0
int 0
==
bz f_0_l2
int 1
retsub
f_0_l2:
load 0
int 1
-
load 2
byte ""z""
load 0
load 1
load 2
uncover 5
uncover 5
uncover 5
callsub g_1
cover 3
store 2
store 1
store 0
load 2
+
retsub

// g
g_1:
store 5
store 4
store 3
load 5
store 6
load 4
int 0
==
bz g_1_l2
int 1
retsub
g_1_l2:
load 3
load 4
load 3
load 4
load 5
load 6
uncover 5
uncover 5
callsub f_0
cover 4
store 6
store 5
store 4
store 3
load 6
len
+
retsub

// h
h_2:
store 7
load 7
pop
byte ""x""
pop
retsub".

Definition ex_mutual_v8 : string := "#pragma version 8
int 3
callsub h_2
int 1
int 2
callsub f_0
return

// f
f_0:
proto 2 1
frame_dig -2
frame_dig -1
+
store 0
frame_dig -2
int 0
==
bz f_0_l2
int 1
retsub
f_0_l2:
frame_dig -2
int 1
-
load 0
byte ""z""
load 0
cover 3
callsub g_1
swap
store 0
load 0
+
retsub

// g
g_1:
proto 3 1
frame_dig -1
store 1
frame_dig -2
int 0
==
bz g_1_l2
int 1
retsub
g_1_l2:
frame_dig -3
frame_dig -2
load 1
cover 2
callsub f_0
swap
store 1
load 1
len
+
retsub

// h
h_2:
proto 1 0
frame_dig -1
pop
byte ""x""
pop
retsub".

Definition ex_mutual_v4 : string := "#pragma version 4
int 3
callsub h_2
int 1
int 2
callsub f_0
return

// f
f_0:
store 1
store 0
load 0
load 1
+
store 2
load 0
int 0
==
bz f_0_l2
int 1
retsub
f_0_l2:
load 0
int 1
-
load 2
byte ""z""
load 0
load 1
load 2
dig 5
dig 5
dig 5
callsub g_1
store 0
store 2
store 1
load 0
swap
store 0
swap
pop
swap
pop
swap
pop
load 2
+
retsub

// g
g_1:
store 5
store 4
store 3
load 5
store 6
load 4
int 0
==
bz g_1_l2
int 1
retsub
g_1_l2:
load 3
load 4
load 3
load 4
load 5
load 6
dig 5
dig 5
callsub f_0
store 3
store 6
store 5
store 4
load 3
swap
store 3
swap
pop
swap
pop
load 6
len
+
retsub

// h
h_2:
store 7
load 7
pop
byte ""x""
pop
retsub".

Definition ex_loop_v5 : string := "#pragma version 5
int 0
store 0
main_l1:
load 0
int 5
<
bnz main_l7
main_l2:
txn Fee
int 3
>
bnz main_l6
int 1
bnz main_l5
err
main_l5:
txn Note
len
b main_l10
main_l6:
int 1
b main_l10
main_l7:
load 0
int 3
==
bnz main_l2
load 0
int 1
+
store 0
txn Fee
int 7
>
bnz main_l1
int 1
pop
b main_l1
main_l10:
return".

Definition ex_strict_v6 : string := "#pragma version 6
txn Fee
int 1
+
int 5
>
txn Note
byte ""ab""
concat
len
int 9
<
&&
return".

Definition ex_orphan_v6 : string := "#pragma version 6
int 1
int 2
return".

Definition ex_ctrl_v6 : string := "#pragma version 6
int 10
int 3
callsub k_0
-
return

// k
k_0:
store 0
int 5
load 0
retsub
int 2
+
retsub".


Definition accepted (text : string) (decl : list (string * list ty * list ty)) : option bool :=
  match parse_program [] text with
  | Some p => match stack_check p decl with V5Accept _ _ strict => Some strict | _ => None end
  | None => None
  end.
Definition rejected_at (text : string) (decl : list (string * list ty * list ty)) : option nat :=
  match parse_program [] text with
  | Some p => match stack_check p decl with V5Reject pc _ => Some pc | _ => None end
  | None => None
  end.

Definition decl_mutual : list (string * list ty * list ty) :=
  [("f_0", [TA; TA], [TU]); ("g_1", [TA; TA; TA], [TU]); ("h_2", [TA], [])].

(* mutual recursion with spilled local slots: dig/pop spill (v4), cover/uncover spill (v6), frame pointers (v8) *)
Example C05_ex_mutual_v4 : accepted ex_mutual_v4 decl_mutual = Some false.
Proof. vm_compute. reflexivity. Qed.
Example C05_ex_mutual_v6 : accepted ex_mutual_v6 decl_mutual = Some false.
Proof. vm_compute. reflexivity. Qed.
Example C05_ex_mutual_v8 : accepted ex_mutual_v8 decl_mutual = Some false.
Proof. vm_compute. reflexivity. Qed.
(* a loop with Break/Continue and an expression-valued Cond; strict thanks to the flow-sensitive slot types:
   the loop counter is loaded as uint64 *)
Example C05_ex_loop_v5 : accepted ex_loop_v5 [] = Some true.
Proof. vm_compute. reflexivity. Qed.
(* a program without anytype cells: the strict premise of C05_no_anytype_no_type_error is satisfiable *)
Example C05_ex_strict_v6 : accepted ex_strict_v6 [] = Some true.
Proof. vm_compute. reflexivity. Qed.

(* the hypotheses of the soundness theorems are satisfiable together: an accepted real program, a typed
   context, and an execution of several steps *)
Example C05_ex_execution :
  exists p rt ann cx m,
    parse_program [] ex_mutual_v8 = Some p /\ annot_inductive p rt ann = true /\
    ctx_typedb cx = true /\ reach cx p 40 (init_mach (init_state [] [] [])) = Some m /\ m_pc m <> 0%nat.
Proof.
  destruct (parse_program [] ex_mutual_v8) as [p|] eqn:E; [|vm_compute in E; discriminate].
  destruct (stack_check p decl_mutual) as [rt ann s| | |] eqn:C;
    try (vm_compute in E; inversion E; subst p; vm_compute in C; discriminate).
  exists p, rt, ann, (mkCtx true [] 0 [] [] 0).
  destruct (C05_stack_check_accept_means _ _ _ _ _ C) as [I _].
  vm_compute in E. inversion E; subst p.
  eexists. split; [reflexivity|]. split; [exact I|]. split; [reflexivity|].
  split; [vm_compute; reflexivity | vm_compute; discriminate].
Qed.

(* known findings on the pinned tree, as the checker sees them (confirmed on the real compiler by harness/c05.py):
   the optimiser deletes both stores of [x.store(1); x.store(2); Return(x.load())]: two values at [return] *)
Example C05_orphan_store_rejected : rejected_at ex_orphan_v6 [] = Some 2%nat.
Proof. vm_compute. reflexivity. Qed.
(* [Int(5) + Seq(Return(a), Int(2))] in a subroutine: retsub with two cells for one declared result *)
Example C05_ctrl_in_operand_rejected : rejected_at ex_ctrl_v6 [("k_0", [TA], [TU])] = Some 8%nat.
Proof. vm_compute. reflexivity. Qed.
