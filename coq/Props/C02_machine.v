(* Props/C02_machine.v — Subroutine calls behave as function calls: from the LINKED code to the reference
   machine, through the printed TEXT; and the frame-pointer calling convention on the machine.
   Property theorems only (Proof. exact lemma. Qed. + Print Assumptions); proofs in
   Proofs/CallMachine{Sim,Text,Program,Frame,FpSem,Examples}.v.  Design note: design_notes/C02_machine.md.

   1. WHOLE-RUN MACHINE BRIDGE for Comp/LinkedSem.v (list-level semantics with a call stack): every [pstep]
      step is a [Machine.step] on the assembler's program [link msel code] (or no machine step, exactly at a label,
      pragma or comment), call stacks related by the position translation [mpc]; halting runs give the verdict of
      [Machine.run].  Coverage: scratch-slot convention — [proto], [frame_dig], [frame_bury], constant blocks,
      [switch]/[match] are [PUnsup] in Comp/LinkedSem.v and nothing is claimed for runs reaching them (section 4
      covers the three frame instructions with an extended semantics).
   2. TEXT: the text compile_model prints for a program WITH subroutines parses to exactly that program, and
      [Machine.run] on it returns the verdict of the call-aware source semantics [denote_k] (any call graph) /
      of the by-value semantics [denote_c] (acyclic, by-value parameters, non-failing runs).
   3. FRAME-POINTER CONVENTION on the machine: a frame rule for [Machine.step] (all instructions) and the
      call/return protocol [callsub; proto A R; body; retsub].
   4. The linked semantics extended with proto / frame_dig / frame_bury / retsub-under-proto ([fstep]) and its
      whole-run bridge to the machine. *)
From Coq Require Import String.
From Coq Require Import List Arith NArith Bool Lia.
From PV Require Import Base.Bytes Base.Sexp AVM.Syntax AVM.Ops AVM.Machine AVM.Parse Src.Expr Src.Denote Src.DenoteCall
  Comp.Blocks Comp.Lower Comp.Passes Comp.GraphSem Comp.LinearSem Comp.LinkedSem Comp.Compile Comp.Assemble
  Proofs.LowerShape Proofs.NormalizeLowered Proofs.SlotComposeAssign Proofs.FlattenCorrect
  Proofs.StageELink Proofs.StageEText Proofs.StageECompose
  Proofs.CallMachineSim Proofs.CallMachineText Proofs.CallMachineFrame Proofs.CallMachineFpSem
  CallX.Denote CallX.EndToEnd
  Proofs.CallComposeLink Proofs.CallComposeMain Proofs.CallComposeLayout
  Proofs.CallComposeSpill Proofs.CallComposeSpillPass Proofs.CallComposeProgram Proofs.CallComposeAcyclic
  Proofs.CallComposeFinal Proofs.CallComposeByValue Proofs.CallComposeByValueFinal Proofs.CallComposeExamples
  Proofs.CallMachineProgram Proofs.CallMachineExamples.
Import ListNotations.
Local Open Scope list_scope.

(* ================================================================================================ *)
(* 1. the whole-run machine bridge for linked code                                                   *)
(* ================================================================================================ *)

(* step for step.  [prel code fr pc stk st m]: machine pc = number of real instructions before list position
   pc, same operand stack and state, machine call stack = one frame WITHOUT proto per return position, its
   return pc = [mpc] of the position.  One [pstep] is
     - one [Machine.step] to a related machine: every operation [exec_op] models, b, bz/bnz (taken or not),
       [callsub <label>] (the frame for position pc+1 is pushed, control at the label's position),
       [retsub] with a non-empty call stack (the frame is popped, control at its return position);
     - no machine step: exactly at a label, a pragma or a comment op (the call stack is unchanged);
     - a verdict [Done v m]: return (approve iff the top is a non-zero uint64), err and every failing
       operation, a wrong-typed or empty stack at a branch, [callsub] to an undefined label, [retsub] with
       an empty call stack (fail), running off the end of the list (verdict by the stack).
   Nothing is claimed when the list semantics is inconclusive ([PUnsup]). *)
Theorem C02_machine_simulates_linked : forall (env : Src.Denote.denv) code P,
  link (Src.Denote.e_msel env) code = Some P -> targets_ok code = true ->
  forall fr pc stk st m c', prel code fr pc stk st m -> List.length stk <= STACK_MAX ->
    pstep env code (PAt fr pc stk st) = Some c' ->
    match c' with
    | PAt fr' pc' stk' st' =>
        (exists m', step (Src.Denote.e_ctx env) P m = Running m' /\ prel code fr' pc' stk' st' m') \/
        (prel code fr' pc' stk' st' m /\ fr' = fr /\ exists c, nth_error code pc = Some c /\ real c = false)
    | PUnsup _ => True
    | h => exists v, pverdict_of h = Some v /\ step (Src.Denote.e_ctx env) P m = Done v m /\ pfinal_ok h m
    end.
Proof. exact machine_simulates_linked. Qed.
Print Assumptions C02_machine_simulates_linked.

(* the two call rules spelled out *)
Theorem C02_machine_linked_callsub : forall (env : Src.Denote.denv) code P,
  link (Src.Denote.e_msel env) code = Some P -> targets_ok code = true ->
  forall fr pc stk st m i l p,
    prel code fr pc stk st m -> List.length stk <= STACK_MAX ->
    nth_error code pc = Some (COp i) -> call_label i = Some l -> find_label l code = Some p ->
    exists m', step (Src.Denote.e_ctx env) P m = Running m' /\ prel code (S pc :: fr) p stk st m'.
Proof. exact machine_linked_callsub. Qed.
Print Assumptions C02_machine_linked_callsub.

Theorem C02_machine_linked_retsub : forall (env : Src.Denote.denv) code P,
  link (Src.Denote.e_msel env) code = Some P -> targets_ok code = true ->
  forall fr ret pc stk st m i,
    prel code (ret :: fr) pc stk st m -> List.length stk <= STACK_MAX ->
    nth_error code pc = Some (COp i) -> i_op i = O_retsub ->
    exists m', step (Src.Denote.e_ctx env) P m = Running m' /\ prel code fr ret stk st m'.
Proof. exact machine_linked_retsub. Qed.
Print Assumptions C02_machine_linked_retsub.

(* runs, from any related pair *)
Theorem C02_machine_bridge_linked_from : forall (env : Src.Denote.denv) code P,
  link (Src.Denote.e_msel env) code = Some P -> targets_ok code = true ->
  forall c0 h, pstar env code c0 h ->
  forall fr pc stk st m v, c0 = PAt fr pc stk st -> prel code fr pc stk st m ->
    pverdict_of h = Some v -> pstack_bounded env code c0 ->
    exists n m', (forall k, n <= k -> run k (Src.Denote.e_ctx env) P m = (v, m')) /\ pfinal_ok h m'.
Proof. exact pmachine_bridge. Qed.
Print Assumptions C02_machine_bridge_linked_from.

(* a pragma in front of the list shifts every position and every return position by one *)
Theorem C02_pstep_pragma : forall (env : Src.Denote.denv) v code c,
  pstep env (CPragma v :: code) (pshift c) = option_map pshift (pstep env code c).
Proof. exact pstep_pragma. Qed.
Print Assumptions C02_pstep_pragma.

(* THE BRIDGE: L the linked list (C02_compose's [flatten_subroutines ...]), P the assembler's program for
   [#pragma version v :: L] ([link] = AVM.Parse.build_prog on the statements; it exists when the labels are
   pairwise distinct and every argument assembles: C01_link_total), every b/bz/bnz target defined.  A run of L
   from pc 0 with an empty call stack to a halting configuration with a verdict gives: [Machine.run] with any
   fuel >= n returns that verdict, in a machine carrying the final state (and the returned value on top).
   [pstack_bounded]: no configuration on the run has more than 1000 operand cells (necessary:
   C01_bridge_needs_stack_bound; [targets_ok] necessary: C01_bridge_needs_targets). *)
Theorem C02_machine_bridge_linked : forall (env : Src.Denote.denv) version L P,
  link (Src.Denote.e_msel env) (CPragma version :: L) = Some P -> targets_ok (CPragma version :: L) = true ->
  forall st h v,
    pstar env L (PAt [] 0 [] st) h -> pverdict_of h = Some v ->
    pstack_bounded env L (PAt [] 0 [] st) ->
    exists n m', (forall k, n <= k -> run k (Src.Denote.e_ctx env) P (init_mach st) = (v, m')) /\ pfinal_ok h m'.
Proof. exact machine_bridge_linked. Qed.
Print Assumptions C02_machine_bridge_linked.

(* an executable sufficient check for the stack bound on terminating runs *)
Theorem C02_pbounded_run_sound : forall (env : Src.Denote.denv) code fuel c,
  pbounded_run fuel env code c = true -> pstack_bounded env code c.
Proof. intros env code. exact (pbounded_run_sound env code). Qed.
Print Assumptions C02_pbounded_run_sound.

(* ================================================================================================ *)
(* 2. the text                                                                                       *)
(* ================================================================================================ *)

(* any printable linked list: the printed text parses to [link msel (pragma :: L)], and halting runs of L are
   verdicts of [Machine.run] on that parse.  (Subroutine headers [// name] + label line and
   [callsub <label>] are in the class [printable], Proofs/StageEText.v.) *)
Theorem C02_linked_text_runs : forall msel version L,
  let comps := CPragma version :: L in
  NoDup (Proofs.StageELink.labels_of L) ->
  printable msel comps = true -> targets_ok comps = true ->
  exists lines P,
    assemble_all comps = Some lines /\
    parse_program msel (program_text lines) = Some P /\ link msel comps = Some P /\
    (no_pragma L = true -> pr_version P = version) /\
    forall (env : Src.Denote.denv), Src.Denote.e_msel env = msel ->
    forall st h v,
      pstar env L (PAt [] 0 [] st) h -> pverdict_of h = Some v ->
      pstack_bounded env L (PAt [] 0 [] st) ->
      exists n m', (forall k, n <= k -> run k (Src.Denote.e_ctx env) P (init_mach st) = (v, m')) /\ pfinal_ok h m'.
Proof. exact linked_text_runs. Qed.
Print Assumptions C02_linked_text_runs.

(* ---- (P) source semantics with calls -> the text compile_model prints -> Machine.run; acyclic call graph ----
   Hypotheses of C02_call_correct_nonrecursive_partial (with [compile_model] in place of [compile_components])
   plus, on the emitted list, [printable] and [targets_ok], and on the run, [pstack_bounded].  Conclusion: the
   lines ARE [assemble_all (#pragma :: L)]; their text parses to P = [link msel (#pragma :: L)]; and whenever
   the call-aware source semantics [denote_k] of the main routine (depth n, fuel) has a claimed outcome h with a
   verdict v ([return] with a uint64: approve iff non-zero; [return] with bytes, failure, [retsub] in main:
   fail), [Machine.run] on P with any sufficient fuel returns v, and when the program exits the machine carries
   the final state of the source semantics and the returned value on top of the stack.
   PARTIAL: relative to [denote_k] (items (1)-(4) of C02_call_correct_nonrecursive_partial, of which (3) — the
   pragma, assembling and parsing — is closed here); the hypotheses NoDup / linkable / printable / targets_ok
   are about the OUTPUT and not derived from the pipeline; [pstack_bounded] is about the run (the source
   semantics has no stack limit); optimiser off; no constant assembly; scratch-slot convention (the frame
   instructions are outside [printable] and [pstep]); non-terminating runs: no statement. *)
Theorem C02_program_text_calls_nonrecursive_partial : forall o modes p lines (rank : N -> nat) msel,
  compile_model o modes p = COk lines -> o_opt_slots o = false ->
  head_loop (root_ast (p_main p)) = false ->
  (forall r, In r (p_subs p) -> r_deferred r = None) ->
  (forall u i, In (u, (i, true)) (p_slots p) -> (i < 256)%N) ->
  exists crs crs' locals asg frs,
    compile_rec (S (List.length (p_subs p))) o p None (p_main p) [] = COk crs /\
    assign_slots p crs = COk (crs', locals, asg) /\
    fold_right flat_step (COk []) crs' = COk frs /\
    (acyclic rank frs ->
     let L := flatten_subroutines frs in
     let comps := CPragma (o_version o) :: L in
     compile_components o modes p = COk comps /\ assemble_all comps = Some lines /\
     (NoDup (Proofs.CallComposeLink.labels_of L) ->
      forallb (fun fr => linkable (fr_ops fr)) frs = true ->
      printable msel comps = true -> targets_ok comps = true ->
      exists P,
        parse_program msel (program_text lines) = Some P /\ link msel comps = Some P /\
        (no_pragma L = true -> pr_version P = o_version o) /\
        forall cx n fuel st h v,
          halt_of (denote_k o cx (look_of asg) msel (fs_subs frs) idW n None fuel (root_ast (p_main p)) [] st) = Some h ->
          claimed h -> verdict_of h = Some v ->
          pstack_bounded (lenv cx (look_of asg) msel (fs_subs frs)) L (PAt [] 0 [] st) ->
          exists k0 m', (forall k, k0 <= k -> run k cx P (init_mach st) = (v, m')) /\ exit_ok h m')).
Proof. exact program_text_calls_nonrecursive. Qed.
Print Assumptions C02_program_text_calls_nonrecursive_partial.

(* ---- (P) any call graph: the text WITH the spill code, [denote_k] with the oracle [W_spill] ---- *)
Theorem C02_program_text_calls_recursive_partial : forall o modes p lines msel,
  compile_model o modes p = COk lines -> o_opt_slots o = false ->
  head_loop (root_ast (p_main p)) = false ->
  (forall r, In r (p_subs p) -> r_deferred r = None) ->
  (forall u i, In (u, (i, true)) (p_slots p) -> (i < 256)%N) ->
  exists crs crs' locals asg frs frs2,
    compile_rec (S (List.length (p_subs p))) o p None (p_main p) [] = COk crs /\
    assign_slots p crs = COk (crs', locals, asg) /\
    fold_right flat_step (COk []) crs' = COk frs /\
    spill (o_version o) p frs locals = COk frs2 /\
    let L := flatten_subroutines frs2 in
    let comps := CPragma (o_version o) :: L in
    compile_components o modes p = COk comps /\ assemble_all comps = Some lines /\
    (NoDup (Proofs.CallComposeLink.labels_of L) ->
     forallb (fun fr => linkable (fr_ops fr)) frs2 = true ->
     printable msel comps = true -> targets_ok comps = true ->
     exists P,
       parse_program msel (program_text lines) = Some P /\ link msel comps = Some P /\
       (no_pragma L = true -> pr_version P = o_version o) /\
       forall cx,
         let W := W_spill o cx (look_of asg) msel (fs_subs frs2) (o_version o) p frs locals in
         forall n fuel st h v,
           halt_of (denote_k o cx (look_of asg) msel (fs_subs frs2) W n None fuel (root_ast (p_main p)) [] st) = Some h ->
           claimed h -> verdict_of h = Some v ->
           pstack_bounded (lenv cx (look_of asg) msel (fs_subs frs2)) L (PAt [] 0 [] st) ->
           exists k0 m', (forall k, k0 <= k -> run k cx P (init_mach st) = (v, m')) /\ exit_ok h m').
Proof. exact program_text_calls_recursive. Qed.
Print Assumptions C02_program_text_calls_recursive_partial.

(* ---- (P) against the by-value semantics [denote_c] of Src/DenoteCall.v ----
   C02_call_correct_nonrecursive_by_value_partial pushed through the text: if [denote_c] of the main routine ends
   the program with value v in state stC, [Machine.run] on the parse of the printed text returns the verdict of
   v, with v on top of the stack, in a state that differs from stC at most in the scratch cells of parameter
   slots ([Rel]).  PARTIAL: items (a)-(e) of that theorem (failing runs, by-reference parameters, [disciplined]
   as a hypothesis, [ce_locals = []], output hypotheses), plus [printable]/[targets_ok]/[pstack_bounded]. *)
Theorem C02_program_text_calls_by_value_partial : forall o modes p lines (rank : N -> nat) (PL : list N) msel,
  compile_model o modes p = COk lines -> o_opt_slots o = false -> o_use_fp o = false ->
  head_loop (root_ast (p_main p)) = false ->
  (forall r, In r (p_subs p) -> r_deferred r = None) ->
  (forall u i, In (u, (i, true)) (p_slots p) -> (i < 256)%N) ->
  exists crs crs' locals asg frs,
    compile_rec (S (List.length (p_subs p))) o p None (p_main p) [] = COk crs /\
    assign_slots p crs = COk (crs', locals, asg) /\
    fold_right flat_step (COk []) crs' = COk frs /\
    (acyclic rank frs ->
     let L := flatten_subroutines frs in
     let comps := CPragma (o_version o) :: L in
     let subs := fs_subs frs in
     let look := look_of asg in
     compile_components o modes p = COk comps /\ assemble_all comps = Some lines /\
     (NoDup (Proofs.CallComposeLink.labels_of L) ->
      forallb (fun fr => linkable (fr_ops fr)) frs = true ->
      printable msel comps = true -> targets_ok comps = true ->
      exists P,
        parse_program msel (program_text lines) = Some P /\ link msel comps = Some P /\
        (no_pragma L = true -> pr_version P = o_version o) /\
        forall cx,
          params_ok look subs rank PL -> bodies_ok look subs rank PL -> disciplined cx look msel subs ->
          forall k, okb look subs rank PL k (root_ast (p_main p)) = true ->
          forall f st v stC,
            denote_c (ceC cx look msel subs) f None [] (root_ast (p_main p)) [] st = DExit v stC ->
            pstack_bounded (lenv cx look msel subs) L (PAt [] 0 [] st) ->
            exists k0 m', (forall k, k0 <= k -> run k cx P (init_mach st) = (exit_verdict v, m')) /\
                          hd_error (m_stack m') = Some v /\ Rel look PL (m_st m') stC)).
Proof. exact program_text_calls_by_value. Qed.
Print Assumptions C02_program_text_calls_by_value_partial.

(* non-vacuity: the loop + nested-call program of C02_compose_example; every hypothesis by computation; the
   theorem gives approve (24 <> 0) in the source semantics' final state; [run 1000] computes the same *)
Example C02_program_text_calls_example :
  compile_model ex_opts ex_modes ex_prog = COk ex_lines /\
  denote_k ex_opts ex_ctx (look_of ex_asg) [] [ex_f; ex_g] idW 100 None 100 (root_ast ex_main) [] ex_st0
    = DExit (VI 24) ex_final /\
  exists P,
    parse_program [] (program_text ex_lines) = Some P /\ pr_version P = 6%N /\
    (exists k0 m', (forall k, k0 <= k -> run k ex_ctx P (init_mach ex_st0) = (VApprove, m')) /\
                   m_st m' = ex_final /\ hd_error (m_stack m') = Some (VI 24)) /\
    fst (run 1000 ex_ctx P (init_mach ex_st0)) = VApprove.
Proof. exact program_text_calls_example. Qed.
Print Assumptions C02_program_text_calls_example.

(* recursion: factorial with a live local; the text contains the spill code *)
Example C02_program_text_calls_recursion_example :
  compile_model ex_opts ex_modes rec_prog = COk rec_lines /\
  denote_k ex_opts ex_ctx (look_of rec_asg) [] [ex_fact] rec_W 100 None 100 (root_ast rec_main) [] ex_st0
    = DExit (VI 25) rec_final /\
  exists P,
    parse_program [] (program_text rec_lines) = Some P /\
    (exists k0 m', (forall k, k0 <= k -> run k ex_ctx P (init_mach ex_st0) = (VApprove, m')) /\
                   m_st m' = rec_final /\ hd_error (m_stack m') = Some (VI 25)) /\
    fst (run 1000 ex_ctx P (init_mach ex_st0)) = VApprove.
Proof. exact program_text_calls_recursion_example. Qed.
Print Assumptions C02_program_text_calls_recursion_example.

(* ================================================================================================ *)
(* 3. the frame-pointer convention on the machine                                                    *)
(* ================================================================================================ *)

(* every operation of [exec_op] that succeeds on a stack succeeds on every extension, extension untouched *)
Theorem C02_exec_op_frame_all : forall cx o imms stk st s' st' rest,
  exec_op cx o imms stk st = OOk s' st' ->
  exec_op cx o imms (stk ++ rest) st = OOk (s' ++ rest) st'.
Proof. exact exec_op_frame_all. Qed.
Print Assumptions C02_exec_op_frame_all.

(* THE FRAME RULE for one machine step, all instructions (operations, branches, callsub, proto, retsub with and
   without proto, frame_dig, frame_bury, constant blocks): [lift C fs m] = m with the cells C below its operand
   stack, the frames fs below its call stack, and the frame heights recorded by proto shifted by |C|.
   [calls_wf]: every proto frame has #args <= recorded height (what proto checks; preserved). *)
Theorem C02_machine_step_frame : forall cx p C fs m m',
  step cx p m = Running m' -> calls_wf (m_calls m) -> height m + List.length C <= STACK_MAX ->
  step cx p (Proofs.CallMachineFrame.lift C fs m) = Running (Proofs.CallMachineFrame.lift C fs m') /\ calls_wf (m_calls m').
Proof. exact step_lift. Qed.
Print Assumptions C02_machine_step_frame.

Theorem C02_machine_run_frame : forall cx p C fs n m m',
  msteps cx p (List.length C) n m m' -> calls_wf (m_calls m) ->
  msteps cx p 0 n (Proofs.CallMachineFrame.lift C fs m) (Proofs.CallMachineFrame.lift C fs m') /\ calls_wf (m_calls m').
Proof. intros cx p C fs. exact (msteps_lift cx p C fs). Qed.
Print Assumptions C02_machine_run_frame.

(* THE CALL/RETURN PROTOCOL.  At [callsub l] with the A arguments on top of the caller's cells C, the callee
   starting with [proto A R]: if the body, run on the STRIPPED machine [callee_start] (operand stack = the
   arguments only, call stack = the callee's frame only, frame pointer A) for n steps that leave |C| cells of
   headroom, is at a [retsub] in its own frame with the R result cells [rs] at the frame pointer — anything
   [above] them, the argument cells possibly overwritten ([args']) — then the real machine, in 2 + n + 1 steps,
   is at the instruction after the callsub with operand stack [rs ++ C] and the caller's call stack: every
   caller cell and frame untouched; state and constant blocks as the body left them.
   "The body respects the frame" = its run exists on the stripped machine, where the caller's cells do not
   exist: popping, reading or writing below the argument area fails there.  Nested calls inside the body (with
   or without proto), loops, dupn/popn/frame_bury into locals or arguments are all covered. *)
Theorem C02_fp_call_protocol : forall cx p (M : mach) (l : string) (t : nat) (A R : N)
    (args C : list value) (n : nat) (mb' : mach) (above rs args' : list value) (imms : list imm),
  nth_error (pr_code p) (m_pc M) = Some (mkP O_callsub [IName l]) ->
  label_pc p l = Some t ->
  nth_error (pr_code p) t = Some (mkP O_proto [IInt A; IInt R]) ->
  m_stack M = rev args ++ C -> List.length args = N.to_nat A ->
  height M <= STACK_MAX ->
  msteps cx p (List.length C) n (callee_start M t A R args) mb' ->
  m_calls mb' = [callee_frame (S (m_pc M)) A R] ->
  nth_error (pr_code p) (m_pc mb') = Some (mkP O_retsub imms) ->
  m_stack mb' = above ++ rs ++ rev args' -> List.length args' = N.to_nat A -> List.length rs = N.to_nat R ->
  height mb' + List.length C <= STACK_MAX ->
  msteps cx p 0 (2 + n + 1) M
    (mkM (S (m_pc M)) (rs ++ C) (m_calls M) false (m_intc mb') (m_bytec mb') (m_st mb')).
Proof. exact fp_call_protocol. Qed.
Print Assumptions C02_fp_call_protocol.

Theorem C02_fp_call_protocol_run : forall cx p (M : mach) (l : string) (t : nat) (A R : N)
    (args C : list value) (n : nat) (mb' : mach) (above rs args' : list value) (imms : list imm),
  nth_error (pr_code p) (m_pc M) = Some (mkP O_callsub [IName l]) ->
  label_pc p l = Some t ->
  nth_error (pr_code p) t = Some (mkP O_proto [IInt A; IInt R]) ->
  m_stack M = rev args ++ C -> List.length args = N.to_nat A ->
  height M <= STACK_MAX ->
  msteps cx p (List.length C) n (callee_start M t A R args) mb' ->
  m_calls mb' = [callee_frame (S (m_pc M)) A R] ->
  nth_error (pr_code p) (m_pc mb') = Some (mkP O_retsub imms) ->
  m_stack mb' = above ++ rs ++ rev args' -> List.length args' = N.to_nat A -> List.length rs = N.to_nat R ->
  height mb' + List.length C <= STACK_MAX ->
  forall k, run (2 + n + 1 + k) cx p M =
            run k cx p (mkM (S (m_pc M)) (rs ++ C) (m_calls M) false (m_intc mb') (m_bytec mb') (m_st mb')).
Proof. exact fp_call_protocol_run. Qed.
Print Assumptions C02_fp_call_protocol_run.

(* non-vacuity: a callee with two locals (int 0; dupn 1), frame_dig -2/-1, frame_bury 1, a nested call with its
   own proto, frame_bury 0; retsub — below the arguments the caller keeps a cell (7): it is still there *)
Example C02_fp_call_protocol_example :
  parse_program [] (program_text fp_lines) = Some fp_prog /\
  m_stack fp_M = rev fp_args ++ [VI 7] /\ m_calls fp_M = [] /\
  msteps ex_ctx fp_prog 1 15 (callee_start fp_M 6 2 1 fp_args) fp_mb /\
  m_stack fp_mb = [VI 7] ++ [VI 8] ++ rev fp_args /\
  msteps ex_ctx fp_prog 0 (2 + 15 + 1) fp_M (mkM 4 [VI 8; VI 7] [] false [] [] ex_st0) /\
  fst (run 100 ex_ctx fp_prog (init_mach ex_st0)) = VApprove.
Proof. exact fp_call_protocol_example. Qed.
Print Assumptions C02_fp_call_protocol_example.

(* ================================================================================================ *)
(* 4. the linked semantics with the frame instructions                                               *)
(* ================================================================================================ *)

(* [fstep] extends [pstep]: wherever [pstep] is conclusive, [fstep] makes the same step (frames without proto;
   the extra component is the machine's "previous instruction was callsub" flag) *)
Theorem C02_fstep_conservative : forall (env : Src.Denote.denv) code c c',
  pstep env code c = Some c' -> (forall o, c' <> PUnsup o) ->
  forall fcs, exists fcs', fstep env code (embF fcs c) = Some (embF fcs' c').
Proof. exact fstep_conservative. Qed.
Print Assumptions C02_fstep_conservative.

(* without frame instructions [link_fp] is [link] *)
Theorem C02_link_fp_plain : forall msel code,
  (forall i, In (COp i) code -> frame_op i = None) -> link_fp msel code = link msel code.
Proof. exact link_fp_plain. Qed.
Print Assumptions C02_link_fp_plain.

(* step for step against the machine: as C02_machine_simulates_linked, plus proto (only directly after callsub,
   A <= height: the innermost frame records (height, A, R)), frame_dig / frame_bury (immediate read as the
   assembler reads it; failure outside a proto frame or outside the stack), retsub under proto *)
Theorem C02_machine_simulates_fp : forall (env : Src.Denote.denv) code P,
  link_fp (Src.Denote.e_msel env) code = Some P -> targets_ok code = true ->
  forall fr fcs pc stk st m c', frel code fr fcs pc stk st m -> List.length stk <= STACK_MAX ->
    fstep env code (FAt fr fcs pc stk st) = Some c' ->
    match c' with
    | FAt fr' fcs' pc' stk' st' =>
        (exists m', step (Src.Denote.e_ctx env) P m = Running m' /\ frel code fr' fcs' pc' stk' st' m') \/
        (frel code fr' fcs' pc' stk' st' m /\ fr' = fr /\ exists c, nth_error code pc = Some c /\ real c = false)
    | FUnsup _ => True
    | h => exists v, fverdict_of h = Some v /\ step (Src.Denote.e_ctx env) P m = Done v m /\ ffinal_ok h m
    end.
Proof. exact machine_simulates_fp. Qed.
Print Assumptions C02_machine_simulates_fp.

Theorem C02_machine_bridge_fp : forall (env : Src.Denote.denv) code P,
  link_fp (Src.Denote.e_msel env) code = Some P -> targets_ok code = true ->
  forall st h v, fstar env code (FAt [] false 0 [] st) h -> fverdict_of h = Some v ->
    fstack_bounded env code (FAt [] false 0 [] st) ->
    exists n m', (forall k, n <= k -> run k (Src.Denote.e_ctx env) P (init_mach st) = (v, m')) /\ ffinal_ok h m'.
Proof. exact fmachine_bridge_init. Qed.
Print Assumptions C02_machine_bridge_fp.

(* non-vacuity: the loop + nested-call program compiled with frame pointers (version 8): the text compile_model
   prints parses to [link_fp] of the component list; [fstep] runs it to [return] with 24; the bridge gives the
   verdict of [Machine.run] *)
Example C02_fp_linked_program_example :
  compile_model fp_opts ex_modes ex_prog = COk fpc_lines /\
  assemble_all fpc_comps = Some fpc_lines /\
  parse_program [] (program_text fpc_lines) = Some fpc_P /\
  link_fp [] fpc_comps = Some fpc_P /\
  frun 600 fpc_lenv fpc_comps (FAt [] false 0 [] ex_st0) = FExit (VI 24) fpc_final /\
  (exists k0 m', (forall k, k0 <= k -> run k ex_ctx fpc_P (init_mach ex_st0) = (VApprove, m')) /\
                 m_st m' = fpc_final /\ hd_error (m_stack m') = Some (VI 24)) /\
  fst (run 1000 ex_ctx fpc_P (init_mach ex_st0)) = VApprove.
Proof. exact fp_linked_program_example. Qed.
Print Assumptions C02_fp_linked_program_example.
