(* Props/C16.v — WideRatio is exact or fails, never wraps.
   Property theorems only; proofs live in Proofs/WideRatioProof.v. *)
From Coq Require Import List NArith.
From PV Require Import Base.U64 AVM.Syntax AVM.Ops Comp.WideRatio Proofs.WideRatioProof.
Import ListNotations.
Local Open Scope N_scope.

(* For every non-empty list of numerator and denominator factors below 2^64 and every stack below,
   executing the op list WideRatio lowers to (factors being constants) leaves exactly
   floor(prod ns / prod ds) on top when every left-to-right running product is below 2^128, the
   denominator product is non-zero and the quotient is below 2^64 — and FAILS in every other case. *)
Theorem C16_wide_ratio_exact_or_fails :
  forall (ns ds : list N) (r : list value),
    ns <> [] -> ds <> [] ->
    Forall (fun c => c < U64) ns -> Forall (fun c => c < U64) ds ->
    run_pure (wide_ratio_ops (map const_code ns) (map const_code ds)) r =
    match wide_ratio_spec ns ds with
    | Some q => Some (VI q :: r)
    | None => None
    end.
Proof. exact wide_ratio_exact. Qed.
Print Assumptions C16_wide_ratio_exact_or_fails.

(* the specification itself, spelled out: what [wide_ratio_spec] returns *)
Theorem C16_spec_meaning :
  forall ns ds q, wide_ratio_spec ns ds = Some q ->
    running_ok 1 ns = true /\ running_ok 1 ds = true /\ prod ds <> 0 /\
    q = prod ns / prod ds /\ q < U64.
Proof. exact wide_ratio_spec_meaning. Qed.
Print Assumptions C16_spec_meaning.
