(* ABI/Assignable.v — executable model of pyteal/ast/abi/util.py: type_spec_is_assignable_to(a, b),
   exactly as written (match order, isinstance tests through the class table of ABI/Descr.v, the
   str(a) == str(b) fallback through the modelled __str__, `==` on NamedTuple specs).

       match a, b:
           case NamedTupleTypeSpec(), NamedTupleTypeSpec():  return a == b
           case TupleTypeSpec(), TupleTypeSpec():
               if a.length_static() != b.length_static(): return False
               return all(map(assignable, zip(a.value_type_specs(), b.value_type_specs())))
           case ArrayTypeSpec(), ArrayTypeSpec():
               if not assignable(a.value_type_spec(), b.value_type_spec()): return False
               match a, b:
                   case AddressTypeSpec(), StaticArrayTypeSpec():     return a.length_static() == b.length_static()
                   case StaticArrayTypeSpec(), AddressTypeSpec():     return False
                   case StaticArrayTypeSpec(), StaticArrayTypeSpec(): return a.length_static() == b.length_static()
                   case StringTypeSpec(), DynamicArrayTypeSpec():     return True
                   case DynamicArrayTypeSpec(), StringTypeSpec():     return False
                   case DynamicArrayTypeSpec(), DynamicArrayTypeSpec(): return True
               return False
           case UintTypeSpec(), UintTypeSpec():  return a.size == b.size
       if isinstance(a, type(b)): return True
       elif str(a) == str(b):     return True
       return False

   The fixpoint below is structural in [a]; Proofs/AssignableProof.v ([assignable_eqn]) shows that it
   satisfies the literal transcription of the Python text as one equation.
   Definitions only. *)
From Coq Require Import List NArith Ascii String Bool.
From PV Require Import ABI.Types ABI.Spec ABI.Descr.
Import ListNotations.

(* the last two `if`s *)
Definition fallback (a b : ty) : bool :=
  isinst a (cls_of b) || String.eqb (py_str a) (py_str b).

(* the inner `match a, b` of the array case (after the element test) *)
Definition array_case (a b : ty) : bool :=
  if isinst a C_Address && isinst b C_StaticArray then N.eqb (length_static a) (length_static b)
  else if isinst a C_StaticArray && isinst b C_Address then false
  else if isinst a C_StaticArray && isinst b C_StaticArray then N.eqb (length_static a) (length_static b)
  else if isinst a C_String && isinst b C_DynamicArray then true
  else if isinst a C_DynamicArray && isinst b C_String then false
  else if isinst a C_DynamicArray && isinst b C_DynamicArray then true
  else false.

(* the whole function when [a] is neither a tuple nor an array spec (bool, uint, txn, reference):
   the first three cases cannot match *)
Definition assignable_flat (a b : ty) : bool :=
  if isinst a C_Uint && isinst b C_Uint then N.eqb (uint_size a) (uint_size b)
  else fallback a b.

(* zip semantics: stops at the shorter list *)
Fixpoint all2_zip {A B} (f : A -> B -> bool) (l1 : list A) (l2 : list B) : bool :=
  match l1, l2 with
  | x :: r1, y :: r2 => f x y && all2_zip f r1 r2
  | _, _ => true
  end.

Fixpoint assignable (a b : ty) {struct a} : bool :=
  match a with
  | TTuple na tas =>
      match b with
      | TTuple nb tbs =>
          match na, nb with
          | Some _, Some _ => py_eq a b
          | _, _ =>
              if negb (N.eqb (length_static a) (length_static b)) then false
              else (fix go (l1 l2 : list ty) : bool :=
                      match l1, l2 with
                      | x :: r1, y :: r2 => assignable x y && go r1 r2
                      | _, _ => true
                      end) tas tbs
          end
      | _ => fallback a b
      end
  | TStaticArray ea _ | TDynArray ea =>
      match value_spec b with
      | Some eb => if negb (assignable ea eb) then false else array_case a b
      | None => fallback a b
      end
  | TAddress | TString | TStaticBytes _ | TDynBytes =>
      (* the element spec of [a] is ByteTypeSpec(): a leaf *)
      match value_spec b with
      | Some eb => if negb (assignable_flat TByte eb) then false else array_case a b
      | None => fallback a b
      end
  | TBool | TByte | TUint _ | TTxn _ | TRef _ => assignable_flat a b
  end.

(* ---- the two gates that use the relation ----
   subroutine.py SubroutineDefinition.invoke: an ABI argument is accepted iff
   type_spec_is_assignable_to(arg.type_spec(), expected); itxn.py MethodCall likewise for ABI
   arguments (and for the transaction-type argument check). Otherwise TealInputError / TealTypeError. *)
Definition call_admits (arg_spec param_spec : ty) : bool := assignable arg_spec param_spec.

(* ---- the direct-assignment gates: dst.set(<ABI value>) --------------------------------------
   Every abi class has its own test in `set` (it does NOT go through type_spec_is_assignable_to).
   Argument order as in [assignable]: source first.
     Uint.set(v)          isinstance(v.type_spec(), UintTypeSpec) and bit sizes equal     (uint.py)
     Bool.set(v)          not (v.type_spec() != self.type_spec())                         (bool.py)
     Address.set(v)       v.type_spec() == AddressTypeSpec() or == StaticArrayTypeSpec(ByteTypeSpec(), 32)
     String.set(v)        v.type_spec() == StringTypeSpec()  or == DynamicArrayTypeSpec(ByteTypeSpec())
     StaticArray.set(v), DynamicArray.set(v) (inherited by StaticBytes / DynamicBytes, which fall
                          through to super().set for ABI values)   not (self.type_spec() != v.type_spec())
     Tuple.set( *values)  takes the ELEMENTS: with one ABI value v and a 1-tuple it tests
                          not (myType != v.type_spec()) for the single member type; any other arity is refused
     Transaction / reference types have no public set.
   `x != y` is `not (x == y)` (no class defines __ne__), with the same operand-priority rule. *)
(* Transaction / reference VALUES refuse encode() (TealInputError), so they cannot be members:
   _encode_tuple calls encode() on every value after the type test *)
Definition no_encoding (t : ty) : bool := match t with TTxn _ | TRef _ => true | _ => false end.

(* ... and _encode_tuple asks every STATIC value's spec for byte_length_static(), which raises
   TealInputError at a transaction spec (reference specs answer 1; bool members are not asked) *)
Fixpoint slen_raises (t : ty) : bool :=
  match t with
  | TTxn _ => true
  | TStaticArray e _ => if is_bool e then false else slen_raises e
  | TTuple _ ts => existsb slen_raises ts
  | _ => false
  end.

Definition member_refused (t : ty) : bool :=
  no_encoding t || (negb (is_dynamic t) && slen_raises t).

Definition set_admits (src dst : ty) : bool :=
  match dst with
  | TByte | TUint _ => isinst src C_Uint && N.eqb (uint_size dst) (uint_size src)
  | TBool => py_eq src dst
  | TAddress => py_eq src TAddress || py_eq src (TStaticArray TByte 32)
  | TString => py_eq src TString || py_eq src (TDynArray TByte)
  | TStaticArray _ _ | TStaticBytes _ | TDynArray _ | TDynBytes => py_eq dst src
  | TTuple _ [e] => py_eq e src && negb (member_refused src)
  | TTuple _ _ => false
  | TTxn _ | TRef _ => false
  end.

(* the spec whose encoding the stored bytes must have: the single member for a 1-tuple *)
Definition set_target (dst : ty) : ty :=
  match dst with TTuple _ [e] => e | _ => dst end.

(* member assignment: Tuple.set( *values) / Array.set([values]) test  not (memberType != v.type_spec()) *)
Definition elem_admits (src slot : ty) : bool := py_eq slot src && negb (member_refused src).

(* dst.set(<ComputedValue producing src>): BaseType._set_with_computed_type tests
   not (self.type_spec() != produced); Address.set has its own two-way test *)
Definition computed_admits (src dst : ty) : bool :=
  match dst with
  | TAddress => py_eq src TAddress || py_eq src (TStaticArray TByte 32)
  | TTxn _ | TRef _ => false
  | _ => py_eq dst src
  end.

(* <ComputedValue producing src>.store_into(dst): ReturnedValue (result of an ABIReturnSubroutine call),
   ArrayElement and TupleElement (through _index_tuple) all test
   not (output.type_spec() != produced_type_spec)   (type.py, array_base.py, tuple.py) *)
Definition store_into_admits (src dst : ty) : bool := py_eq dst src.

(* ---- type_spec_from_algosdk (util.py:416-490) and the MethodCall parameter gate ------------------
   A method signature is parsed by algosdk; type_spec_from_algosdk maps the parsed type to the PyTeal spec
   of the same ARC-4 type: uint8/16/32/64, byte, bool, string, address, T[N], T[], plain tuples, the
   reference and transaction strings.  Every other uint width (and ufixed, which [ty] cannot express)
   is REFUSED with TealInputError("Invalid Type ...").  The argument [t] is the ARC-4 type as a plain
   term (no named tuples / StaticBytes / DynamicBytes: algosdk has no such types). *)
Fixpoint sdk_supported (t : ty) : bool :=
  match t with
  | TUint n => pyteal_uint_bits n
  | TStaticArray e _ | TDynArray e => sdk_supported e
  | TTuple None ts => forallb sdk_supported ts
  | TTuple (Some _) _ | TStaticBytes _ | TDynBytes => false
  | _ => true
  end.

Definition from_algosdk (t : ty) : option ty := if sdk_supported t then Some t else None.

(* InnerTxnBuilder.MethodCall: an ABI argument of spec [arg] for a parameter written [param] in the
   method signature is accepted iff the signature is readable and arg is assignable to the read spec *)
Definition method_arg_admits (arg param : ty) : bool :=
  match from_algosdk param with
  | Some p => assignable arg p
  | None => false
  end.
