(* ABI/Wire.v — s-expression syntax of ABI types, values and layouts (reader and printer in Coq).
   Documented in design_notes/C19.md; reused by every ABI check.

   type  ::= bool | byte | address | string | dynbytes
           | (uint N) | (sarr type N) | (darr type) | (sbytes N)
           | (tuple type ...) | (named C (NAME ...) type ...)          C = class number, NAME = "str"
           | (txn any|pay|keyreg|acfg|axfer|afrz|appl) | (ref account|asset|application)
   value ::= true | false | N (decimal) | xHEX | "text" | (value ...) | (rep N value) | (repb N B)
             xHEX and "text" are byte lists (VBytes);  ( ... ) is VList;
             (rep N v) = the VList of N copies of v,  (repb N B) = the VBytes of N bytes of value B
             (compact spellings for the 65535/65536 boundary cases)
   layout::= bool | (uint N) | (arr layout N) | (dyn layout) | (tup layout ...) | txn | (ref KIND)   *)
From Coq Require Import List NArith Ascii String Bool.
From PV Require Import Base.Bytes Base.Sexp ABI.Types ABI.Spec ABI.Layout.
Import ListNotations.
Local Open Scope string_scope.

Definition wa_N (e : sexp) : option N := match e with Atom a => N_of_dec a | _ => None end.

Definition wa_hex (a : string) : option bytes :=
  match a with
  | String c rest => if Ascii.eqb c "x" then bytes_of_hex rest else None
  | EmptyString => None
  end.

Definition w_txn_kind (s : string) : option txn_kind :=
  if String.eqb s "any" then Some TxAny else if String.eqb s "pay" then Some TxPay
  else if String.eqb s "keyreg" then Some TxKeyreg else if String.eqb s "acfg" then Some TxAcfg
  else if String.eqb s "axfer" then Some TxAxfer else if String.eqb s "afrz" then Some TxAfrz
  else if String.eqb s "appl" then Some TxAppl else None.

Definition w_ref_kind (s : string) : option ref_kind :=
  if String.eqb s "account" then Some RAccount else if String.eqb s "asset" then Some RAsset
  else if String.eqb s "application" then Some RApplication else None.

Definition p_txn_kind (k : txn_kind) : string :=
  match k with
  | TxAny => "any" | TxPay => "pay" | TxKeyreg => "keyreg" | TxAcfg => "acfg"
  | TxAxfer => "axfer" | TxAfrz => "afrz" | TxAppl => "appl"
  end.

Definition p_ref_kind (k : ref_kind) : string :=
  match k with RAccount => "account" | RAsset => "asset" | RApplication => "application" end.

Fixpoint w_names (l : list sexp) : option (list string) :=
  match l with
  | [] => Some []
  | Str s :: r => option_map (cons s) (w_names r)
  | Atom s :: r => option_map (cons s) (w_names r)
  | _ => None
  end.

Fixpoint w_ty (e : sexp) : option ty :=
  match e with
  | Atom a =>
      if String.eqb a "bool" then Some TBool
      else if String.eqb a "byte" then Some TByte
      else if String.eqb a "address" then Some TAddress
      else if String.eqb a "string" then Some TString
      else if String.eqb a "dynbytes" then Some TDynBytes
      else None
  | Str _ => None
  | SList (Atom h :: args) =>
      let tys := (fix go (l : list sexp) : option (list ty) :=
                    match l with
                    | [] => Some []
                    | x :: r => match w_ty x, go r with
                                | Some t, Some ts => Some (t :: ts)
                                | _, _ => None
                                end
                    end) in
      if String.eqb h "uint" then
        match args with [n] => option_map TUint (wa_N n) | _ => None end
      else if String.eqb h "sbytes" then
        match args with [n] => option_map TStaticBytes (wa_N n) | _ => None end
      else if String.eqb h "sarr" then
        match args with
        | [t; n] => match w_ty t, wa_N n with
                    | Some t', Some n' => Some (TStaticArray t' n')
                    | _, _ => None
                    end
        | _ => None
        end
      else if String.eqb h "darr" then
        match args with [t] => option_map TDynArray (w_ty t) | _ => None end
      else if String.eqb h "tuple" then option_map (TTuple None) (tys args)
      else if String.eqb h "named" then
        match args with
        | c :: SList names :: rest =>
            match wa_N c, w_names names, tys rest with
            | Some c', Some ns, Some ts => Some (TTuple (Some (c', ns)) ts)
            | _, _, _ => None
            end
        | _ => None
        end
      else if String.eqb h "txn" then
        match args with [Atom k] => option_map TTxn (w_txn_kind k) | _ => None end
      else if String.eqb h "ref" then
        match args with [Atom k] => option_map TRef (w_ref_kind k) | _ => None end
      else None
  | SList _ => None
  end.

Fixpoint p_ty (t : ty) : sexp :=
  match t with
  | TBool => Atom "bool"
  | TByte => Atom "byte"
  | TUint n => SList [Atom "uint"; sN n]
  | TAddress => Atom "address"
  | TString => Atom "string"
  | TStaticArray e n => SList [Atom "sarr"; p_ty e; sN n]
  | TDynArray e => SList [Atom "darr"; p_ty e]
  | TTuple None ts => SList (Atom "tuple" :: map p_ty ts)
  | TTuple (Some (c, ns)) ts => SList (Atom "named" :: sN c :: SList (map Str ns) :: map p_ty ts)
  | TStaticBytes n => SList [Atom "sbytes"; sN n]
  | TDynBytes => Atom "dynbytes"
  | TTxn k => SList [Atom "txn"; Atom (p_txn_kind k)]
  | TRef k => SList [Atom "ref"; Atom (p_ref_kind k)]
  end.

Fixpoint w_val (e : sexp) : option val :=
  match e with
  | Atom a =>
      if String.eqb a "true" then Some (VBool true)
      else if String.eqb a "false" then Some (VBool false)
      else match N_of_dec a with
           | Some n => Some (VUint n)
           | None => option_map VBytes (wa_hex a)
           end
  | Str s => Some (VBytes (bytes_of_string s))
  | SList [Atom "rep"; n; x] =>
      match wa_N n, w_val x with
      | Some n', Some v => Some (VList (repeat v (N.to_nat n')))
      | _, _ => None
      end
  | SList [Atom "repb"; n; b] =>
      match wa_N n, wa_N b with
      | Some n', Some b' => Some (VBytes (repeat (n2b b') (N.to_nat n')))
      | _, _ => None
      end
  | SList l =>
      option_map VList
        ((fix go (l : list sexp) : option (list val) :=
            match l with
            | [] => Some []
            | x :: r => match w_val x, go r with
                        | Some v, Some vs => Some (v :: vs)
                        | _, _ => None
                        end
            end) l)
  end.

Fixpoint p_val (v : val) : sexp :=
  match v with
  | VBool true => Atom "true"
  | VBool false => Atom "false"
  | VUint n => sN n
  | VBytes bs => sHex bs
  | VList vs => SList (map p_val vs)
  end.

Fixpoint p_layout (l : layout) : sexp :=
  match l with
  | LBool => Atom "bool"
  | LUint n => SList [Atom "uint"; sN n]
  | LArr e n => SList [Atom "arr"; p_layout e; sN n]
  | LDyn e => SList [Atom "dyn"; p_layout e]
  | LTup ls => SList (Atom "tup" :: map p_layout ls)
  | LTxn => Atom "txn"
  | LRef k => SList [Atom "ref"; Atom (p_ref_kind k)]
  end.

Definition p_bool (b : bool) : sexp := Atom (if b then "true" else "false").
Definition p_obytes (o : option bytes) : sexp :=
  match o with Some b => SList [Atom "some"; sHex b] | None => SList [Atom "none"] end.
