(* ABI/Layout.v — encoding-layout normal form of an ABI type.

   [canon : ty -> layout] forgets everything that cannot influence a single encoded byte:
     byte            ~ uint8
     address         ~ byte[32]  ~ StaticBytes 32 ~ uint8[32]
     string          ~ byte[]    ~ DynamicBytes   ~ uint8[]
     named tuples    ~ plain tuples (class identity and field names dropped)
     StaticBytes n   ~ byte[n]
   Transaction type specs all have the same run-time representation in PyTeal (a uint64 holding the
   group index of the transaction; they have no ARC-4 encoding), so they share the layout [LTxn];
   the three reference specs keep their kind ([LRef k]).

   The layout-level functions [layout_dyn], [layout_slen], [layout_has_type], [layout_encode] are the
   ARC-4 rules again, on the normal form.  Proofs/ABILayoutProof.v shows that the type-level spec of
   ABI/Spec.v factors through [canon]:  arc4_encode t v = layout_encode (canon t) v, etc.
   Definitions only. *)
From Coq Require Import List NArith Ascii String Bool.
From PV Require Import Base.Bytes ABI.Types ABI.Spec.
Import ListNotations.
Local Open Scope N_scope.

Inductive layout : Type :=
| LBool
| LUint (bits : N)
| LArr (elem : layout) (len : N)
| LDyn (elem : layout)
| LTup (elems : list layout)
| LTxn
| LRef (k : ref_kind).

Fixpoint canon (t : ty) : layout :=
  match t with
  | TBool => LBool
  | TByte => LUint 8
  | TUint n => LUint n
  | TAddress => LArr (LUint 8) 32
  | TString => LDyn (LUint 8)
  | TStaticArray e n => LArr (canon e) n
  | TDynArray e => LDyn (canon e)
  | TTuple _ ts => LTup (map canon ts)
  | TStaticBytes n => LArr (LUint 8) n
  | TDynBytes => LDyn (LUint 8)
  | TTxn _ => LTxn
  | TRef k => LRef k
  end.

Section LayoutInd.
  Variable P : layout -> Prop.
  Hypothesis HBool : P LBool.
  Hypothesis HUint : forall n, P (LUint n).
  Hypothesis HArr : forall e n, P e -> P (LArr e n).
  Hypothesis HDyn : forall e, P e -> P (LDyn e).
  Hypothesis HTup : forall ls, Forall P ls -> P (LTup ls).
  Hypothesis HTxn : P LTxn.
  Hypothesis HRef : forall k, P (LRef k).
  Fixpoint layout_ind' (l : layout) : P l :=
    match l with
    | LBool => HBool
    | LUint n => HUint n
    | LArr e n => HArr e n (layout_ind' e)
    | LDyn e => HDyn e (layout_ind' e)
    | LTup ls =>
        HTup ls ((fix go (l : list layout) : Forall P l :=
                    match l with
                    | [] => Forall_nil P
                    | x :: r => Forall_cons x (layout_ind' x) (go r)
                    end) ls)
    | LTxn => HTxn
    | LRef k => HRef k
    end.
End LayoutInd.

Fixpoint layout_eqb (a b : layout) {struct a} : bool :=
  match a, b with
  | LBool, LBool | LTxn, LTxn => true
  | LUint n, LUint m => N.eqb n m
  | LArr e n, LArr e' m => layout_eqb e e' && N.eqb n m
  | LDyn e, LDyn e' => layout_eqb e e'
  | LTup l1, LTup l2 =>
      (fix go (l1 l2 : list layout) : bool :=
         match l1, l2 with
         | [], [] => true
         | x :: r1, y :: r2 => layout_eqb x y && go r1 r2
         | _, _ => false
         end) l1 l2
  | LRef k, LRef k' => ref_kind_eqb k k'
  | _, _ => false
  end.

Definition lis_bool (l : layout) : bool := match l with LBool => true | _ => false end.

Fixpoint layout_dyn (l : layout) : bool :=
  match l with
  | LDyn _ => true
  | LArr e _ => layout_dyn e
  | LTup ls => existsb layout_dyn ls
  | _ => false
  end.

Fixpoint layout_slen (l : layout) : N :=
  match l with
  | LBool => 1
  | LUint b => b / 8
  | LArr e n => if lis_bool e then bool_seq_len n else n * layout_slen e
  | LTup ls => seq_static_len (map (fun x => (lis_bool x, layout_slen x)) ls) 0
  | LRef _ => 1
  | LDyn _ | LTxn => 0
  end.

Fixpoint layout_has_type (l : layout) (v : val) {struct l} : bool :=
  match l with
  | LBool => match v with VBool _ => true | _ => false end
  | LUint bits => uint_ok bits v
  | LArr e n => static_array_ok (layout_has_type e) n v
  | LDyn e => dyn_array_ok (layout_has_type e) v
  | LTup ls => tuple_ok (map layout_has_type ls) v
  | LTxn | LRef _ => false
  end.

Fixpoint layout_encode (l : layout) (v : val) {struct l} : option bytes :=
  match l with
  | LBool => bool_enc v
  | LUint bits => uint_enc bits v
  | LArr e n => static_array_enc (lis_bool e) (layout_dyn e) (layout_encode e) n v
  | LDyn e => dyn_array_enc (lis_bool e) (layout_dyn e) (layout_encode e) v
  | LTup ls =>
      tuple_enc (map (fun x => enc_elem (lis_bool x) (layout_dyn x) (layout_encode x)) ls) v
  | LTxn | LRef _ => None
  end.
