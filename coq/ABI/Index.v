(* ABI/Index.v — model of PyTeal's ABI *decoding and element access* (property C07).

   Modelled Python (pinned tree):
     pyteal/ast/abi/tuple.py        _index_tuple                      -> [index_tuple]
     pyteal/ast/abi/array_base.py   ArrayElement.store_into           -> [array_elem_plan]
     pyteal/ast/abi/array_dynamic.py DynamicArray.length              -> [ILenDyn], [length_expr]
     pyteal/ast/abi/array_static.py  StaticArray.length               -> [length_expr]
     pyteal/ast/abi/uint.py         uint_decode                       -> [uint_decode]
     pyteal/ast/abi/bool.py         Bool.decode / decode_bit          -> [decode_plan] TBool, [PGetbit]
     pyteal/ast/abi/util.py         substring_for_decoding            -> [substring_for_decoding]
     pyteal/ast/abi/{string,address,array_*}.py  get()                -> [get_plan]
     pyteal/ast/substring.py        SubstringExpr/ExtractExpr/SuffixExpr.__get_op and the op they emit
                                                                      -> [sel_substring] [sel_extract] [sel_suffix]

   The code builds an *expression tree* over the encoded byte string; the model builds the same tree as
   a [plan] (what is stored into the output value) over index expressions [iexpr] (uint64-valued
   sub-expressions: constants, the array index, +, *, ==, ExtractUint16(encoded, .), Len(encoded), If).
   [exec_plan] evaluates a plan with the AVM opcode semantics of AVM/Ops.v ([exec_pure]) — every
   failure of [exec_plan] is a failure of an AVM opcode (range error, uint64 overflow).

   PyTeal's [byte_length_static] is modelled by the spec function [static_len] (tied to the code by the
   C19/C06 descriptor correspondences and, here, by the plan correspondence: the constants in the plans
   are compared with what the real code builds).

   Definitions only; lemmas in Proofs/ABIIndex*.v. *)
From Coq Require Import List NArith Ascii String Bool.
From PV Require Import Base.Bytes Base.U64 AVM.Syntax AVM.Ops ABI.Types ABI.Spec.
Import ListNotations.
Local Open Scope N_scope.

(* ------------------------------------------------------------------------------------------ *)
(* expression trees                                                                            *)
(* ------------------------------------------------------------------------------------------ *)
Inductive iexpr : Type :=
| IInt (n : N)                 (* Int(n) *)
| IIdx                         (* the index expression of array[index] (any uint64 expression) *)
| IAdd (a b : iexpr)           (* a + b *)
| IMul (a b : iexpr)           (* a * b *)
| IEq (a b : iexpr)            (* a == b *)
| IU16 (a : iexpr)             (* ExtractUint16(encoded, a) *)
| ILen                         (* Len(encoded) *)
| ILenDyn                      (* DynamicArray.length(): Seq(tmp.decode(encoded), tmp.get()) *)
| IIf (c a b : iexpr).         (* If(c).Then(a).Else(b) *)

(* what is stored into the output value *)
Inductive plan : Type :=
| PGetbit (bit : iexpr)        (* GetBit(encoded, bit)                      -> uint64 0/1 *)
| PBtoi                        (* Btoi(encoded)                             -> uint64 *)
| PUintAt (bits : N) (s : iexpr) (* GetByte / ExtractUint16/32/64(encoded, s) -> uint64 *)
| PWhole                       (* encoded                                   -> bytes *)
| PExtract (s l : iexpr)       (* Extract(encoded, s, l) *)
| PSubstring (s e : iexpr)     (* Substring(encoded, s, e) *)
| PSuffix (s : iexpr).         (* Suffix(encoded, s) *)

(* ------------------------------------------------------------------------------------------ *)
(* util.py substring_for_decoding: the (start, end, length) option matrix                      *)
(* [None] = TealInputError (length and end_index are mutually exclusive)                       *)
(* ------------------------------------------------------------------------------------------ *)
Definition substring_for_decoding (s e l : option iexpr) : option plan :=
  match l, e with
  | Some _, Some _ => None
  | _, _ =>
      match s with
      | Some s' =>
          match l with
          | Some l' => Some (PExtract s' l')
          | None => match e with
                    | Some e' => Some (PSubstring s' e')
                    | None => Some (PSuffix s')
                    end
          end
      | None =>
          match l with
          | Some l' => Some (PExtract (IInt 0) l')
          | None => match e with
                    | Some e' => Some (PSubstring (IInt 0) e')
                    | None => Some PWhole
                    end
          end
      end
  end.

Definition odefault (o : option iexpr) (d : iexpr) : iexpr := match o with Some x => x | None => d end.

(* uint.py uint_decode (end_index and length are ignored except for the 64-bit all-None case);
   [None] = NotImplementedError / ValueError (unsupported size) *)
Definition uint_decode (bits : N) (s e l : option iexpr) : option plan :=
  if 64 <? bits then None
  else if bits =? 64 then
    match s, e, l with
    | None, None, None => Some PBtoi
    | _, _, _ => Some (PUintAt 64 (odefault s (IInt 0)))
    end
  else if (bits =? 8) || (bits =? 16) || (bits =? 32) then Some (PUintAt bits (odefault s (IInt 0)))
  else None.

(* output.decode(encoded, start_index=s, end_index=e, length=l) for an output of type t *)
Definition decode_plan (t : ty) (s e l : option iexpr) : option plan :=
  match t with
  | TBool => Some (PGetbit (IMul (odefault s (IInt 0)) (IInt 8)))          (* bool.py Bool.decode *)
  | TByte => uint_decode 8 s e l
  | TUint bits => uint_decode bits s e l
  | TTxn _ | TRef _ => None
  | _ => substring_for_decoding s e l                                      (* Array.decode, Tuple.decode *)
  end.

(* ------------------------------------------------------------------------------------------ *)
(* tuple.py _index_tuple                                                                       *)
(* ------------------------------------------------------------------------------------------ *)
(* bool.py _consecutive_bool_type_spec_num(types, i) where [ts] = types[i:] *)
Fixpoint consecutive_bools (ts : list ty) : N :=
  match ts with
  | t :: r => if is_bool t then 1 + consecutive_bools r else 0
  | [] => 0
  end.

(* loop state: offset, ignoreNext, lastBoolStart, lastBoolLength *)
Record wstate : Type := mkW { w_off : N; w_ign : N; w_lbs : N; w_lbl : N }.

(* the first loop, `for i, typeBefore in enumerate(value_types[:index])`; [ts] = value_types[i:],
   [k] = elements still to visit *)
Fixpoint walk_before (ts : list ty) (k : nat) (w : wstate) : wstate :=
  match k, ts with
  | S k', t :: r =>
      if 0 <? w_ign w then walk_before r k' (mkW (w_off w) (w_ign w - 1) (w_lbs w) (w_lbl w))
      else if is_bool t then
        let n := consecutive_bools ts in
        walk_before r k' (mkW (w_off w + bool_seq_len n) (n - 1) (w_off w) n)
      else if is_dynamic t then walk_before r k' (mkW (w_off w + 2) (w_ign w) (w_lbs w) (w_lbl w))
      else walk_before r k' (mkW (w_off w + static_len t) (w_ign w) (w_lbs w) (w_lbl w))
  | _, _ => w
  end.

(* the second loop (value at index is dynamic): `for i, typeAfter in enumerate(value_types[index+1:])`;
   returns (hasNextDynamicValue, nextDynamicValueOffset) *)
Fixpoint walk_after (ts : list ty) (ign nxt : N) : bool * N :=
  match ts with
  | [] => (false, nxt)
  | t :: r =>
      if 0 <? ign then walk_after r (ign - 1) nxt
      else if is_bool t then
        let n := consecutive_bools ts in walk_after r (n - 1) (nxt + bool_seq_len n)
      else if is_dynamic t then (true, nxt)
      else walk_after r 0 (nxt + static_len t)
  end.

Definition all_static (ts : list ty) : bool := forallb (fun x => negb (is_dynamic x)) ts.

(* [None] = ValueError("Index outside of range") or an unsupported output type *)
Definition index_tuple (ts : list ty) (i : nat) : option plan :=
  match nth_error ts i with
  | None => None
  | Some vt =>
      let w := walk_before ts i (mkW 0 0 0 0) in
      if is_bool vt then
        (* output.decode_bit(encoded, Int(bitOffsetInEncoded)) *)
        Some (PGetbit (IInt (if 0 <? w_ign w
                             then w_lbs w * 8 + (w_lbl w - w_ign w)
                             else w_off w * 8)))
      else if is_dynamic vt then
        let hn := walk_after (skipn (S i) ts) 0 (w_off w + 2) in
        let start := IU16 (IInt (w_off w)) in
        if fst hn
        then decode_plan vt (Some start) (Some (IU16 (IInt (snd hn)))) None
        else decode_plan vt (Some start) None None
      else
        let start := IInt (w_off w) in
        let len := IInt (static_len vt) in
        if Nat.eqb (S i) (List.length ts) && (w_off w =? 0) then decode_plan vt None None None
        else if Nat.eqb (S i) (List.length ts) && all_static ts then decode_plan vt (Some start) None None
        else if w_off w =? 0 then decode_plan vt None None (Some len)
        else decode_plan vt (Some start) None (Some len)
  end.

(* ------------------------------------------------------------------------------------------ *)
(* arrays                                                                                      *)
(* ------------------------------------------------------------------------------------------ *)
(* (element type, Some N for a static array / None when the length is dynamic) *)
Definition array_info (t : ty) : option (ty * option N) :=
  match t with
  | TStaticArray e n => Some (e, Some n)
  | TDynArray e => Some (e, None)
  | TAddress => Some (TByte, Some 32)
  | TStaticBytes n => Some (TByte, Some n)
  | TString | TDynBytes => Some (TByte, None)
  | _ => None
  end.

(* array.length() *)
Definition length_expr (slen : option N) : iexpr :=
  match slen with Some n => IInt n | None => ILenDyn end.

(* ArrayTypeSpec._stride *)
Definition stride (e : ty) : N := if is_dynamic e then 2 else static_len e.

(* array_base.py ArrayElement.store_into for array type [arr] and index expression IIdx *)
Definition array_elem_plan (arr : ty) : option plan :=
  match array_info arr with
  | None => None
  | Some (e, slen) =>
      let lendyn := match slen with None => true | Some _ => false end in
      if is_bool e then
        Some (PGetbit (if is_dynamic arr then IAdd IIdx (IInt 16) else IIdx))
      else
        let byteIndex0 := IMul (IInt (stride e)) IIdx in
        let byteIndex := if lendyn then IAdd byteIndex0 (IInt 2) else byteIndex0 in
        let arrayLength := length_expr slen in
        if is_dynamic e then
          let vs0 := IU16 byteIndex in
          let nvs0 := IU16 (IAdd byteIndex (IInt 2)) in
          let vs := if lendyn then IAdd vs0 (IInt 2) else vs0 in
          let nvs := if lendyn then IAdd nvs0 (IInt 2) else nvs0 in
          let ve := IIf (IEq (IAdd IIdx (IInt 1)) arrayLength) ILen nvs in
          decode_plan e (Some vs) (Some ve) None
        else
          decode_plan e (Some byteIndex) None (Some (IInt (stride e)))
  end.

(* get() on byte-string types: String / DynamicBytes drop the uint16 prefix, Address / StaticBytes
   return the stored bytes.  (Uint.get / Bool.get load the stored uint64: nothing to model.) *)
Definition get_plan (t : ty) : option plan :=
  match t with
  | TString | TDynBytes => Some (PSuffix (IInt 2))
  | TAddress | TStaticBytes _ => Some PWhole
  | _ => None
  end.

(* ------------------------------------------------------------------------------------------ *)
(* substring.py: which opcode a Substring / Extract / Suffix with CONSTANT arguments becomes     *)
(* ------------------------------------------------------------------------------------------ *)
Inductive opsel : Type :=
| SExtractImm (s l : N)        (* extract s l        (immediates) *)
| SExtract3                    (* <start> <length> extract3 *)
| SSubstringImm (s e : N)      (* substring s e      (immediates) *)
| SSubstring3                  (* <start> <end> substring3 *)
| SDigLenSubstring3.           (* <start> dig 1; len; substring3 *)

Inductive selres : Type :=
| SelOk (o : opsel)
| SelError.                    (* TealCompileError (end < start) / version too low *)

Definition EXTRACT_MIN_VERSION : N := 5.
Definition SUBSTRING_MIN_VERSION : N := 2.

(* SubstringExpr.__get_op + the verifyProgramVersion that follows; [l] is computed as e - s *)
Definition sel_substring (ver s e : N) : selres :=
  if e <? s then SelError
  else
    let l := e - s in
    if (0 <? l) && (EXTRACT_MIN_VERSION <=? ver) then
      (if (s <? 256) && (l <? 256) then SelOk (SExtractImm s l) else SelOk SExtract3)
    else if ver <? SUBSTRING_MIN_VERSION then SelError
    else (if (s <? 256) && (e <? 256) then SelOk (SSubstringImm s e) else SelOk SSubstring3).

(* ExtractExpr.__get_op *)
Definition sel_extract (ver s l : N) : selres :=
  if ver <? EXTRACT_MIN_VERSION then SelError
  else if (s <? 256) && (0 <? l) && (l <? 256) then SelOk (SExtractImm s l) else SelOk SExtract3.

(* SuffixExpr.__get_op for a constant start *)
Definition sel_suffix (ver s : N) : selres :=
  if s <? 256
  then (if ver <? EXTRACT_MIN_VERSION then SelError else SelOk (SExtractImm s 0))
  else (if ver <? SUBSTRING_MIN_VERSION then SelError else SelOk SDigLenSubstring3).

(* ------------------------------------------------------------------------------------------ *)
(* evaluation with the AVM opcode semantics                                                    *)
(* ------------------------------------------------------------------------------------------ *)
Definition run1 (r : pres) : option value := match r with POk [v] => Some v | _ => None end.
Definition run1i (r : pres) : option N := match r with POk [VI n] => Some n | _ => None end.

Definition op2 (o : opc) (a b : N) : option N := run1i (exec_pure o [] [VI b; VI a]).
Definition push_int (n : N) : option N := run1i (exec_pure O_int [AInt n] []).
Definition u16_at (enc : bytes) (s : N) : option N := run1i (exec_pure O_extract_uint16 [] [VI s; VB enc]).
Definition len_of (enc : bytes) : option N := run1i (exec_pure O_len [] [VB enc]).

Fixpoint eval_iexpr (enc : bytes) (idx : N) (e : iexpr) : option N :=
  match e with
  | IInt n => push_int n
  | IIdx => Some idx
  | IAdd a b => obind (eval_iexpr enc idx a) (fun x => obind (eval_iexpr enc idx b) (fun y => op2 O_add x y))
  | IMul a b => obind (eval_iexpr enc idx a) (fun x => obind (eval_iexpr enc idx b) (fun y => op2 O_mul x y))
  | IEq a b => obind (eval_iexpr enc idx a) (fun x => obind (eval_iexpr enc idx b) (fun y => op2 O_eq x y))
  | IU16 a => obind (eval_iexpr enc idx a) (u16_at enc)
  | ILen => len_of enc
  | ILenDyn => obind (push_int 0) (u16_at enc)
  | IIf c a b => obind (eval_iexpr enc idx c) (fun x => if x =? 0 then eval_iexpr enc idx b else eval_iexpr enc idx a)
  end.

(* the generic three-operand forms *)
Definition do_substring3 (enc : bytes) (s e : N) : option value :=
  run1 (exec_pure O_substring3 [] [VI e; VI s; VB enc]).
Definition do_extract3 (enc : bytes) (s l : N) : option value :=
  run1 (exec_pure O_extract3 [] [VI l; VI s; VB enc]).

(* execute the opcode chosen by a selector; (a, b) are the two constant arguments
   (start,end) for Substring, (start,length) for Extract, (start,_) for Suffix *)
Definition exec_sel (enc : bytes) (o : opsel) (a b : N) (from_substring : bool) : option value :=
  match o with
  | SExtractImm s l => run1 (exec_pure O_extract [AInt s; AInt l] [VB enc])
  | SSubstringImm s e => run1 (exec_pure O_substring [AInt s; AInt e] [VB enc])
  | SExtract3 =>
      (* SubstringExpr pushes start and Int(end - start); ExtractExpr pushes start and length *)
      obind (push_int a) (fun s =>
      obind (push_int (if from_substring then b - a else b)) (fun l => do_extract3 enc s l))
  | SSubstring3 =>
      obind (push_int a) (fun s => obind (push_int b) (fun e => do_substring3 enc s e))
  | SDigLenSubstring3 =>
      obind (push_int a) (fun s => obind (len_of enc) (fun e => do_substring3 enc s e))
  end.

Definition exec_selres (enc : bytes) (r : selres) (a b : N) (from_substring : bool) : option value :=
  match r with SelOk o => exec_sel enc o a b from_substring | SelError => None end.

Definition exec_plan (ver : N) (p : plan) (enc : bytes) (idx : N) : option value :=
  let ev := eval_iexpr enc idx in
  match p with
  | PGetbit b => obind (ev b) (fun i => run1 (exec_pure O_getbit [] [VI i; VB enc]))
  | PBtoi => run1 (exec_pure O_btoi [] [VB enc])
  | PUintAt bits s =>
      obind (ev s) (fun i =>
        if bits =? 8 then run1 (exec_pure O_getbyte [] [VI i; VB enc])
        else if bits =? 16 then run1 (exec_pure O_extract_uint16 [] [VI i; VB enc])
        else if bits =? 32 then run1 (exec_pure O_extract_uint32 [] [VI i; VB enc])
        else if bits =? 64 then run1 (exec_pure O_extract_uint64 [] [VI i; VB enc])
        else None)
  | PWhole => Some (VB enc)
  | PExtract (IInt s) (IInt l) => exec_selres enc (sel_extract ver s l) s l false
  | PExtract s l => obind (ev s) (fun a => obind (ev l) (fun b => do_extract3 enc a b))
  | PSubstring (IInt s) (IInt e) => exec_selres enc (sel_substring ver s e) s e true
  | PSubstring s e => obind (ev s) (fun a => obind (ev e) (fun b => do_substring3 enc a b))
  | PSuffix (IInt s) => exec_selres enc (sel_suffix ver s) s 0 false
  | PSuffix s => obind (ev s) (fun a => obind (len_of enc) (fun e => do_substring3 enc a e))
  end.

(* ------------------------------------------------------------------------------------------ *)
(* what the output value holds after a correct decode of component v : t                        *)
(* (bool and uintN outputs are stored as uint64; everything else as its ARC-4 encoding)        *)
(* ------------------------------------------------------------------------------------------ *)
Definition stored (t : ty) (v : val) : option value :=
  match t with
  | TBool => match v with VBool b => Some (VI (b2N b)) | _ => None end
  | TByte | TUint _ => match v with VUint n => Some (VI n) | _ => None end
  | _ => option_map VB (arc4_encode t v)
  end.

(* the element types PyTeal can decode into (SUPPORTED_UINT_SIZES) *)
Definition pyteal_elem (t : ty) : bool :=
  match t with
  | TUint b => pyteal_uint_bits b
  | TTxn _ | TRef _ => false
  | _ => true
  end.
