(* ABI/Descr.v — model of the Python-level identity of PyTeal's TypeSpec objects:
   the class of a spec, the subclass table behind isinstance(), every class's __str__ and __eq__.
   (pyteal/ast/abi/{type,bool,uint,address,string,array_base,array_static,array_dynamic,tuple,
   transaction,reference_type}.py).  Definitions only; lemmas in Proofs/ABIDescrProof.v.
   The harness (c19.py) compares [subclass], [py_str], [py_eq] with Python on every run. *)
From Coq Require Import List NArith Ascii String Bool.
From PV Require Import Base.Sexp ABI.Types ABI.Spec.
Import ListNotations.
Local Open Scope string_scope.

(* ---- classes ---- *)
Inductive pyclass : Type :=
| C_TypeSpec
| C_Bool
| C_Uint                       (* UintTypeSpec (abstract) *)
| C_Byte                       (* ByteTypeSpec *)
| C_UintN (bits : N)           (* Uint8TypeSpec, Uint16TypeSpec, Uint32TypeSpec, Uint64TypeSpec *)
| C_Array                      (* ArrayTypeSpec (abstract) *)
| C_StaticArray | C_StaticBytes | C_Address
| C_DynamicArray | C_DynamicBytes | C_String
| C_Tuple | C_NamedTuple
| C_Txn (k : txn_kind)         (* C_Txn TxAny = TransactionTypeSpec; the six others subclass it *)
| C_Reference                  (* ReferenceTypeSpec (abstract) *)
| C_Ref (k : ref_kind).

Definition pyclass_eqb (a b : pyclass) : bool :=
  match a, b with
  | C_TypeSpec, C_TypeSpec | C_Bool, C_Bool | C_Uint, C_Uint | C_Byte, C_Byte
  | C_Array, C_Array | C_StaticArray, C_StaticArray | C_StaticBytes, C_StaticBytes
  | C_Address, C_Address | C_DynamicArray, C_DynamicArray | C_DynamicBytes, C_DynamicBytes
  | C_String, C_String | C_Tuple, C_Tuple | C_NamedTuple, C_NamedTuple
  | C_Reference, C_Reference => true
  | C_UintN n, C_UintN m => N.eqb n m
  | C_Txn k, C_Txn k' => txn_kind_eqb k k'
  | C_Ref k, C_Ref k' => ref_kind_eqb k k'
  | _, _ => false
  end.

(* the direct base class (every class has exactly one base below TypeSpec; `class X(Base)`) *)
Definition parent (c : pyclass) : option pyclass :=
  match c with
  | C_TypeSpec => None
  | C_Bool | C_Uint | C_Array | C_Tuple | C_Reference => Some C_TypeSpec
  | C_Byte | C_UintN _ => Some C_Uint
  | C_StaticArray | C_DynamicArray => Some C_Array
  | C_StaticBytes | C_Address => Some C_StaticArray
  | C_DynamicBytes | C_String => Some C_DynamicArray
  | C_NamedTuple => Some C_Tuple
  | C_Txn TxAny => Some C_TypeSpec
  | C_Txn _ => Some (C_Txn TxAny)
  | C_Ref _ => Some C_Reference
  end.

(* issubclass(c, d): c is d or a descendant of d (the hierarchy is at most 4 deep) *)
Fixpoint subclass_fuel (fuel : nat) (c d : pyclass) : bool :=
  pyclass_eqb c d ||
  match fuel with
  | O => false
  | S f => match parent c with Some p => subclass_fuel f p d | None => false end
  end.
Definition subclass (c d : pyclass) : bool := subclass_fuel 4 c d.
Definition strict_subclass (c d : pyclass) : bool := subclass c d && negb (pyclass_eqb c d).

(* type(spec) *)
Definition cls_of (t : ty) : pyclass :=
  match t with
  | TBool => C_Bool
  | TByte => C_Byte
  | TUint n => C_UintN n
  | TAddress => C_Address
  | TString => C_String
  | TStaticArray _ _ => C_StaticArray
  | TDynArray _ => C_DynamicArray
  | TTuple None _ => C_Tuple
  | TTuple (Some _) _ => C_NamedTuple
  | TStaticBytes _ => C_StaticBytes
  | TDynBytes => C_DynamicBytes
  | TTxn k => C_Txn k
  | TRef k => C_Ref k
  end.

(* isinstance(spec, C) *)
Definition isinst (t : ty) (c : pyclass) : bool := subclass (cls_of t) c.

(* ---- __str__ ---- *)
(* BoolTypeSpec "bool"; UintTypeSpec "uint{bit_size}", ByteTypeSpec "byte"; AddressTypeSpec "address";
   StringTypeSpec "string"; StaticArrayTypeSpec f"{value_type_spec}[{length}]" (inherited by
   StaticBytesTypeSpec, whose value spec is ByteTypeSpec); DynamicArrayTypeSpec f"{value_type_spec}[]";
   DynamicBytesTypeSpec "byte[]"; TupleTypeSpec "(" + ",".join(...) + ")" (inherited by
   NamedTupleTypeSpec); transaction specs TransactionType.<X>.value; reference specs their name. *)
Fixpoint py_str (t : ty) : string :=
  match t with
  | TBool => "bool"
  | TByte => "byte"
  | TUint n => "uint" ++ N_to_dec n
  | TAddress => "address"
  | TString => "string"
  | TStaticArray e n => py_str e ++ "[" ++ N_to_dec n ++ "]"
  | TDynArray e => py_str e ++ "[]"
  | TTuple _ ts => "(" ++ concat_sep "," (map py_str ts) ++ ")"
  | TStaticBytes n => "byte" ++ "[" ++ N_to_dec n ++ "]"
  | TDynBytes => "byte[]"
  | TTxn k => txn_kind_str k
  | TRef k => ref_kind_str k
  end.

(* ---- attributes read by type_spec_is_assignable_to ---- *)
(* UintTypeSpec.size *)
Definition uint_size (t : ty) : N := match t with TByte => 8%N | TUint n => n | _ => 0%N end.

(* StaticArrayTypeSpec.length_static() / TupleTypeSpec.length_static() *)
Definition length_static (t : ty) : N :=
  match t with
  | TStaticArray _ n | TStaticBytes n => n
  | TAddress => 32%N
  | TTuple _ ts => N.of_nat (List.length ts)
  | _ => 0%N
  end.

(* ArrayTypeSpec.value_type_spec() *)
Definition value_spec (t : ty) : option ty :=
  match t with
  | TStaticArray e _ | TDynArray e => Some e
  | TAddress | TString | TStaticBytes _ | TDynBytes => Some TByte
  | _ => None
  end.

(* ---- __eq__ ----
   [py_eq a b] models the Python expression  a == b  on two TypeSpec objects, i.e.
     type(b).__eq__(b, a)   if type(b) is a proper subclass of type(a)   (reflected operand first;
                            every __eq__ here returns a bool, never NotImplemented),
     type(a).__eq__(a, b)   otherwise;
   list operands compare by length and then element-wise with ==.
   The methods:
     BoolTypeSpec           isinstance(other, BoolTypeSpec)
     UintTypeSpec           type(self) is type(other) and bit sizes equal   (Byte != Uint8)
     StaticArrayTypeSpec    isinstance(other, StaticArrayTypeSpec) and value specs == and lengths ==
                            (inherited by StaticBytesTypeSpec)
     AddressTypeSpec        isinstance(other, AddressTypeSpec)
     DynamicArrayTypeSpec   isinstance(other, DynamicArrayTypeSpec) and value specs ==
     DynamicBytesTypeSpec   isinstance(other, DynamicBytesTypeSpec);   StringTypeSpec likewise
     TupleTypeSpec          isinstance(other, TupleTypeSpec) and value spec lists ==
     NamedTupleTypeSpec     isinstance(other, NamedTupleTypeSpec) and instance_class == and lists ==
     TransactionTypeSpec    type(self) is type(other)          (inherited by the six subclasses)
     Account/Asset/ApplicationTypeSpec   isinstance(other, <same class>)
   The only place where the reflected rule reaches a recursive comparison is
   StaticArrayTypeSpec(e, n) == StaticBytesTypeSpec(m), which evaluates  ByteTypeSpec() == e ;
   that is [py_eq_flat TByte e] below (a leaf comparison), so the fixpoint stays structural in [a]. *)

(* a == b when a is not an array or tuple *)
Definition py_eq_flat (a b : ty) : bool :=
  match a, b with
  | TBool, TBool => true
  | TByte, TByte => true
  | TUint n, TUint m => N.eqb n m
  | TTxn k, TTxn k' => txn_kind_eqb k k'
  | TRef k, TRef k' => ref_kind_eqb k k'
  | _, _ => false
  end.

Fixpoint py_eq (a b : ty) {struct a} : bool :=
  match a with
  | TStaticArray ea n =>
      match b with
      | TStaticArray eb m => py_eq ea eb && N.eqb n m
      | TStaticBytes m => py_eq_flat TByte ea && N.eqb m n      (* reflected: b.__eq__(a) *)
      | _ => false                                             (* incl. b = address: reflected, False *)
      end
  | TStaticBytes n =>
      match b with
      | TStaticArray eb m => py_eq_flat TByte eb && N.eqb n m
      | TStaticBytes m => N.eqb n m
      | TAddress => N.eqb n 32
      | _ => false
      end
  | TAddress => match b with TAddress => true | _ => false end
  | TDynArray ea =>
      match b with
      | TDynArray eb => py_eq ea eb
      | _ => false                                             (* string / DynamicBytes: reflected, False *)
      end
  | TDynBytes => match b with TDynBytes => true | _ => false end
  | TString => match b with TString => true | _ => false end
  | TTuple na tas =>
      match b with
      | TTuple nb tbs =>
          match na, nb with
          | None, None => true
          | Some (ca, _), Some (cb, _) => N.eqb ca cb
          | _, _ => false
          end &&
          (fix go (l1 l2 : list ty) : bool :=
             match l1, l2 with
             | [], [] => true
             | x :: r1, y :: r2 => py_eq x y && go r1 r2
             | _, _ => false
             end) tas tbs
      | _ => false
      end
  | _ => py_eq_flat a b
  end.
