(* ABI/Spec.v — the ARC-4 specification, written from the ARC-4 text (not from PyTeal):
   type strings, dynamic-ness, static byte length (bool-packing aware), values, well-typedness and
   the encoding function.  Validated on every C19 run against the reference codec algosdk.abi
   (harness/c19.py, "spec validation"); a disagreement there is a defect of THIS FILE.

   Reading of the ARC-4 text used here
   * uint<N>  : N-bit unsigned, big-endian, N/8 bytes (8 <= N <= 512, N mod 8 = 0).
   * byte     : alias of uint8.        bool : one byte, most significant bit = the value (0x80 / 0x00).
   * address  : equivalent to byte[32].  string : equivalent to byte[] (content: UTF-8 bytes).
   * (T1,...,Tk): enc = head(x1)..head(xk) tail(x1)..tail(xk);
       Ti static, not bool : head = enc(xi), tail empty;
       Ti bool             : up to 8 CONSECUTIVE bools share one head byte, first bool = MSB;
       Ti dynamic          : head = uint16 offset of tail(xi) from the start of the tuple encoding,
                             tail = enc(xi).
   * T[N] : encoded as the N-tuple (T,...,T).       T[] : uint16 element count, then as the tuple.
   * A type is dynamic iff it is T[], string, T[N] with T dynamic, or a tuple with a dynamic member.
   * Transaction types (txn pay keyreg acfg axfer afrz appl) and reference types (account asset
     application) are method-signature types, not ABI value types: they have a type string only.
     (A reference argument travels as a uint8 index; it has no encoding as a component of a value.)

   PyTeal-specific constructors of [ty] are read as the ARC-4 type they denote: a named tuple is a
   tuple, StaticBytes n is byte[n], DynamicBytes is byte[].

   Value language: [VBytes bs] is an abbreviation of [VList (map VUint bs)] (a list of bytes); every
   array type accepts both spellings, so a value means the same at byte[32] and address, byte[] and
   string.  Definitions only; lemmas in Proofs/ABISpecProof.v. *)
From Coq Require Import List NArith Ascii String Bool.
From PV Require Import Base.Bytes Base.Sexp ABI.Types.
Import ListNotations.
Local Open Scope N_scope.

Definition obind {A B} (o : option A) (f : A -> option B) : option B :=
  match o with Some a => f a | None => None end.

(* ------------------------------------------------------------------------------------------ *)
(* type strings                                                                                *)
(* ------------------------------------------------------------------------------------------ *)
Definition txn_kind_str (k : txn_kind) : string :=
  match k with
  | TxAny => "txn" | TxPay => "pay" | TxKeyreg => "keyreg" | TxAcfg => "acfg"
  | TxAxfer => "axfer" | TxAfrz => "afrz" | TxAppl => "appl"
  end.

Definition ref_kind_str (k : ref_kind) : string :=
  match k with RAccount => "account" | RAsset => "asset" | RApplication => "application" end.

Fixpoint type_str (t : ty) : string :=
  match t with
  | TBool => "bool"
  | TByte => "byte"
  | TUint n => "uint" ++ N_to_dec n
  | TAddress => "address"
  | TString => "string"
  | TStaticArray e n => type_str e ++ "[" ++ N_to_dec n ++ "]"
  | TDynArray e => type_str e ++ "[]"
  | TTuple _ ts => "(" ++ concat_sep "," (map type_str ts) ++ ")"
  | TStaticBytes n => "byte[" ++ N_to_dec n ++ "]"
  | TDynBytes => "byte[]"
  | TTxn k => txn_kind_str k
  | TRef k => ref_kind_str k
  end%string.

(* ------------------------------------------------------------------------------------------ *)
(* dynamic-ness and static length                                                              *)
(* ------------------------------------------------------------------------------------------ *)
Definition is_bool (t : ty) : bool := match t with TBool => true | _ => false end.

Fixpoint is_dynamic (t : ty) : bool :=
  match t with
  | TString | TDynArray _ | TDynBytes => true
  | TStaticArray e _ => is_dynamic e
  | TTuple _ ts => existsb is_dynamic ts
  | _ => false
  end.

(* bytes taken by n consecutive bools *)
Definition bool_seq_len (n : N) : N := (n + 7) / 8.

(* static length of a member sequence given (is it bool?, its own static length) per member:
   a maximal run of consecutive bools takes ceil(run/8) bytes *)
Fixpoint seq_static_len (l : list (bool * N)) (run : N) : N :=
  match l with
  | [] => bool_seq_len run
  | (true, _) :: r => seq_static_len r (run + 1)
  | (false, n) :: r => bool_seq_len run + n + seq_static_len r 0
  end.

(* byte length of the encoding of a STATIC type (meaningful only when [is_dynamic t = false];
   a dynamic member counts 0).  Reference types travel as one uint8; transaction types have none. *)
Fixpoint static_len (t : ty) : N :=
  match t with
  | TBool => 1
  | TByte => 1
  | TUint b => b / 8
  | TAddress => 32
  | TStaticArray e n => if is_bool e then bool_seq_len n else n * static_len e
  | TTuple _ ts => seq_static_len (map (fun x => (is_bool x, static_len x)) ts) 0
  | TStaticBytes n => n
  | TRef _ => 1
  | TString | TDynArray _ | TDynBytes | TTxn _ => 0
  end.

Definition static_len_opt (t : ty) : option N :=
  if is_dynamic t then None else match t with TTxn _ => None | _ => Some (static_len t) end.

(* ------------------------------------------------------------------------------------------ *)
(* values                                                                                      *)
(* ------------------------------------------------------------------------------------------ *)
Inductive val : Type :=
| VBool (b : bool)
| VUint (n : N)
| VBytes (bs : bytes)          (* abbreviation of VList (map VUint bs) *)
| VList (vs : list val).

Definition byte_val (c : ascii) : val := VUint (b2n c).

(* the element list of an array value, in either spelling *)
Definition elems_of (v : val) : option (list val) :=
  match v with
  | VList vs => Some vs
  | VBytes bs => Some (map byte_val bs)
  | _ => None
  end.

(* nested induction principle for values *)
Section ValInd.
  Variable P : val -> Prop.
  Hypothesis HB : forall b, P (VBool b).
  Hypothesis HU : forall n, P (VUint n).
  Hypothesis HR : forall bs, P (VBytes bs).
  Hypothesis HL : forall vs, Forall P vs -> P (VList vs).
  Fixpoint val_ind' (v : val) : P v :=
    match v with
    | VBool b => HB b
    | VUint n => HU n
    | VBytes bs => HR bs
    | VList vs =>
        HL vs ((fix go (l : list val) : Forall P l :=
                  match l with
                  | [] => Forall_nil P
                  | x :: r => Forall_cons x (val_ind' x) (go r)
                  end) vs)
    end.
End ValInd.

(* ---- well-typedness ---- *)
Definition uint_ok (bits : N) (v : val) : bool :=
  match v with
  | VUint n => valid_uint_bits bits && (n <? 2 ^ bits)
  | _ => false
  end.

Fixpoint forall2b {A B} (f : A -> B -> bool) (l1 : list A) (l2 : list B) : bool :=
  match l1, l2 with
  | [], [] => true
  | x :: r1, y :: r2 => f x y && forall2b f r1 r2
  | _, _ => false
  end.

Definition static_array_ok (ok : val -> bool) (n : N) (v : val) : bool :=
  match elems_of v with
  | Some vs => (N.of_nat (List.length vs) =? n) && forallb ok vs
  | None => false
  end.

(* a dynamic array carries its element count in a uint16 *)
Definition dyn_array_ok (ok : val -> bool) (v : val) : bool :=
  match elems_of v with
  | Some vs => (N.of_nat (List.length vs) <? 65536) && forallb ok vs
  | None => false
  end.

Definition tuple_ok (oks : list (val -> bool)) (v : val) : bool :=
  match v with
  | VList vs => forall2b (fun ok x => ok x) oks vs
  | _ => false
  end.

Fixpoint val_has_type (t : ty) (v : val) {struct t} : bool :=
  match t with
  | TBool => match v with VBool _ => true | _ => false end
  | TByte => uint_ok 8 v
  | TUint bits => uint_ok bits v
  | TAddress => static_array_ok (uint_ok 8) 32 v
  | TString => dyn_array_ok (uint_ok 8) v
  | TStaticArray e n => static_array_ok (val_has_type e) n v
  | TDynArray e => dyn_array_ok (val_has_type e) v
  | TTuple _ ts => tuple_ok (map val_has_type ts) v
  | TStaticBytes n => static_array_ok (uint_ok 8) n v
  | TDynBytes => dyn_array_ok (uint_ok 8) v
  | TTxn _ | TRef _ => false
  end.

(* ------------------------------------------------------------------------------------------ *)
(* encoding                                                                                    *)
(* ------------------------------------------------------------------------------------------ *)
Definition u16 (n : N) : option bytes := if n <? 65536 then Some (be_encode 2 n) else None.

Definition uint_enc (bits : N) (v : val) : option bytes :=
  match v with
  | VUint n => if valid_uint_bits bits && (n <? 2 ^ bits)
               then Some (be_encode (N.to_nat (bits / 8)) n) else None
  | _ => None
  end.

Definition bool_enc (v : val) : option bytes :=
  match v with VBool b => Some [n2b (if b then 128 else 0)] | _ => None end.

(* what a tuple member contributes: a bool (to be packed), a static encoding, or a dynamic one *)
Inductive eenc : Type := EB (b : bool) | ES (bs : bytes) | ED (bs : bytes).

(* pack bools, first bool = most significant bit; the last byte is zero-padded on the right.
   [acc] holds [cnt] (< 8) bits already read for the current byte. *)
Fixpoint pack_bits (bs : list bool) (acc : N) (cnt : nat) : bytes :=
  match bs with
  | [] => if Nat.eqb cnt 0 then [] else [n2b (N.shiftl acc (N.of_nat (8 - cnt)))]
  | b :: r =>
      let acc' := 2 * acc + (if b then 1 else 0) in
      if Nat.eqb cnt 7 then n2b acc' :: pack_bits r 0 0 else pack_bits r acc' (S cnt)
  end.
Definition pack_bools (bs : list bool) : bytes := pack_bits bs 0 0%nat.

(* total length of the head section; [run] = bools pending in the current run *)
Fixpoint head_len (es : list eenc) (run : N) : N :=
  match es with
  | [] => bool_seq_len run
  | EB _ :: r => head_len r (run + 1)
  | ES bs :: r => bool_seq_len run + blen bs + head_len r 0
  | ED _ :: r => bool_seq_len run + 2 + head_len r 0
  end.

(* heads and tails; [pend] = pending bools of the current run (most recent first), [off] = offset
   of the next tail from the start of the encoding.  Fails iff an offset does not fit a uint16.
   ([rev'] is the linear-time list reversal of the standard library, [rev' l = rev l].) *)
Fixpoint asm (es : list eenc) (pend : list bool) (off : N) : option (bytes * bytes) :=
  match es with
  | [] => Some (pack_bools (rev' pend), [])
  | EB b :: r => asm r (b :: pend) off
  | ES bs :: r =>
      obind (asm r [] off) (fun ht => Some (pack_bools (rev' pend) ++ bs ++ fst ht, snd ht))
  | ED bs :: r =>
      obind (u16 off) (fun o =>
      obind (asm r [] (off + blen bs)) (fun ht =>
        Some (pack_bools (rev' pend) ++ o ++ fst ht, bs ++ snd ht)))
  end.

Definition assemble (es : list eenc) : option bytes :=
  obind (asm es [] (head_len es 0)) (fun ht => Some (fst ht ++ snd ht)).

(* one member: [eb] = the member type is bool, [ed] = it is dynamic, [enc] = its encoder *)
Definition enc_elem (eb ed : bool) (enc : val -> option bytes) (v : val) : option eenc :=
  if eb then match v with VBool b => Some (EB b) | _ => None end
  else option_map (if ed then ED else ES) (enc v).

Fixpoint enc_all (f : val -> option eenc) (vs : list val) : option (list eenc) :=
  match vs with
  | [] => Some []
  | v :: r => obind (f v) (fun e => option_map (cons e) (enc_all f r))
  end.

(* member-wise, the lists must have the same length *)
Fixpoint enc_seq (fs : list (val -> option eenc)) (vs : list val) : option (list eenc) :=
  match fs, vs with
  | [], [] => Some []
  | f :: fr, v :: vr => obind (f v) (fun e => option_map (cons e) (enc_seq fr vr))
  | _, _ => None
  end.

(* T[N] : exactly N elements, encoded as the tuple (T,...,T) *)
Definition static_array_enc (eb ed : bool) (enc : val -> option bytes) (n : N) (v : val) : option bytes :=
  obind (elems_of v) (fun vs =>
    if N.of_nat (List.length vs) =? n then obind (enc_all (enc_elem eb ed enc) vs) assemble else None).

(* T[] : uint16 count, then the elements as a tuple *)
Definition dyn_array_enc (eb ed : bool) (enc : val -> option bytes) (v : val) : option bytes :=
  obind (elems_of v) (fun vs =>
  obind (u16 (N.of_nat (List.length vs))) (fun p =>
  obind (obind (enc_all (enc_elem eb ed enc) vs) assemble) (fun body => Some (p ++ body)))).

Definition tuple_enc (fs : list (val -> option eenc)) (v : val) : option bytes :=
  match v with
  | VList vs => obind (enc_seq fs vs) assemble
  | _ => None
  end.

Fixpoint arc4_encode (t : ty) (v : val) {struct t} : option bytes :=
  match t with
  | TBool => bool_enc v
  | TByte => uint_enc 8 v
  | TUint bits => uint_enc bits v
  | TAddress => static_array_enc false false (uint_enc 8) 32 v
  | TString => dyn_array_enc false false (uint_enc 8) v
  | TStaticArray e n => static_array_enc (is_bool e) (is_dynamic e) (arc4_encode e) n v
  | TDynArray e => dyn_array_enc (is_bool e) (is_dynamic e) (arc4_encode e) v
  | TTuple _ ts =>
      tuple_enc (map (fun x => enc_elem (is_bool x) (is_dynamic x) (arc4_encode x)) ts) v
  | TStaticBytes n => static_array_enc false false (uint_enc 8) n v
  | TDynBytes => dyn_array_enc false false (uint_enc 8) v
  | TTxn _ | TRef _ => None
  end.

(* ------------------------------------------------------------------------------------------ *)
(* decoding                                                                                    *)
(* ------------------------------------------------------------------------------------------ *)
(* [arc4_decode t bs] = Some v  only if  bs is exactly the encoding of v  (it re-encodes the
   candidate and compares; Proofs/ABISpecProof.v [decode_sound]).  The candidate comes from the
   structural reader [dec_struct] below: heads are walked left to right (bools share bytes, a static
   member takes [static_len] bytes, a dynamic member a uint16 offset); a dynamic member's bytes run
   from its offset to the next dynamic member's offset (or to the end).
   Result spelling: address / string / StaticBytes / DynamicBytes give [VBytes]; other arrays and
   tuples [VList].  That encoding followed by decoding returns the value is validated against
   algosdk and by round trips on every C19 run (not proved). *)
Definition slice (bs : bytes) (p n : N) : option bytes := bsub bs p (p + n).
Definition rd_u16 (bs : bytes) (p : N) : option N := option_map be_decode (slice bs p 2).

Definition get_bit (bs : bytes) (p i : N) : option bool :=
  match slice bs p 1 with
  | Some [c] => Some (N.testbit (b2n c) (7 - i))
  | _ => None
  end.

Inductive hslot : Type := HBit (pos idx : N) | HStat (pos len : N) | HDynOff (off : N).

(* member descriptor: is bool, is dynamic, static length *)
Fixpoint heads (ms : list (bool * bool * N)) (bs : bytes) (pos bitidx : N) : option (list hslot) :=
  match ms with
  | [] => Some []
  | (true, _, _) :: r =>
      option_map (cons (HBit pos bitidx))
                 (if bitidx =? 7 then heads r bs (pos + 1) 0 else heads r bs pos (bitidx + 1))
  | (false, false, len) :: r =>
      let p := if bitidx =? 0 then pos else pos + 1 in
      option_map (cons (HStat p len)) (heads r bs (p + len) 0)
  | (false, true, _) :: r =>
      let p := if bitidx =? 0 then pos else pos + 1 in
      obind (rd_u16 bs p) (fun o => option_map (cons (HDynOff o)) (heads r bs (p + 2) 0))
  end.

Fixpoint next_dyn (slots : list hslot) (dflt : N) : N :=
  match slots with
  | [] => dflt
  | HDynOff o :: _ => o
  | _ :: r => next_dyn r dflt
  end.

Fixpoint dec_slots (slots : list hslot) (decs : list (bytes -> option val)) (bs : bytes) : option (list val) :=
  match slots, decs with
  | [], [] => Some []
  | HBit p i :: sr, _ :: dr =>
      obind (get_bit bs p i) (fun b => option_map (cons (VBool b)) (dec_slots sr dr bs))
  | HStat p l :: sr, d :: dr =>
      obind (slice bs p l) (fun seg => obind (d seg) (fun v => option_map (cons v) (dec_slots sr dr bs)))
  | HDynOff o :: sr, d :: dr =>
      obind (bsub bs o (next_dyn sr (blen bs))) (fun seg =>
      obind (d seg) (fun v => option_map (cons v) (dec_slots sr dr bs)))
  | _, _ => None
  end.

Definition decode_seq (ms : list (bool * bool * N * (bytes -> option val))) (bs : bytes) : option (list val) :=
  obind (heads (map fst ms) bs 0 0) (fun slots => dec_slots slots (map snd ms) bs).

Definition uint_dec (bits : N) (bs : bytes) : option val :=
  if valid_uint_bits bits && (blen bs =? bits / 8) then Some (VUint (be_decode bs)) else None.

Definition bool_dec (bs : bytes) : option val :=
  match bs with
  | [c] => if b2n c =? 128 then Some (VBool true) else if b2n c =? 0 then Some (VBool false) else None
  | _ => None
  end.

Definition dyn_bytes_dec (bs : bytes) : option val :=
  obind (rd_u16 bs 0) (fun n => option_map VBytes (slice bs 2 n)).

Fixpoint dec_struct (t : ty) (bs : bytes) {struct t} : option val :=
  match t with
  | TBool => bool_dec bs
  | TByte => uint_dec 8 bs
  | TUint bits => uint_dec bits bs
  | TAddress => option_map VBytes (slice bs 0 32)
  | TStaticBytes n => option_map VBytes (slice bs 0 n)
  | TString | TDynBytes => dyn_bytes_dec bs
  | TStaticArray e n =>
      option_map VList
        (decode_seq (repeat (is_bool e, is_dynamic e, static_len e, dec_struct e) (N.to_nat n)) bs)
  | TDynArray e =>
      obind (rd_u16 bs 0) (fun n =>
      obind (bsub bs 2 (blen bs)) (fun rest =>
        option_map VList
          (decode_seq (repeat (is_bool e, is_dynamic e, static_len e, dec_struct e) (N.to_nat n)) rest)))
  | TTuple _ ts =>
      option_map VList
        (decode_seq (map (fun x => (is_bool x, is_dynamic x, static_len x, dec_struct x)) ts) bs)
  | TTxn _ | TRef _ => None
  end.

Definition arc4_decode (t : ty) (bs : bytes) : option val :=
  obind (dec_struct t bs) (fun v =>
    match arc4_encode t v with
    | Some bs' => if bytes_eqb bs' bs then Some v else None
    | None => None
    end).
