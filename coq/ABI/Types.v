(* ABI/Types.v — the ABI type language shared by C06, C07, C09, C14, C19.

   One inductive [ty] covers (a) the ARC-4 types PyTeal supports — bool, byte, uintN, address, string,
   static arrays T[N], dynamic arrays T[], tuples — and (b) the PyTeal-specific TypeSpec classes that
   denote the same ARC-4 types under another class identity (NamedTuple, StaticBytes, DynamicBytes)
   or that are not encodable values at all (transaction and reference type specs).

   One constructor = one concrete pyteal.abi.*TypeSpec class (see ABI/Descr.v, [cls_of]):
     TBool            BoolTypeSpec()
     TByte            ByteTypeSpec()
     TUint n          Uint8/16/32/64TypeSpec()      (PyTeal has n in {8,16,32,64} only; ARC-4 allows
                                                     every multiple of 8 up to 512 — n is kept general)
     TAddress         AddressTypeSpec()             (subclass of StaticArrayTypeSpec, byte x 32)
     TString          StringTypeSpec()              (subclass of DynamicArrayTypeSpec, byte)
     TStaticArray e n StaticArrayTypeSpec(e, n)
     TDynArray e      DynamicArrayTypeSpec(e)
     TTuple None ts   TupleTypeSpec( *ts )
     TTuple (Some (c, names)) ts
                      NamedTupleTypeSpec(C, *ts) where C is the NamedTuple subclass number c whose
                      declared field names are [names] (names are data of the class; the relation and
                      the encoding never look at them)
     TStaticBytes n   StaticBytesTypeSpec(n)        (subclass of StaticArrayTypeSpec, byte x n)
     TDynBytes        DynamicBytesTypeSpec()        (subclass of DynamicArrayTypeSpec, byte)
     TTxn k           TransactionTypeSpec() and its six subclasses
     TRef k           Account/Asset/ApplicationTypeSpec()

   Lengths and bit sizes are [N]. This file contains definitions only (plus the nested induction
   principle, which is a plain structural fixpoint); lemmas are in Proofs/ABITypesProof.v. *)
From Coq Require Import List NArith String Bool.
Import ListNotations.

Inductive txn_kind : Type := TxAny | TxPay | TxKeyreg | TxAcfg | TxAxfer | TxAfrz | TxAppl.
Inductive ref_kind : Type := RAccount | RAsset | RApplication.

(* NamedTuple class identity: class number and the declared field names *)
Definition nt_info : Type := (N * list string)%type.

Inductive ty : Type :=
| TBool
| TByte
| TUint (bits : N)
| TAddress
| TString
| TStaticArray (elem : ty) (len : N)
| TDynArray (elem : ty)
| TTuple (nm : option nt_info) (elems : list ty)
| TStaticBytes (len : N)
| TDynBytes
| TTxn (k : txn_kind)
| TRef (k : ref_kind).

Notation TTup ts := (TTuple None ts).
Definition TNamed (c : N) (names : list string) (ts : list ty) : ty := TTuple (Some (c, names)) ts.

(* ---- nested induction principle: the tuple case gets the hypothesis for every element ---- *)
Section TyInd.
  Variable P : ty -> Prop.
  Hypothesis HBool : P TBool.
  Hypothesis HByte : P TByte.
  Hypothesis HUint : forall n, P (TUint n).
  Hypothesis HAddress : P TAddress.
  Hypothesis HString : P TString.
  Hypothesis HStatic : forall e n, P e -> P (TStaticArray e n).
  Hypothesis HDyn : forall e, P e -> P (TDynArray e).
  Hypothesis HTuple : forall nm ts, Forall P ts -> P (TTuple nm ts).
  Hypothesis HSBytes : forall n, P (TStaticBytes n).
  Hypothesis HDBytes : P TDynBytes.
  Hypothesis HTxn : forall k, P (TTxn k).
  Hypothesis HRef : forall k, P (TRef k).

  Fixpoint ty_ind' (t : ty) : P t :=
    match t with
    | TBool => HBool
    | TByte => HByte
    | TUint n => HUint n
    | TAddress => HAddress
    | TString => HString
    | TStaticArray e n => HStatic e n (ty_ind' e)
    | TDynArray e => HDyn e (ty_ind' e)
    | TTuple nm ts =>
        HTuple nm ts
          ((fix go (l : list ty) : Forall P l :=
              match l with
              | [] => Forall_nil P
              | x :: r => Forall_cons x (ty_ind' x) (go r)
              end) ts)
    | TStaticBytes n => HSBytes n
    | TDynBytes => HDBytes
    | TTxn k => HTxn k
    | TRef k => HRef k
    end.
End TyInd.

(* ---- boolean equality (structural; Proofs/ABITypesProof.v: ty_eqb_eq, ty_eq_dec) ---- *)
Definition txn_kind_eqb (a b : txn_kind) : bool :=
  match a, b with
  | TxAny, TxAny | TxPay, TxPay | TxKeyreg, TxKeyreg | TxAcfg, TxAcfg
  | TxAxfer, TxAxfer | TxAfrz, TxAfrz | TxAppl, TxAppl => true
  | _, _ => false
  end.

Definition ref_kind_eqb (a b : ref_kind) : bool :=
  match a, b with
  | RAccount, RAccount | RAsset, RAsset | RApplication, RApplication => true
  | _, _ => false
  end.

Fixpoint list_eqb {A} (f : A -> A -> bool) (l1 l2 : list A) : bool :=
  match l1, l2 with
  | [], [] => true
  | x :: r1, y :: r2 => f x y && list_eqb f r1 r2
  | _, _ => false
  end.

Definition nt_info_eqb (a b : nt_info) : bool :=
  N.eqb (fst a) (fst b) && list_eqb String.eqb (snd a) (snd b).

Definition option_eqb {A} (f : A -> A -> bool) (a b : option A) : bool :=
  match a, b with
  | None, None => true
  | Some x, Some y => f x y
  | _, _ => false
  end.

Fixpoint ty_eqb (a b : ty) {struct a} : bool :=
  match a, b with
  | TBool, TBool | TByte, TByte | TAddress, TAddress | TString, TString | TDynBytes, TDynBytes => true
  | TUint n, TUint m => N.eqb n m
  | TStaticArray e n, TStaticArray e' m => ty_eqb e e' && N.eqb n m
  | TDynArray e, TDynArray e' => ty_eqb e e'
  | TTuple na ts, TTuple nb ts' =>
      option_eqb nt_info_eqb na nb &&
      (fix go (l1 l2 : list ty) : bool :=
         match l1, l2 with
         | [], [] => true
         | x :: r1, y :: r2 => ty_eqb x y && go r1 r2
         | _, _ => false
         end) ts ts'
  | TStaticBytes n, TStaticBytes m => N.eqb n m
  | TTxn k, TTxn k' => txn_kind_eqb k k'
  | TRef k, TRef k' => ref_kind_eqb k k'
  | _, _ => false
  end.

(* ---- well-formedness ---- *)
(* ARC-4: uint<N> with 8 <= N <= 512 and N mod 8 = 0 *)
Definition valid_uint_bits (bits : N) : bool :=
  (N.leb 8 bits && N.leb bits 512 && N.eqb (N.modulo bits 8) 0)%bool.

(* the subset PyTeal can construct (SUPPORTED_UINT_SIZES) *)
Definition pyteal_uint_bits (bits : N) : bool :=
  (N.eqb bits 8 || N.eqb bits 16 || N.eqb bits 32 || N.eqb bits 64)%bool.

(* ARC-4 type proper: no transaction / reference spec anywhere inside, valid uint widths *)
Fixpoint encodable (t : ty) : bool :=
  match t with
  | TUint n => valid_uint_bits n
  | TStaticArray e _ | TDynArray e => encodable e
  | TTuple _ ts => forallb encodable ts
  | TTxn _ | TRef _ => false
  | _ => true
  end.

(* nesting depth and node count, used by generators / bounds in statements *)
Fixpoint ty_depth (t : ty) : nat :=
  match t with
  | TStaticArray e _ | TDynArray e => S (ty_depth e)
  | TTuple _ ts => S (fold_right (fun x m => Nat.max (ty_depth x) m) O ts)
  | _ => O
  end.
