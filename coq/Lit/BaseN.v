(* Lit/BaseN.v — models of PyTeal's literal validators and of the spelling each literal
   constructor emits.

   pyteal/types.py:51-103   valid_address, valid_base32, valid_base64, valid_base16
   pyteal/ast/bytes.py      Bytes.__init__ / Bytes.__teal__
   pyteal/ast/int.py        Int.__init__ / Int.__teal__
   pyteal/ast/addr.py       Addr
   pyteal/ast/methodsig.py  MethodSignature
   pyteal/ir/tealop.py      TealOp.assemble: op name and arguments joined by single blanks

   Strings are Coq strings of 8-bit characters.  The validators only look at membership of each
   character in an ASCII class and at lengths, so the harness maps every code point above 255 to
   a fixed character outside all classes before asking the model. *)
From Coq Require Import List NArith ZArith Ascii String Bool.
From PV Require Import Base.Bytes Base.Sexp Lit.Escape.
Import ListNotations.
Local Open Scope N_scope.

(* ---- character classes of the three regular expressions ---- *)
Definition in_range (lo hi : N) (c : ascii) : bool := let n := N_of_ascii c in (lo <=? n) && (n <=? hi).

Definition is_b32 (c : ascii) : bool := in_range 65 90 c || in_range 50 55 c.            (* [A-Z2-7] *)
Definition is_b64 (c : ascii) : bool :=                                                  (* [A-Za-z0-9+/] *)
  in_range 65 90 c || in_range 97 122 c || in_range 48 57 c || Ascii.eqb c "+" || Ascii.eqb c "/".
Definition is_hex (c : ascii) : bool := in_range 48 57 c || in_range 65 70 c || in_range 97 102 c. (* [0-9A-Fa-f] *)
Definition is_pad (c : ascii) : bool := Ascii.eqb c "=".

Fixpoint chars_eqb (a b : list ascii) : bool :=
  match a, b with
  | [], [] => true
  | x :: a', y :: b' => Ascii.eqb x y && chars_eqb a' b'
  | _, _ => false
  end.

(* ---- valid_base16:  len(s) % 2 == 0  and  fullmatch [0-9A-Fa-f]*  ---- *)
Definition valid_base16_l (s : list ascii) : bool := Nat.even (List.length s) && forallb is_hex s.
Definition valid_base16 (s : string) : bool := valid_base16_l (list_ascii_of_string s).

(* ---- valid_base64:  fullmatch ^(?:[A-Za-z0-9+/]{4})*(?:[A-Za-z0-9+/]{2}==|[A-Za-z0-9+/]{3}=)?$ ---- *)
Definition tail64 (s : list ascii) : bool :=
  match s with
  | [] => true
  | [a; b; c; d] =>
      is_b64 a && is_b64 b && ((is_pad c && is_pad d) || (is_b64 c && is_pad d))
  | _ => false
  end.
Fixpoint valid_base64_l (s : list ascii) : bool :=
  tail64 s ||
  match s with
  | a :: b :: c :: d :: rest => is_b64 a && is_b64 b && is_b64 c && is_b64 d && valid_base64_l rest
  | _ => false
  end.
Definition valid_base64 (s : string) : bool := valid_base64_l (list_ascii_of_string s).

(* ---- valid_base32:  fullmatch
   ^(?:[A-Z2-7]{8})*(?:([A-Z2-7]{2}([=]{6})?)|([A-Z2-7]{4}([=]{4})?)|([A-Z2-7]{5}([=]{3})?)|([A-Z2-7]{7}([=]{1})?))?
   ---- *)
(* k alphabet characters followed by nothing or by exactly p pad characters *)
Definition tail_kp (k p : nat) (s : list ascii) : bool :=
  (List.length (firstn k s) =? k)%nat && forallb is_b32 (firstn k s) &&
  (chars_eqb (skipn k s) [] || chars_eqb (skipn k s) (repeat "="%char p)).
Definition tail32 (s : list ascii) : bool :=
  match s with
  | [] => true
  | _ => tail_kp 2 6 s || tail_kp 4 4 s || tail_kp 5 3 s || tail_kp 7 1 s
  end.
Fixpoint valid_base32_l (s : list ascii) : bool :=
  tail32 s ||
  match s with
  | a :: b :: c :: d :: e :: f :: g :: h :: rest =>
      is_b32 a && is_b32 b && is_b32 c && is_b32 d && is_b32 e && is_b32 f && is_b32 g && is_b32 h &&
      valid_base32_l rest
  | _ => false
  end.
Definition valid_base32 (s : string) : bool := valid_base32_l (list_ascii_of_string s).

(* ---- valid_address: len == 58 and valid_base32 (no checksum test in the code) ---- *)
Definition valid_address (s : string) : bool := (String.length s =? 58)%nat && valid_base32 s.

(* ---- Bytes ---- *)
Inductive bytes_arg : Type :=
| BUtf8 (utf8 : bytes)               (* Bytes(str): the argument's UTF-8 encoding *)
| BRaw (b : bytes)                   (* Bytes(bytes) / Bytes(bytearray) *)
| BBase (base value : string).       (* Bytes(base, value) *)

(* bytes.hex(): two lower-case digits per byte *)
Fixpoint hex_lower (b : bytes) : list ascii :=
  match b with
  | [] => []
  | c :: t => hexlow (N_of_ascii c / 16) :: hexlow (N_of_ascii c mod 16) :: hex_lower t
  end.

(* arg2[2:] if arg2.startswith("0x") else arg2 *)
Definition strip0x (s : string) : string :=
  match s with
  | String z (String x r) => if Ascii.eqb z "0" && Ascii.eqb x "x" then r else s
  | _ => s
  end.

Local Open Scope string_scope.

(* the single argument of the byte op; None = TealInputError at construction *)
Definition bytes_payload (a : bytes_arg) : option string :=
  match a with
  | BUtf8 u => Some (escape_str u)
  | BRaw b => Some ("0x" ++ string_of_list_ascii (hex_lower b))
  | BBase base v =>
      if String.eqb base "base32" then (if valid_base32 v then Some ("base32(" ++ v ++ ")") else None)
      else if String.eqb base "base64" then (if valid_base64 v then Some ("base64(" ++ v ++ ")") else None)
      else if String.eqb base "base16" then
        (let h := strip0x v in if valid_base16 h then Some ("0x" ++ h) else None)
      else None
  end.
Definition bytes_line (a : bytes_arg) : option string := option_map (append "byte ") (bytes_payload a).

(* ---- Int:  0 <= value < 2**64, printed by str() ---- *)
Definition int_line (z : Z) : option string :=
  if ((0 <=? z) && (z <? 18446744073709551616))%Z then Some ("int " ++ N_to_dec (Z.to_N z)) else None.

(* ---- Addr ---- *)
Definition addr_line (s : string) : option string :=
  if valid_address s then Some ("addr " ++ s) else None.

(* ---- MethodSignature (after /repo ae4cf37): non-empty text without double quote, backslash,
   LF and CR, put between double quotes as it is ---- *)
Definition method_arg (s : string) : string := String dquote (s ++ String dquote "").
Definition sig_bad (c : ascii) : bool :=
  Ascii.eqb c dquote || Ascii.eqb c backslash || Ascii.eqb c "010"%char || Ascii.eqb c "013"%char.
Definition method_line (s : string) : option string :=
  match s with
  | "" => None
  | _ => if existsb sig_bad (list_ascii_of_string s) then None else Some ("method " ++ method_arg s)
  end.
