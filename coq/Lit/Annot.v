(* Lit/Annot.v — when is it safe to append a comment to a TEAL line?
   [ends_clean_from] runs the state machine of the assembler tokeniser AVM/Parse.tok_line over a
   text and answers whether, at its end (or at the first comment start, whichever comes first), the
   tokeniser is outside a string literal and — after one blank — outside a base64 argument; i.e.
   whether a following  //  would be read as a comment.  The definition is tied to tok_line by the
   theorems of Proofs/AnnotProof.v themselves (they could not be proved if the two disagreed). *)
From Coq Require Import List NArith Ascii String Bool.
From PV Require Import AVM.Parse.
Import ListNotations.
Local Open Scope string_scope.

Fixpoint ends_clean_from (s cur : list ascii) (in_str esc in_b64 : bool) : bool :=
  match s with
  | [] =>
      negb in_str &&
      match cur with
      | [] => negb in_b64
      | _ => if in_b64 then true else negb (String.eqb (str_of cur) "base64" || String.eqb (str_of cur) "b64")
      end
  | c :: t =>
      if in_str then
        if esc then ends_clean_from t (c :: cur) true false in_b64
        else if Ascii.eqb c "\" then ends_clean_from t (c :: cur) true true in_b64
        else if Ascii.eqb c """" then ends_clean_from t (c :: cur) false false in_b64
        else ends_clean_from t (c :: cur) true false in_b64
      else if is_space c then
        match cur with
        | [] => ends_clean_from t [] false false in_b64
        | _ =>
            let tk := str_of cur in
            let b64' := if in_b64 then false else (String.eqb tk "base64" || String.eqb tk "b64") in
            ends_clean_from t [] false false b64'
        end
      else if Ascii.eqb c """" then
        match cur with
        | [] => ends_clean_from t [c] true false in_b64
        | _ => ends_clean_from t (c :: cur) false false in_b64
        end
      else if Ascii.eqb c "/" then
        match t with
        | c2 :: _ =>
            if Ascii.eqb c2 "/" && negb in_b64 then true
            else ends_clean_from t (c :: cur) false false in_b64
        | [] => ends_clean_from t (c :: cur) false false in_b64
        end
      else if Ascii.eqb c "(" then
        let pre := str_of cur in
        let b64' := in_b64 || String.eqb pre "base64" || String.eqb pre "b64" in
        ends_clean_from t (c :: cur) false false b64'
      else if Ascii.eqb c ")" then ends_clean_from t (c :: cur) false false false
      else if Ascii.eqb c ";" then
        if in_b64 then ends_clean_from t (c :: cur) false false in_b64
        else ends_clean_from t [] false false false
      else ends_clean_from t (c :: cur) false false in_b64
  end.

(* a TEAL line after which a comment may be appended *)
Definition line_ends_clean (L : string) : bool :=
  ends_clean_from (list_ascii_of_string L) [] false false false.

Definition slash : ascii := "/"%char.
Definition newline : ascii := chr 10.

(* L, at least one blank, the comment marker, any text *)
Definition annotate_chars (L ws text : list ascii) : list ascii := L ++ ws ++ slash :: slash :: text.
Definition annotate (L ws text : string) : string := L ++ ws ++ "//" ++ text.

Definition blanks (ws : list ascii) : Prop := ws <> [] /\ forallb is_space ws = true.
