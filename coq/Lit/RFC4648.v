(* Lit/RFC4648.v — SPECIFICATION of base16 / base32 / base64 (RFC 4648 sections 4, 6, 8), written
   group by group as in the RFC's diagrams, independently of the assembler model in AVM/Parse.v
   (which reads the whole string as one big number).  Validated on every run of the C13 check
   against Python's base64 / binascii modules.

   Decoders return None for text that is not a well-formed encoding.  As RFC 4648 section 3.5
   allows, the pad bits of the final group are ignored (neither Python, Go, nor PyTeal check
   that they are zero).  For base32 the final group may be written with its full padding or with
   none (RFC 4648 section 3.2; this is what PyTeal's validator and the assembler accept). *)
From Coq Require Import List NArith Ascii String Bool.
From PV Require Import Base.Bytes.
Import ListNotations.
Local Open Scope N_scope.

Definition byte_of (n : N) : ascii := ascii_of_N n.
Definition pad : ascii := "="%char.
Definition is_padc (c : ascii) : bool := Ascii.eqb c pad.

(* ---- alphabets (RFC 4648 tables 1 and 3) ---- *)
Definition v64 (c : ascii) : option N :=
  let n := N_of_ascii c in
  if (65 <=? n) && (n <=? 90) then Some (n - 65)          (* A-Z  0..25 *)
  else if (97 <=? n) && (n <=? 122) then Some (n - 97 + 26) (* a-z 26..51 *)
  else if (48 <=? n) && (n <=? 57) then Some (n - 48 + 52)  (* 0-9 52..61 *)
  else if n =? 43 then Some 62                            (* + *)
  else if n =? 47 then Some 63                            (* / *)
  else None.
Definition c64 (v : N) : ascii :=
  if v <? 26 then ascii_of_N (65 + v) else if v <? 52 then ascii_of_N (97 + (v - 26))
  else if v <? 62 then ascii_of_N (48 + (v - 52)) else if v =? 62 then "+"%char else "/"%char.

Definition v32 (c : ascii) : option N :=
  let n := N_of_ascii c in
  if (65 <=? n) && (n <=? 90) then Some (n - 65)          (* A-Z 0..25 *)
  else if (50 <=? n) && (n <=? 55) then Some (n - 50 + 26)  (* 2-7 26..31 *)
  else None.
Definition c32 (v : N) : ascii := if v <? 26 then ascii_of_N (65 + v) else ascii_of_N (50 + (v - 26)).

Definition v16 (c : ascii) : option N :=
  let n := N_of_ascii c in
  if (48 <=? n) && (n <=? 57) then Some (n - 48)
  else if (65 <=? n) && (n <=? 70) then Some (n - 65 + 10)
  else if (97 <=? n) && (n <=? 102) then Some (n - 97 + 10)  (* lower case accepted on input *)
  else None.

(* ---- base16 ---- *)
Fixpoint b16_decode (s : list ascii) : option bytes :=
  match s with
  | [] => Some []
  | h :: l :: t =>
      match v16 h, v16 l, b16_decode t with
      | Some x, Some y, Some r => Some (byte_of (16 * x + y) :: r)
      | _, _, _ => None
      end
  | _ => None
  end.

(* ---- base64: 4 characters = 24 bits = 3 bytes ---- *)
Definition q64 (a b c d : N) : bytes :=
  [byte_of (a * 4 + b / 16); byte_of ((b mod 16) * 16 + c / 4); byte_of ((c mod 4) * 64 + d)].
Definition q64_2 (a b : N) : bytes := [byte_of (a * 4 + b / 16)].                       (* xx== *)
Definition q64_3 (a b c : N) : bytes := [byte_of (a * 4 + b / 16); byte_of ((b mod 16) * 16 + c / 4)]. (* xxx= *)

Fixpoint b64_decode (s : list ascii) : option bytes :=
  match s with
  | [] => Some []
  | a :: b :: c :: d :: rest =>
      match v64 a, v64 b, v64 c, v64 d with
      | Some x, Some y, Some z, Some w => option_map (app (q64 x y z w)) (b64_decode rest)
      | Some x, Some y, Some z, None =>
          match rest with [] => if is_padc d then Some (q64_3 x y z) else None | _ => None end
      | Some x, Some y, None, None =>
          match rest with [] => if is_padc c && is_padc d then Some (q64_2 x y) else None | _ => None end
      | _, _, _, _ => None
      end
  | _ => None
  end.

(* ---- base32: 8 characters = 40 bits = 5 bytes ---- *)
Definition q32_1 (a b : N) : bytes := [byte_of (a * 8 + b / 4)].
Definition q32_2 (a b c d : N) : bytes := q32_1 a b ++ [byte_of ((b mod 4) * 64 + c * 2 + d / 16)].
Definition q32_3 (a b c d e : N) : bytes := q32_2 a b c d ++ [byte_of ((d mod 16) * 16 + e / 2)].
Definition q32_4 (a b c d e f g : N) : bytes := q32_3 a b c d e ++ [byte_of ((e mod 2) * 128 + f * 4 + g / 8)].
Definition q32 (a b c d e f g h : N) : bytes := q32_4 a b c d e f g ++ [byte_of ((g mod 8) * 32 + h)].

(* the characters of a short final group: 2, 4, 5 or 7 of them (1, 2, 3, 4 bytes) *)
Definition g32_2 (a b : ascii) : option bytes :=
  match v32 a, v32 b with Some x1, Some x2 => Some (q32_1 x1 x2) | _, _ => None end.
Definition g32_4 (a b c d : ascii) : option bytes :=
  match v32 a, v32 b, v32 c, v32 d with
  | Some x1, Some x2, Some x3, Some x4 => Some (q32_2 x1 x2 x3 x4) | _, _, _, _ => None end.
Definition g32_5 (a b c d e : ascii) : option bytes :=
  match v32 a, v32 b, v32 c, v32 d, v32 e with
  | Some x1, Some x2, Some x3, Some x4, Some x5 => Some (q32_3 x1 x2 x3 x4 x5) | _, _, _, _, _ => None end.
Definition g32_7 (a b c d e f g : ascii) : option bytes :=
  match v32 a, v32 b, v32 c, v32 d, v32 e, v32 f, v32 g with
  | Some x1, Some x2, Some x3, Some x4, Some x5, Some x6, Some x7 => Some (q32_4 x1 x2 x3 x4 x5 x6 x7)
  | _, _, _, _, _, _, _ => None end.

Definition all_pad (s : list ascii) : bool := forallb is_padc s.

(* the final group is written without padding, or padded to exactly 8 characters *)
Definition b32_tail (s : list ascii) : option bytes :=
  match s with
  | [] => Some []
  | [a; b] => g32_2 a b
  | [a; b; c; d] => g32_4 a b c d
  | [a; b; c; d; e] => g32_5 a b c d e
  | [a; b; c; d; e; f; g] => g32_7 a b c d e f g
  | [a; b; c; d; e; f; g; h] =>
      if all_pad [c; d; e; f; g; h] then g32_2 a b
      else if all_pad [e; f; g; h] then g32_4 a b c d
      else if all_pad [f; g; h] then g32_5 a b c d e
      else if all_pad [h] then g32_7 a b c d e f g
      else None
  | _ => None
  end.

Fixpoint b32_decode (s : list ascii) : option bytes :=
  match s with
  | a :: b :: c :: d :: e :: f :: g :: h :: rest =>
      match v32 a, v32 b, v32 c, v32 d, v32 e, v32 f, v32 g, v32 h with
      | Some x1, Some x2, Some x3, Some x4, Some x5, Some x6, Some x7, Some x8 =>
          option_map (app (q32 x1 x2 x3 x4 x5 x6 x7 x8)) (b32_decode rest)
      | _, _, _, _, _, _, _, _ => b32_tail s
      end
  | _ => b32_tail s
  end.

(* ---- encoders (canonical spelling), RFC 4648 sections 4 and 6 ---- *)
Definition e64_3 (x y z : N) : list ascii :=
  [c64 (x / 4); c64 ((x mod 4) * 16 + y / 16); c64 ((y mod 16) * 4 + z / 64); c64 (z mod 64)].
Fixpoint b64_encode (b : bytes) : list ascii :=
  match b with
  | [] => []
  | [x] => let x := N_of_ascii x in [c64 (x / 4); c64 ((x mod 4) * 16); pad; pad]
  | [x; y] => let x := N_of_ascii x in let y := N_of_ascii y in
              [c64 (x / 4); c64 ((x mod 4) * 16 + y / 16); c64 ((y mod 16) * 4); pad]
  | x :: y :: z :: t => e64_3 (N_of_ascii x) (N_of_ascii y) (N_of_ascii z) ++ b64_encode t
  end.

(* characters of up to five bytes (missing bytes read as 0); the caller keeps the first k *)
Definition e32_5 (x1 x2 x3 x4 x5 : N) : list ascii :=
  [c32 (x1 / 8); c32 ((x1 mod 8) * 4 + x2 / 64); c32 ((x2 / 2) mod 32); c32 ((x2 mod 2) * 16 + x3 / 16);
   c32 ((x3 mod 16) * 2 + x4 / 128); c32 ((x4 / 4) mod 32); c32 ((x4 mod 4) * 8 + x5 / 32); c32 (x5 mod 32)].
Fixpoint b32_encode (padded : bool) (b : bytes) : list ascii :=
  let fin k l := firstn k l ++ (if padded then repeat pad (8 - k) else []) in
  match b with
  | [] => []
  | [x1] => fin 2%nat (e32_5 (N_of_ascii x1) 0 0 0 0)
  | [x1; x2] => fin 4%nat (e32_5 (N_of_ascii x1) (N_of_ascii x2) 0 0 0)
  | [x1; x2; x3] => fin 5%nat (e32_5 (N_of_ascii x1) (N_of_ascii x2) (N_of_ascii x3) 0 0)
  | [x1; x2; x3; x4] => fin 7%nat (e32_5 (N_of_ascii x1) (N_of_ascii x2) (N_of_ascii x3) (N_of_ascii x4) 0)
  | x1 :: x2 :: x3 :: x4 :: x5 :: t =>
      e32_5 (N_of_ascii x1) (N_of_ascii x2) (N_of_ascii x3) (N_of_ascii x4) (N_of_ascii x5) ++ b32_encode padded t
  end.
