(* Lit/GoTok.v — a VARIANT of the assembler's line tokeniser (AVM/Parse.v [tok_line]) in which
   a double quote inside a string literal closes the literal unless the character immediately
   before it is a backslash (the test `sourceLine[i-1] != backslash` of go-algorand's
   tokensFromLine, as remembered; no assembler source is available offline).  AVM/Parse.v
   instead tracks whether the previous backslash was itself escaped.  The two differ exactly on
   literals whose last byte is a backslash and that are followed by more text on the same line.
   Everything else is copied from [tok_line].  Used only for the side theorems
   C13_prevchar_* — the C13 property theorems are stated against AVM/Parse.v. *)
From Coq Require Import List Arith NArith Ascii String Bool.
From PV Require Import Base.Bytes AVM.Parse.
Import ListNotations.
Local Open Scope string_scope.

Definition prev_is_backslash (cur : list ascii) : bool :=
  match cur with p :: _ => Ascii.eqb p "\" | [] => false end.

Fixpoint go_tok_line (s : list ascii) (cur : list ascii) (in_str in_b64 : bool) (acc : list string)
  : list string :=
  let flush (cur : list ascii) (acc : list string) :=
      match cur with [] => acc | _ => str_of cur :: acc end in
  match s with
  | [] => rev (flush cur acc)
  | c :: t =>
      if in_str then
        if Ascii.eqb c """" && negb (prev_is_backslash cur)
        then go_tok_line t (c :: cur) false in_b64 acc
        else go_tok_line t (c :: cur) true in_b64 acc
      else if is_space c then
        match cur with
        | [] => go_tok_line t [] false in_b64 acc
        | _ =>
            let tk := str_of cur in
            let b64' := if in_b64 then false else (String.eqb tk "base64" || String.eqb tk "b64") in
            go_tok_line t [] false b64' (tk :: acc)
        end
      else if Ascii.eqb c """" then
        match cur with
        | [] => go_tok_line t [c] true in_b64 acc
        | _ => go_tok_line t (c :: cur) false in_b64 acc
        end
      else if Ascii.eqb c "/" then
        match t with
        | c2 :: _ =>
            if Ascii.eqb c2 "/" && negb in_b64 then rev (flush cur acc)
            else go_tok_line t (c :: cur) false in_b64 acc
        | [] => go_tok_line t (c :: cur) false in_b64 acc
        end
      else if Ascii.eqb c "(" then
        let pre := str_of cur in
        let b64' := in_b64 || String.eqb pre "base64" || String.eqb pre "b64" in
        go_tok_line t (c :: cur) false b64' acc
      else if Ascii.eqb c ")" then go_tok_line t (c :: cur) false false acc
      else if Ascii.eqb c ";" then
        if in_b64 then go_tok_line t (c :: cur) false in_b64 acc
        else go_tok_line t [] false false (";" :: flush cur acc)
      else go_tok_line t (c :: cur) false in_b64 acc
  end.

Definition go_tokens_of_line (s : string) : list string :=
  go_tok_line (list_ascii_of_string s) [] false false [].
