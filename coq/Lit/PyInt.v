(* Lit/PyInt.v — meaning of the tiny Python subset the C15 translator (harness/c15_translate.py)
   accepts.  Python ints are Z (unbounded, two's-complement bit operations: Z.land / Z.lor /
   Z.shiftl / Z.shiftr agree with Python's & | << >> on all integers, shifts by non-negative
   amounts only — a negative amount is a ValueError and is guarded by the translator).
   An exception of the Python code is the result None.  Hand-written, trusted (small). *)
From Coq Require Import ZArith List Bool.
Import ListNotations.
Local Open Scope Z_scope.

(* truth value of an int *)
Definition truthy (z : Z) : bool := negb (z =? 0).
(* int(b) for a bool b *)
Definition b2z (b : bool) : Z := if b then 1 else 0.
(* a and b / a or b on ints: the VALUE of the short-circuit expression *)
Definition py_and (a b : Z) : Z := if a =? 0 then a else b.
Definition py_or (a b : Z) : Z := if a =? 0 then b else a.

(* seq.__getitem__(i) on a list / bytes object: negative indices count from the end,
   anything out of range is an IndexError *)
Definition getitem (t : list Z) (i : Z) : option Z :=
  let n := Z.of_nat (List.length t) in
  if i <? 0 then (if i + n <? 0 then None else nth_error t (Z.to_nat (i + n)))
  else if i <? n then nth_error t (Z.to_nat i) else None.

Fixpoint map_opt {A B : Type} (f : A -> option B) (l : list A) : option (list B) :=
  match l with
  | [] => Some []
  | x :: t =>
      match f x, map_opt f t with
      | Some y, Some r => Some (y :: r)
      | _, _ => None
      end
  end.

(* str.encode("ascii") succeeds iff every code point is below 128 *)
Definition all_ascii (l : list Z) : bool := forallb (fun c => (0 <=? c) && (c <? 128)) l.
