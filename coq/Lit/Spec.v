(* Lit/Spec.v — SPECIFICATION: what each literal constructor denotes (the byte string / integer
   the program must push), or None when the literal is malformed and must be rejected at
   construction.  Written from the property statement and PyTeal's documentation, not from the
   code:  Bytes(str) -> the UTF-8 bytes;  Bytes(bytes) -> the bytes;  Bytes(base, text) -> the
   RFC 4648 decoding of text (for base16 an optional 0x prefix is allowed);  Int(n) -> n if
   0 <= n < 2^64;  Addr(a) -> the 32-byte public key of a checksummed address. *)
From Coq Require Import List NArith ZArith Ascii String Bool.
From PV Require Import Base.Bytes Lit.BaseN Lit.RFC4648.
Import ListNotations.
Local Open Scope string_scope.

Definition drop_0x (s : string) : string :=
  match s with String "0" (String "x" r) => r | _ => s end.

Definition bytes_value (a : bytes_arg) : option bytes :=
  match a with
  | BUtf8 u => Some u
  | BRaw b => Some b
  | BBase base v =>
      if String.eqb base "base16" then b16_decode (list_ascii_of_string (drop_0x v))
      else if String.eqb base "base32" then b32_decode (list_ascii_of_string v)
      else if String.eqb base "base64" then b64_decode (list_ascii_of_string v)
      else None
  end.

Definition int_value (z : Z) : option N :=
  if ((0 <=? z) && (z <? 18446744073709551616))%Z then Some (Z.to_N z) else None.

(* An Algorand address is the unpadded base32 text of key (32 bytes) followed by the last four
   bytes of SHA-512/256(key).  The hash is an oracle [ck]. *)
Definition addr_value (ck : bytes -> bytes) (s : string) : option bytes :=
  if (String.length s =? 58)%nat then
    match b32_decode (list_ascii_of_string s) with
    | Some b =>
        let key := firstn 32 b in
        if bytes_eqb (skipn 32 b) (ck key) &&
           String.eqb s (string_of_list_ascii (b32_encode false b))      (* canonical spelling *)
        then Some key else None
    | None => None
    end
  else None.
