(* Lit/R3.v — hand model of the "mappings" string of a Revision-3 source map as
   R3SourceMap.to_json / R3SourceMap.from_json (pyteal/compiler/sourcemap.py 219-407) build and read it.

   A table is the list of generated lines; a line is the list of its segments in index order; a
   segment has a generated column and optionally a source reference (source file, source line,
   source column, optionally a name).  The generated line number is the position in the table.
   to_json: per segment the fields [column delta; source-index delta; source-line delta;
   source-column delta; (name-index delta)] — column deltas restart on every line, the other
   deltas run through the whole map; source and name indices are handed out in order of first
   use (the `autoindex` default-dict); each field list is one base64-VLQ text, segments are joined
   with ',', lines with ';'.
   from_json: the inverse, with these behaviours of the Python code kept:
     * ''.split(';') = [''] : the empty text reads as ONE empty line;
     * an empty line text has no segments; an empty segment text (e.g. 'AAAA,,AAAA') is a
       ValueError; 2 or 3 fields read as 1 field; a 6th.. field is ignored;
     * sources == [] is replaced by ['unknown']; a source index beyond the list gives source None,
       a negative one an IndexError (through the empty sourcesContent list);
     * names == [] : name deltas are ignored; otherwise names[npos] with Python indexing;
     * a name on an entry whose source is None is a TypeError (R3SourceMapping.__post_init__);
     * entries live in a dict keyed (line, column): a repeated column overwrites the entry but
       keeps its first position; R3SourceMap.__post_init__ rejects key sequences that are not
       strictly increasing.
   Every exception is the result None. *)
From Coq Require Import ZArith List Bool Ascii String.
From PV Require Import Lit.VLQ.
Import ListNotations.
Local Open Scope Z_scope.

Record srcref : Type := mkRef { r_source : option string; r_line : Z; r_col : Z; r_name : option string }.
Record seg : Type := mkSeg { g_col : Z; g_ref : option srcref }.
Definition r3table : Type := list (list seg).

(* running positions shared by writer and reader *)
Record pstate : Type := mkPs { ps_spos : Z; ps_sline : Z; ps_scol : Z; ps_npos : Z }.
Definition ps0 : pstate := mkPs 0 0 0 0.

(* ---- text helpers (Python str.split / str.join on one separator character) ---- *)
Fixpoint split_on (c : ascii) (s : list ascii) (cur : list ascii) : list (list ascii) :=
  match s with
  | [] => [rev cur]
  | x :: t => if Ascii.eqb x c then rev cur :: split_on c t [] else split_on c t (x :: cur)
  end.

Fixpoint join_with (c : ascii) (l : list (list ascii)) : list ascii :=
  match l with
  | [] => []
  | [x] => x
  | x :: t => x ++ c :: join_with c t
  end.

Fixpoint map_option {A B : Type} (f : A -> option B) (l : list A) : option (list B) :=
  match l with
  | [] => Some []
  | x :: t =>
      match f x, map_option f t with
      | Some y, Some r => Some (y :: r)
      | _, _ => None
      end
  end.

(* list.__getitem__ with Python's negative indices *)
Definition getitem_gen {A : Type} (t : list A) (i : Z) : option A :=
  let n := Z.of_nat (List.length t) in
  if i <? 0 then (if i + n <? 0 then None else nth_error t (Z.to_nat (i + n)))
  else if i <? n then nth_error t (Z.to_nat i) else None.

(* ---- writer ---- *)
Fixpoint index_of (k : string) (l : list string) : option nat :=
  match l with
  | [] => None
  | x :: t => if String.eqb x k then Some O else option_map S (index_of k t)
  end.

(* defaultdict(partial(next, count())): a new key gets the number of keys seen so far *)
Definition autoindex (k : string) (tbl : list string) : Z * list string :=
  match index_of k tbl with
  | Some i => (Z.of_nat i, tbl)
  | None => (Z.of_nat (List.length tbl), tbl ++ [k])
  end.

Record wstate : Type := mkWs { ws_srcs : list string; ws_names : list string; ws_ps : pstate }.
Definition ws0 : wstate := mkWs [] [] ps0.

Definition print_seg (w : wstate) (gcol : Z) (s : seg) : wstate * list Z :=
  let p := ws_ps w in
  match g_ref s with
  | Some (mkRef (Some src) line col name) =>
      let '(si, srcs') := autoindex src (ws_srcs w) in
      let ds := [g_col s - gcol; si - ps_spos p; line - ps_sline p; col - ps_scol p] in
      match name with
      | Some nm =>
          let '(ni, names') := autoindex nm (ws_names w) in
          (mkWs srcs' names' (mkPs si line col ni), ds ++ [ni - ps_npos p])
      | None => (mkWs srcs' (ws_names w) (mkPs si line col (ps_npos p)), ds)
      end
  | _ => (w, [g_col s - gcol])          (* `if entry.source is not None` fails: column only *)
  end.

Fixpoint print_segs (w : wstate) (gcol : Z) (l : list seg) : wstate * list (list Z) :=
  match l with
  | [] => (w, [])
  | s :: t =>
      let '(w1, ds) := print_seg w gcol s in
      let '(w2, r) := print_segs w1 (g_col s) t in
      (w2, ds :: r)
  end.

Fixpoint print_lines (w : wstate) (m : r3table) : wstate * list (list (list Z)) :=
  match m with
  | [] => (w, [])
  | ln :: t =>
      let '(w1, fs) := print_segs w 0 ln in
      let '(w2, r) := print_lines w1 t in
      (w2, fs :: r)
  end.

Definition render_line (segs : list (list Z)) : list ascii :=
  join_with ","%char (map vlq_encode_chars segs).
Definition render (ls : list (list (list Z))) : list ascii :=
  join_with ";"%char (map render_line ls).

(* (sources, names, mappings) of to_json *)
Definition r3_to_json (m : r3table) : list string * list string * string :=
  let '(w, fs) := print_lines ws0 m in
  (ws_srcs w, ws_names w, string_of_list_ascii (render fs)).

(* ---- reader ---- *)
Definition parse_line_text (ln : list ascii) : option (list (list Z)) :=
  match ln with
  | [] => Some []                                   (* `if not vlqs: continue` *)
  | _ => map_option vlq_decode_chars (split_on ","%char ln [])
  end.

Definition parse_text (s : list ascii) : option (list (list (list Z))) :=
  map_option parse_line_text (split_on ";"%char s []).

Definition parse_seg (srcs names : list string) (p : pstate) (gcol : Z) (fs : list Z)
  : option (pstate * seg) :=
  match fs with
  | [] => None                                      (* gcd, *ref = [] : ValueError *)
  | gcd :: ref =>
      let col := gcol + gcd in
      match ref with
      | sd :: sld :: scd :: nd =>
          let spos := ps_spos p + sd in
          let sline := ps_sline p + sld in
          let scol := ps_scol p + scd in
          if spos <? 0 then None                    (* sp_conts[spos] on the empty list *)
          else
            let source := if spos <? Z.of_nat (List.length srcs) then nth_error srcs (Z.to_nat spos) else None in
            match nd, names with
            | d :: _, _ :: _ =>
                let npos := ps_npos p + d in
                match getitem_gen names npos, source with
                | Some nm, Some _ =>
                    Some (mkPs spos sline scol npos, mkSeg col (Some (mkRef source sline scol (Some nm))))
                | _, _ => None                      (* IndexError / name without source *)
                end
            | _, _ => Some (mkPs spos sline scol (ps_npos p), mkSeg col (Some (mkRef source sline scol None)))
            end
      | _ => Some (p, mkSeg col None)
      end
  end.

Fixpoint parse_segs (srcs names : list string) (p : pstate) (gcol : Z) (l : list (list Z))
  : option (pstate * list seg) :=
  match l with
  | [] => Some (p, [])
  | fs :: t =>
      match parse_seg srcs names p gcol fs with
      | None => None
      | Some (p1, s) =>
          match parse_segs srcs names p1 (g_col s) t with
          | None => None
          | Some (p2, r) => Some (p2, s :: r)
          end
      end
  end.

Fixpoint parse_lines (srcs names : list string) (p : pstate) (ls : list (list (list Z)))
  : option r3table :=
  match ls with
  | [] => Some []
  | l :: t =>
      match parse_segs srcs names p 0 l with
      | None => None
      | Some (p1, segs) =>
          match parse_lines srcs names p1 t with
          | None => None
          | Some r => Some (segs :: r)
          end
      end
  end.

(* the dict view: key order = first occurrences; value = last write *)
Fixpoint dedup_cols (l : list Z) (seen : list Z) : list Z :=
  match l with
  | [] => []
  | x :: t => if existsb (Z.eqb x) seen then dedup_cols t seen else x :: dedup_cols t (x :: seen)
  end.

Fixpoint strictly_increasing (l : list Z) : bool :=
  match l with
  | x :: ((y :: _) as t) => (x <? y) && strictly_increasing t
  | _ => true
  end.

Definition line_ordered (segs : list seg) : bool :=
  strictly_increasing (dedup_cols (map g_col segs) []).

(* R3SourceMap.__post_init__ accepts the table *)
Definition r3_ordered (m : r3table) : bool := forallb line_ordered m.

Definition last_with_col (c : Z) (segs : list seg) (dflt : seg) : seg :=
  fold_left (fun acc s => if g_col s =? c then s else acc) segs dflt.

Definition view_line (segs : list seg) : list seg :=
  map (fun s => last_with_col (g_col s) segs s) segs.

Definition r3_from_json (srcs names : list string) (mappings : string) : option r3table :=
  let srcs' := match srcs with [] => ["unknown"%string] | _ => srcs end in
  match parse_text (list_ascii_of_string mappings) with
  | None => None
  | Some fs =>
      match parse_lines srcs' names ps0 fs with
      | None => None
      | Some m => if r3_ordered m then Some (map view_line m) else None
      end
  end.

(* ---- well-formed tables (what R3SourceMap itself requires of its entries) ---- *)
Definition wf_seg (s : seg) : Prop :=
  match g_ref s with
  | Some r => r_source r <> None        (* a reference names its source file *)
  | None => True
  end.

Definition wf_line (segs : list seg) : Prop :=
  Forall wf_seg segs /\ strictly_increasing (map g_col segs) = true.

Definition wf_table (m : r3table) : Prop := Forall wf_line m.
