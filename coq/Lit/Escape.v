(* Lit/Escape.v — model of pyteal.util.escapeStr (pyteal/util.py:36-65) on byte lists.

   The Python function is
       s.encode(utf-8).decode(latin-1).encode(unicode-escape).decode(latin-1)
   followed by replacing every double quote by backslash + double quote, and the result is
   wrapped in double quotes.
   After the first two steps the string has one code point < 256 per UTF-8 byte, so the function
   is a per-byte map of the UTF-8 encoding of its argument.  Python's unicode-escape codec on a
   code point c < 256 gives:  backslash -> two backslashes; TAB, LF, CR -> \t \n \r;
   c < 0x20 or c >= 0x7f -> \xhh with two LOWER-case hex digits; every other c verbatim
   (single and double quote included); the replace step then escapes the double quote.
   The model takes the UTF-8 bytes as input (str.encode(utf-8) is Python's, and is also what
   the property statement uses as the specification of the pushed value). *)
From Coq Require Import List NArith Ascii String Bool.
From PV Require Import Base.Bytes.
Import ListNotations.
Local Open Scope N_scope.

Definition backslash : ascii := "\"%char.
Definition dquote : ascii := """"%char.

(* lower-case hex digit of a value below 16 *)
Definition hexlow (n : N) : ascii :=
  if n <? 10 then ascii_of_N (48 + n) else ascii_of_N (87 + n).

(* what one byte of the UTF-8 encoding becomes *)
Definition esc_byte (c : ascii) : list ascii :=
  let n := N_of_ascii c in
  if n =? 92 then [backslash; backslash]
  else if n =? 34 then [backslash; dquote]
  else if n =? 9 then [backslash; "t"%char]
  else if n =? 10 then [backslash; "n"%char]
  else if n =? 13 then [backslash; "r"%char]
  else if (n <? 32) || (127 <=? n) then [backslash; "x"%char; hexlow (n / 16); hexlow (n mod 16)]
  else [c].

Definition escape_body (b : bytes) : list ascii := flat_map esc_byte b.

(* the literal as a character list and as a string: quote, escaped body, quote *)
Definition escape_list (b : bytes) : list ascii := dquote :: escape_body b ++ [dquote].
Definition escape_str (b : bytes) : string := string_of_list_ascii (escape_list b).
