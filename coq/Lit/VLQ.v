(* Lit/VLQ.v — hand model of the base64-VLQ codec of pyteal/compiler/sourcemap.py
   (_base64vlq_encode / _base64vlq_decode, lines 40-70), for arbitrary integers.

   One integer z is first folded to a non-negative number with the sign in the low bit
   (2|z| + [z < 0]), then cut into 5-bit groups, least significant first; every group but the
   last carries the continuation bit 32; each 6-bit digit is one character of the base64
   alphabet.  The decoder accumulates groups until one comes without the continuation bit.

   Quirks of the Python decoder that are kept:
     * the look-up table has 123 entries (max(alphabet)+1): a character above 'z' is an IndexError
       (and a non-ASCII one a UnicodeEncodeError)            -> None;
     * a character below that which is not in the alphabet reads as -1, i.e. as a group of
       five 1-bits WITH continuation bit (Python's -1 & 31 = 31, -1 & 32 = 32);
     * an unfinished group at the end of the text is dropped silently;
     * "-0" (digit 1) decodes to 0.
   The generated kernel coq/Gen/VLQKernel.v (translated from the Python source on every run) is
   proved equal to this model in Proofs/VLQKernelProof.v. *)
From Coq Require Import ZArith List Bool Ascii String.
Import ListNotations.
Local Open Scope Z_scope.

Definition b64_alphabet : list ascii :=
  list_ascii_of_string "ABCDEFGHIJKLMNOPQRSTUVWXYZabcdefghijklmnopqrstuvwxyz0123456789+/".

Definition code (c : ascii) : Z := Z.of_N (N_of_ascii c).

(* digit -> character (digits are always in 0..63) *)
Definition b64_char (d : Z) : ascii := nth (Z.to_nat d) b64_alphabet "?"%char.

Fixpoint index_in (c : ascii) (l : list ascii) (i : Z) : option Z :=
  match l with
  | [] => None
  | x :: t => if Ascii.eqb x c then Some i else index_in c t (i + 1)
  end.

(* character -> digit as the Python table reads it *)
Definition b64_val (c : ascii) : option Z :=
  if 122 <? code c then None
  else match index_in c b64_alphabet 0 with
       | Some i => Some i
       | None => Some (-1)
       end.

(* ---- one integer ---- *)
Definition vlq_sign (z : Z) : Z := 2 * Z.abs z + (if z <? 0 then 1 else 0).
Definition vlq_unsign (v : Z) : Z := if Z.odd v then - (v / 2) else v / 2.

(* 5-bit groups of n >= 0, least significant first; [fuel] bounds the number of further groups
   (adequate as soon as n < 2^fuel) *)
Fixpoint vlq_digits (fuel : nat) (n : Z) : list Z :=
  match fuel with
  | O => [n mod 32]
  | S f => if n / 32 =? 0 then [n mod 32] else (n mod 32 + 32) :: vlq_digits f (n / 32)
  end.

Definition vlq_fuel (n : Z) : nat := Z.to_nat (Z.log2 n + 1).

Definition vlq_encode_one (z : Z) : list Z := vlq_digits (vlq_fuel (vlq_sign z)) (vlq_sign z).

Definition vlq_encode_digits (l : list Z) : list Z := flat_map vlq_encode_one l.

Definition vlq_encode_chars (l : list Z) : list ascii := map b64_char (vlq_encode_digits l).

Definition vlq_encode (l : list Z) : string := string_of_list_ascii (vlq_encode_chars l).

(* ---- decoding ---- *)
Fixpoint vlq_dec (ds : list Z) (shift value : Z) : list Z :=
  match ds with
  | [] => []
  | d :: t =>
      let value' := value + Z.land d 31 * 2 ^ shift in
      if Z.land d 32 =? 0 then vlq_unsign value' :: vlq_dec t 0 0
      else vlq_dec t (shift + 5) value'
  end.

Fixpoint vals_of (cs : list ascii) : option (list Z) :=
  match cs with
  | [] => Some []
  | c :: t =>
      match b64_val c, vals_of t with
      | Some d, Some r => Some (d :: r)
      | _, _ => None
      end
  end.

Definition vlq_decode_chars (cs : list ascii) : option (list Z) :=
  match vals_of cs with
  | Some ds => Some (vlq_dec ds 0 0)
  | None => None
  end.

Definition vlq_decode (s : string) : option (list Z) := vlq_decode_chars (list_ascii_of_string s).

(* fuel handed to the generated (fuelled) encoder kernel: one more than the longest digit string *)
Definition enc_fuel (l : list Z) : nat :=
  S (fold_right (fun z a => Nat.max (vlq_fuel (vlq_sign z)) a) O l).
