"""C15 translator: regenerate coq/Gen/VLQKernel.v from /repo's pyteal/compiler/sourcemap.py.

Two sources of truth are combined on every run:
  * reflection on the imported module for the tables/constants
    (`_b64chars`, `_b64table`, `shiftsize`, `flag`, `mask`);
  * a FAIL-CLOSED `ast` translation of `_base64vlq_decode` and `_base64vlq_encode`
    for a tiny Python subset (ints with + - * << >> & |, comparisons, `and`/`or`/`not`, conditional
    expressions, `abs`, `int`, `cast`; assignment, tuple assignment, augmented assignment,
    `list.append` (also through an alias `add = results.append`), `if/else`, `for` over a list or over
    `map(TABLE.__getitem__, s.encode("ascii"))`, `while True` (becomes a fuelled loop), `continue`,
    `break`, `return`).  Anything else raises TranslateError: the check then reports the broken tie
    instead of silently skipping.

Shape of the output (the proofs in Proofs/VLQKernelProof.v are written against it):
  every Python local `x` becomes `v_x`, every global `g` becomes `g_<g without leading _>`;
  a loop becomes a Fixpoint `<fn>_forN` / `<fn>_whileN` whose arguments are (fuel, if a while loop is
  inside) the remaining items / the fuel, the read-only variables, then the loop-carried variables, and
  whose result is `option (tuple of loop-carried variables)`; `None` = a Python exception (IndexError of
  a table look-up, UnicodeEncodeError, ValueError of a negative shift) or fuel exhausted.
Semantics of the subset: coq/Lit/PyInt.v (Python ints are Z; & | << >> are Z.land Z.lor Z.shiftl Z.shiftr).
"""
import ast
import os
import sys

KERNEL_FUNCS = ["_base64vlq_decode", "_base64vlq_encode"]
INT_GLOBALS = ["shiftsize", "flag", "mask"]
TABLE_GLOBALS = ["_b64chars", "_b64table"]


class TranslateError(Exception):
    pass


def gname(n):
    return "g_" + n.lstrip("_")


def vname(n):
    return "v_" + n


def zlit(n):
    return "(%d)" % n if n < 0 else "%d" % n


class Fn:
    """Translation of one function."""

    def __init__(self, fdef, int_globals, table_globals):
        self.f = fdef
        self.name = fdef.name.lstrip("_")
        self.ints = int_globals          # name -> value
        self.tables = table_globals      # name -> list of ints
        self.defs = []                   # emitted Fixpoints, inner first
        self.nfor = 0
        self.nwhile = 0
        self.aliases = {}                # add -> results
        self.uses_fuel = any(isinstance(n, ast.While) for n in ast.walk(fdef))

    # ---------------------------------------------------------------- expressions
    def err(self, node, why):
        raise TranslateError("%s:%d: %s: %s" % (self.f.name, getattr(node, "lineno", 0), why, ast.dump(node)[:160]))

    def static_int(self, e):
        """Value of an expression that is a literal or an int global, else None."""
        if isinstance(e, ast.Constant) and type(e.value) is int:
            return e.value
        if isinstance(e, ast.Name) and e.id in self.ints:
            return self.ints[e.id]
        return None

    def as_z(self, t):
        txt, ty, g = t
        if ty == "Z":
            return txt, g
        if ty == "bool":
            return "(b2z %s)" % txt, g
        raise TranslateError("expected an int, got %s in %s" % (ty, txt))

    def as_bool(self, t):
        txt, ty, g = t
        if ty == "bool":
            return txt, g
        if ty == "Z":
            return "(truthy %s)" % txt, g
        raise TranslateError("expected a truth value, got %s in %s" % (ty, txt))

    def expr(self, e, scope):
        """-> (coq text, type in {Z,bool,list}, guards: list of coq bool texts that must hold)"""
        if isinstance(e, ast.Constant):
            if type(e.value) is int:
                return zlit(e.value), "Z", []
            if type(e.value) is bool:
                return ("true" if e.value else "false"), "bool", []
            self.err(e, "unsupported constant")
        if isinstance(e, ast.Name):
            if e.id in scope:
                return vname(e.id), scope[e.id], []
            if e.id in self.ints:
                return gname(e.id), "Z", []
            self.err(e, "name is neither a bound local nor a known int global")
        if isinstance(e, ast.List) and not e.elts:
            return "[]", "list", []
        if isinstance(e, ast.BinOp):
            a, ga = self.as_z(self.expr(e.left, scope))
            b, gb = self.as_z(self.expr(e.right, scope))
            g = ga + gb
            op = type(e.op)
            if op in (ast.LShift, ast.RShift):
                s = self.static_int(e.right)
                if s is None:
                    g = g + ["(0 <=? %s)" % b]          # Python: ValueError: negative shift count
                elif s < 0:
                    self.err(e, "shift by a negative constant")
                return "(Z.%s %s %s)" % ("shiftl" if op is ast.LShift else "shiftr", a, b), "Z", g
            table = {ast.BitAnd: "(Z.land %s %s)", ast.BitOr: "(Z.lor %s %s)", ast.Add: "(%s + %s)",
                     ast.Sub: "(%s - %s)", ast.Mult: "(%s * %s)"}
            if op in table:
                return table[op] % (a, b), "Z", g
            self.err(e, "unsupported binary operator")
        if isinstance(e, ast.UnaryOp):
            if isinstance(e.op, ast.USub):
                a, g = self.as_z(self.expr(e.operand, scope))
                return "(- %s)" % a, "Z", g
            if isinstance(e.op, ast.Not):
                a, g = self.as_bool(self.expr(e.operand, scope))
                return "(negb %s)" % a, "bool", g
            self.err(e, "unsupported unary operator")
        if isinstance(e, ast.Compare):
            if len(e.ops) != 1:
                self.err(e, "chained comparison")
            a, ga = self.as_z(self.expr(e.left, scope))
            b, gb = self.as_z(self.expr(e.comparators[0], scope))
            table = {ast.Lt: "(%s <? %s)", ast.LtE: "(%s <=? %s)", ast.Gt: "(%s >? %s)", ast.GtE: "(%s >=? %s)",
                     ast.Eq: "(%s =? %s)", ast.NotEq: "(negb (%s =? %s))"}
            if type(e.ops[0]) not in table:
                self.err(e, "unsupported comparison")
            return table[type(e.ops[0])] % (a, b), "bool", ga + gb
        if isinstance(e, ast.BoolOp):
            if len(e.values) != 2:
                self.err(e, "and/or with more than two operands")
            a, ga = self.as_z(self.expr(e.values[0], scope))
            b, gb = self.as_z(self.expr(e.values[1], scope))
            if gb:
                self.err(e, "guarded expression in a short-circuit position")
            return "(%s %s %s)" % ("py_and" if isinstance(e.op, ast.And) else "py_or", a, b), "Z", ga
        if isinstance(e, ast.IfExp):
            c, gc = self.as_bool(self.expr(e.test, scope))
            a, ga = self.as_z(self.expr(e.body, scope))
            b, gb = self.as_z(self.expr(e.orelse, scope))
            if ga or gb:
                self.err(e, "guarded expression in a conditional branch")
            return "(if %s then %s else %s)" % (c, a, b), "Z", gc
        if isinstance(e, ast.Call) and isinstance(e.func, ast.Name) and not e.keywords:
            fn = e.func.id
            if fn == "abs" and len(e.args) == 1:
                a, g = self.as_z(self.expr(e.args[0], scope))
                return "(Z.abs %s)" % a, "Z", g
            if fn == "int" and len(e.args) == 1:
                a, g = self.as_z(self.expr(e.args[0], scope))
                return a, "Z", g
            if fn == "cast" and len(e.args) == 2:
                return self.expr(e.args[1], scope)
        self.err(e, "unsupported expression")

    # ---------------------------------------------------------------- statements
    def assigned(self, stmts):
        """Names (re)bound by a statement list, in order of first occurrence (for-targets excluded)."""
        out = []

        def add(n):
            if n not in out:
                out.append(n)

        for s in stmts:
            if isinstance(s, ast.Assign):
                for t in s.targets:
                    for n in (t.elts if isinstance(t, ast.Tuple) else [t]):
                        if isinstance(n, ast.Name):
                            add(n.id)
            elif isinstance(s, ast.AnnAssign) and isinstance(s.target, ast.Name):
                add(s.target.id)
            elif isinstance(s, ast.AugAssign) and isinstance(s.target, ast.Name):
                add(s.target.id)
            elif isinstance(s, ast.Expr) and isinstance(s.value, ast.Call):
                tgt = self.append_target(s.value)
                if tgt:
                    add(tgt)
            elif isinstance(s, ast.If):
                for n in self.assigned(s.body) + self.assigned(s.orelse):
                    add(n)
            elif isinstance(s, (ast.For, ast.While)):
                for n in self.assigned(s.body):
                    if not (isinstance(s, ast.For) and isinstance(s.target, ast.Name) and n == s.target.id):
                        add(n)
        return out

    def reads(self, stmts):
        out = []
        for s in stmts:
            for n in ast.walk(s):
                if isinstance(n, ast.Name) and isinstance(n.ctx, ast.Load) and n.id not in out:
                    out.append(self.aliases.get(n.id, n.id))
        return out

    def append_target(self, call):
        f = call.func
        if isinstance(f, ast.Attribute) and f.attr == "append" and isinstance(f.value, ast.Name) and len(call.args) == 1:
            return f.value.id
        if isinstance(f, ast.Name) and f.id in self.aliases and len(call.args) == 1:
            return self.aliases[f.id]
        return None

    def guard(self, guards, body):
        if not guards:
            return body
        return "if %s then (\n%s\n) else None" % (" && ".join(guards), body)

    def block(self, stmts, scope, k):
        """Translate a statement list in CPS.  k: dict with 'fall','cont','brk' -> callable(scope)->text (or None)."""
        if not stmts:
            if k["fall"] is None:
                raise TranslateError("%s: control falls off the end of the function without return" % self.f.name)
            return k["fall"](scope)
        s, rest = stmts[0], stmts[1:]
        if isinstance(s, ast.Expr) and isinstance(s.value, ast.Constant) and isinstance(s.value.value, str):
            return self.block(rest, scope, k)                      # docstring
        if isinstance(s, ast.Pass):
            return self.block(rest, scope, k)
        if isinstance(s, ast.AnnAssign):
            if s.value is None or not isinstance(s.target, ast.Name):
                self.err(s, "unsupported annotated assignment")
            s = ast.copy_location(ast.Assign(targets=[s.target], value=s.value), s)
        if isinstance(s, ast.Assign):
            # alias of a bound method: add = results.append
            if (len(s.targets) == 1 and isinstance(s.targets[0], ast.Name) and isinstance(s.value, ast.Attribute)
                    and s.value.attr == "append" and isinstance(s.value.value, ast.Name)):
                if s.value.value.id not in scope or scope[s.value.value.id] != "list":
                    self.err(s, "alias of append on something that is not a bound list")
                self.aliases[s.targets[0].id] = s.value.value.id
                return self.block(rest, scope, k)
            if len(s.targets) == 1 and isinstance(s.targets[0], ast.Tuple):
                tg = s.targets[0]
                if not (isinstance(s.value, ast.Tuple) and len(s.value.elts) == len(tg.elts) and all(isinstance(n, ast.Name) for n in tg.elts)):
                    self.err(s, "unsupported tuple assignment")
                vals, guards = [], []
                new = dict(scope)
                for n, ve in zip(tg.elts, s.value.elts):
                    txt, ty, g = self.expr(ve, scope)          # every right-hand side sees the OLD bindings
                    if ty == "bool":
                        txt, ty = "(b2z %s)" % txt, "Z"
                    vals.append(txt)
                    guards += g
                    new[n.id] = ty
                pat = ", ".join(vname(n.id) for n in tg.elts)
                return self.guard(guards, "let '(%s) := (%s) in\n%s" % (pat, ", ".join(vals), self.block(rest, new, k)))
            if not all(isinstance(t, ast.Name) for t in s.targets):
                self.err(s, "unsupported assignment target")
            txt, ty, g = self.expr(s.value, scope)
            if ty == "bool":
                txt, ty = "(b2z %s)" % txt, "Z"
            new = dict(scope)
            out = ""
            first = s.targets[0].id
            out += "let %s := %s in\n" % (vname(first), txt)
            new[first] = ty
            for t in s.targets[1:]:                               # a = b = e
                out += "let %s := %s in\n" % (vname(t.id), vname(first))
                new[t.id] = ty
            return self.guard(g, out + self.block(rest, new, k))
        if isinstance(s, ast.AugAssign):
            if not isinstance(s.target, ast.Name) or s.target.id not in scope:
                self.err(s, "augmented assignment to an unbound name")
            fake = ast.BinOp(left=ast.Name(id=s.target.id, ctx=ast.Load()), op=s.op, right=s.value)
            ast.copy_location(fake, s)
            txt, ty, g = self.expr(fake, scope)
            new = dict(scope)
            new[s.target.id] = ty
            return self.guard(g, "let %s := %s in\n%s" % (vname(s.target.id), txt, self.block(rest, new, k)))
        if isinstance(s, ast.Expr) and isinstance(s.value, ast.Call):
            tgt = self.append_target(s.value)
            if tgt is None or scope.get(tgt) != "list":
                self.err(s, "unsupported call statement")
            a, g = self.as_z(self.expr(s.value.args[0], scope))
            return self.guard(g, "let %s := %s ++ [%s] in\n%s" % (vname(tgt), vname(tgt), a, self.block(rest, scope, k)))
        if isinstance(s, ast.Continue):
            if k["cont"] is None:
                self.err(s, "continue outside a loop")
            return k["cont"](scope)
        if isinstance(s, ast.Break):
            if k["brk"] is None:
                self.err(s, "break outside a while loop")
            return k["brk"](scope)
        if isinstance(s, ast.Return):
            if k.get("ret") is None:
                self.err(s, "return inside a loop is not supported")
            return k["ret"](s, scope)
        if isinstance(s, ast.If):
            c, g = self.as_bool(self.expr(s.test, scope))
            # both branches continue with the rest of the block (duplicated: kernels are tiny)
            th = self.block(list(s.body) + rest, scope, k)
            el = self.block(list(s.orelse) + rest, scope, k)
            return self.guard(g, "if %s then\n%s\nelse\n%s" % (c, th, el))
        if isinstance(s, ast.For):
            return self.for_loop(s, rest, scope, k)
        if isinstance(s, ast.While):
            return self.while_loop(s, rest, scope, k)
        self.err(s, "unsupported statement")

    def ty(self, t):
        return {"Z": "Z", "list": "list Z"}[t]

    def loop_vars(self, body, scope, exclude=()):
        carried = [n for n in scope if n in self.assigned(body) and n not in exclude]
        ro = [n for n in scope if n in self.reads(body) and n not in carried and n not in exclude]
        return ro, carried

    def tuple_of(self, names):
        if not names:
            return "tt"
        return "(" + ", ".join(vname(n) for n in names) + ")" if len(names) > 1 else vname(names[0])

    def tuple_ty(self, names, scope):
        if not names:
            return "unit"
        return "(" + " * ".join(self.ty(scope[n]) for n in names) + ")"

    def for_loop(self, s, rest, scope, k):
        if s.orelse or not isinstance(s.target, ast.Name):
            self.err(s, "unsupported for loop")
        tgt = s.target.id
        it = s.iter
        lookup = None
        pre_guard = []
        if isinstance(it, ast.Name) and scope.get(it.id) == "list":
            src = vname(it.id)
        elif (isinstance(it, ast.Call) and isinstance(it.func, ast.Name) and it.func.id == "map" and len(it.args) == 2
              and isinstance(it.args[0], ast.Attribute) and it.args[0].attr == "__getitem__"
              and isinstance(it.args[0].value, ast.Name) and it.args[0].value.id in self.tables
              and isinstance(it.args[1], ast.Call) and isinstance(it.args[1].func, ast.Attribute)
              and it.args[1].func.attr == "encode" and isinstance(it.args[1].func.value, ast.Name)
              and scope.get(it.args[1].func.value.id) == "list"
              and len(it.args[1].args) == 1 and isinstance(it.args[1].args[0], ast.Constant) and it.args[1].args[0].value == "ascii"):
            lookup = gname(it.args[0].value.id)
            src = vname(it.args[1].func.value.id)
            pre_guard = ["all_ascii %s" % src]                   # str.encode("ascii") raises on any non-ASCII char, before the loop
        else:
            self.err(s, "unsupported iterable")
        self.nfor += 1
        fname = "%s_for%d" % (self.name, self.nfor)
        ro, carried = self.loop_vars(s.body, scope, exclude=(tgt,))
        inner_scope = {n: scope[n] for n in ro + carried}
        fuel = ["fuel"] if self.uses_fuel and any(isinstance(n, ast.While) for b in s.body for n in ast.walk(b)) else []
        call_args = lambda sc: " ".join(fuel + ["it'"] + [vname(n) for n in ro + carried])
        kk = {"fall": lambda sc: "%s %s" % (fname, call_args(sc)),
              "cont": lambda sc: "%s %s" % (fname, call_args(sc)),
              "brk": None, "ret": None}
        body_scope = dict(inner_scope)
        body_scope[tgt] = "Z"
        body = self.block(list(s.body), body_scope, kk)
        if lookup:
            body = "match getitem %s x0 with\n| None => None\n| Some %s =>\n%s\nend" % (lookup, vname(tgt), body)
            head = "x0"
        else:
            head = vname(tgt)
        params = "".join(" (fuel : nat)" for _ in fuel) + " (it : list Z)" + "".join(" (%s : %s)" % (vname(n), self.ty(scope[n])) for n in ro + carried)
        self.defs.append(
            "Fixpoint %s%s {struct it} : option %s :=\nmatch it with\n| [] => Some %s\n| %s :: it' =>\n%s\nend." % (
                fname, params, self.tuple_ty(carried, scope), self.tuple_of(carried), head, body))
        after = self.block(rest, scope, k)
        site = "match %s %s with\n| None => None\n| Some %s =>\n%s\nend" % (
            fname, " ".join(fuel + [src] + [vname(n) for n in ro + carried]),
            self.tuple_of(carried) if carried else "_", after)
        return self.guard(pre_guard, site)

    def while_loop(self, s, rest, scope, k):
        if s.orelse or not (isinstance(s.test, ast.Constant) and s.test.value is True):
            self.err(s, "only `while True` is supported")
        self.nwhile += 1
        fname = "%s_while%d" % (self.name, self.nwhile)
        ro, carried = self.loop_vars(s.body, scope)
        inner_scope = {n: scope[n] for n in ro + carried}
        again = lambda sc: "%s fuel %s" % (fname, " ".join(vname(n) for n in ro + carried))
        kk = {"fall": again, "cont": again, "brk": lambda sc: "Some %s" % self.tuple_of(carried), "ret": None}
        body = self.block(list(s.body), inner_scope, kk)
        params = " (fuel : nat)" + "".join(" (%s : %s)" % (vname(n), self.ty(scope[n])) for n in ro + carried)
        self.defs.append(
            "Fixpoint %s%s {struct fuel} : option %s :=\nmatch fuel with\n| O => None\n| S fuel =>\n%s\nend." % (
                fname, params, self.tuple_ty(carried, scope), body))
        after = self.block(rest, scope, k)
        return "match %s fuel %s with\n| None => None\n| Some %s =>\n%s\nend" % (
            fname, " ".join(vname(n) for n in ro + carried),
            self.tuple_of(carried) if carried else "_", after)

    # ---------------------------------------------------------------- function
    def ret(self, s, scope):
        e = s.value
        if isinstance(e, ast.Name) and scope.get(e.id) == "list":
            return "Some %s" % vname(e.id)
        # bytes(map(TABLE.__getitem__, xs)).decode()
        if (isinstance(e, ast.Call) and isinstance(e.func, ast.Attribute) and e.func.attr == "decode" and not e.args
                and isinstance(e.func.value, ast.Call) and isinstance(e.func.value.func, ast.Name) and e.func.value.func.id == "bytes"
                and len(e.func.value.args) == 1):
            m = e.func.value.args[0]
            if (isinstance(m, ast.Call) and isinstance(m.func, ast.Name) and m.func.id == "map" and len(m.args) == 2
                    and isinstance(m.args[0], ast.Attribute) and m.args[0].attr == "__getitem__"
                    and isinstance(m.args[0].value, ast.Name) and m.args[0].value.id in self.tables
                    and isinstance(m.args[1], ast.Name) and scope.get(m.args[1].id) == "list"):
                tab = self.tables[m.args[0].value.id]
                if not all(0 <= c < 128 for c in tab):
                    self.err(s, "bytes(...).decode() of a table with non-ASCII entries is not modelled")
                return "map_opt (getitem %s) %s" % (gname(m.args[0].value.id), vname(m.args[1].id))
        self.err(s, "unsupported return value")

    def translate(self):
        a = self.f.args
        if a.kwonlyargs or a.kwarg or a.defaults or a.posonlyargs:
            raise TranslateError("%s: unsupported signature" % self.f.name)
        scope = {}
        params = []
        for p in a.args:
            ann = ast.unparse(p.annotation) if p.annotation else ""
            if ann != "str":
                raise TranslateError("%s: positional argument %s must be annotated str" % (self.f.name, p.arg))
            scope[p.arg] = "list"
            params.append(p.arg)
        if a.vararg:
            ann = ast.unparse(a.vararg.annotation) if a.vararg.annotation else ""
            if ann != "int":
                raise TranslateError("%s: *%s must be annotated int" % (self.f.name, a.vararg.arg))
            scope[a.vararg.arg] = "list"
            params.append(a.vararg.arg)
        k = {"fall": None, "cont": None, "brk": None, "ret": self.ret}
        body = self.block(list(self.f.body), scope, k)
        fuel = " (fuel : nat)" if self.uses_fuel else ""
        top = "Definition %s%s%s : option (list Z) :=\n%s." % (
            self.name, fuel, "".join(" (%s : list Z)" % vname(p) for p in params), body)
        return "\n\n".join(self.defs + [top])


def indent(text):
    """Cosmetic: indent by nesting of match/end and let/if lines."""
    out = []
    depth = 0
    for line in text.splitlines():
        st = line.strip()
        if st.startswith("end"):
            depth = max(0, depth - 1)
        out.append("  " * depth + st)
        if st.startswith("match ") and st.endswith(" with"):
            depth += 1
        if st.startswith("Fixpoint") or st.startswith("Definition"):
            depth = 1
        if st.endswith(".") and (st.startswith("end") or depth == 1 and not st.startswith("Fixpoint") and not st.startswith("Definition")):
            depth = 0
    return "\n".join(out)


def generate(repo):
    """Return the text of Gen/VLQKernel.v for the sourcemap module found under `repo`."""
    path = os.path.join(repo, "pyteal", "compiler", "sourcemap.py")
    src = open(path, encoding="utf-8").read()
    tree = ast.parse(src)
    if repo not in sys.path:
        sys.path.insert(0, repo)
    import importlib
    sm = importlib.import_module("pyteal.compiler.sourcemap")
    if os.path.realpath(sm.__file__) != os.path.realpath(path):
        raise TranslateError("imported module %s is not the file translated (%s)" % (sm.__file__, path))
    ints = {}
    for n in INT_GLOBALS:
        v = getattr(sm, n, None)
        if type(v) is not int:
            raise TranslateError("module constant %s is not an int: %r" % (n, v))
        ints[n] = v
    tables = {}
    for n in TABLE_GLOBALS:
        v = getattr(sm, n, None)
        if isinstance(v, (bytes, bytearray)):
            v = list(v)
        if not (isinstance(v, list) and all(type(x) is int for x in v)):
            raise TranslateError("module table %s is not a list of ints / bytes" % n)
        tables[n] = v
    fdefs = {n.name: n for n in tree.body if isinstance(n, ast.FunctionDef)}
    out = ["(* GENERATED on every run by harness/c15_translate.py from %s — do not edit, not committed." % "pyteal/compiler/sourcemap.py",
           "   Constants and tables: reflection on the imported module.  Functions: ast translation (fail-closed). *)",
           "From Coq Require Import ZArith List Bool.",
           "From PV Require Import Lit.PyInt.",
           "Import ListNotations.",
           "Local Open Scope Z_scope.",
           ""]
    for n in INT_GLOBALS:
        out.append("Definition %s : Z := %s." % (gname(n), zlit(ints[n])))
    for n in TABLE_GLOBALS:
        out.append("Definition %s : list Z := [%s]." % (gname(n), "; ".join(zlit(x) for x in tables[n])))
    out.append("")
    for fn in KERNEL_FUNCS:
        if fn not in fdefs:
            raise TranslateError("function %s not found at module level of %s" % (fn, path))
        # the functions may only mention the known globals, their own locals, and the whitelisted builtins
        t = Fn(fdefs[fn], ints, tables)
        out.append("(* ---- %s, source lines %d-%d ---- *)" % (fn, fdefs[fn].lineno, fdefs[fn].end_lineno))
        out.append(indent(t.translate()))
        out.append("")
    return "\n".join(out)


def regenerate(repo, coq_dir):
    """Write coq/Gen/VLQKernel.v if its text changed. Returns (changed, text)."""
    text = generate(repo)
    d = os.path.join(coq_dir, "Gen")
    os.makedirs(d, exist_ok=True)
    p = os.path.join(d, "VLQKernel.v")
    old = open(p).read() if os.path.exists(p) else None
    if old != text:
        tmp = p + ".%d" % os.getpid()
        open(tmp, "w").write(text)
        os.replace(tmp, p)
        return True, text
    return False, text


if __name__ == "__main__":
    print(generate(os.environ.get("PYTEAL_REPO", "/repo")))
