"""C08 — Router dispatches a call to its handler iff the registration allows it.

1. proofs: Props/C08.v (Router/Dispatch.v model, Proofs/RouterDispatch.v, Proofs/RouterExamples.v)
2. correspondence model <-> pyteal/ast/router.py
   (a) condition level: every MethodConfig (4^6) - constructor acceptance, is_never, approval_cond() as 0 / 1 /
       expression text, and the expression executed on the AVM for OnCompletion 0..5 x ApplicationID 0/77;
       every valid BareCallActions table (4^5) + malformed ones - approval_construction() skeleton and execution
   (b) registration: decorator defaults, never-executed, duplicate signature, colliding selectors
   (c) program level: Routers built through the public API, compile_program at versions 6..10, AST skeleton vs the
       model's program, approval and clear TEAL executed over the full call matrix vs the model's dispatch (exact)
3. semantic oracle, independent of Dispatch.v: `oracle_allowed` (c08_lib) decides what must run for each executed
   call; the extracted Coq `allowed` is cross-checked against it
4. failing-input search with shrinking when anything above breaks; --replay
"""
import copy
import itertools
import json
import multiprocessing
import random
import sys
import time

from common import *  # noqa
import c08_lib as L

ensure_env()

PROOF_FILES = ["Proofs/RouterDispatch.v", "Proofs/RouterExamples.v"]

_W = {}


def worker_state():
    """Per-process pyteal import and model process."""
    if "proc" not in _W:
        import pyteal as pt
        _W["pt"] = pt
        _W["proc"] = L.Proc()
    return _W["pt"], _W["proc"]


# ---------------------------------------------------------------------------------------------
# (a) condition level
# ---------------------------------------------------------------------------------------------
def ctx12():
    return [(oc, appid) for oc in range(6) for appid in (77, 0)]


def cond_bits(proc, teal):
    obs = L.run_calls(proc, teal, [], [([], oc, appid) for oc, appid in ctx12()])
    # Return(cond): approve = true, reject = false
    return "".join({"approves": "1", "rejects": "0", "fails": "x"}.get(o[0], "?") for o in obs)


def oracle_bits_mc(mcd):
    """what the condition must say for oc != ClearState (position 6,7 = ClearState: '.')"""
    out = ""
    for oc, appid in ctx12():
        if oc == 3:
            out += "."
        else:
            out += "1" if L.cc_ok(mcd.get(L.CODE_OC[oc], "never"), appid == 0) else "0"
    return out


def bits_agree(real, oracle):
    return all(o == "." or r == o for r, o in zip(real, oracle))


def job_acond(payload):
    pt, proc = worker_state()
    issues, n = [], 0
    hist = {"rejected": 0, "zero": 0, "one": 0, "expr": 0, "avm_runs": 0}
    for idx, tup in payload["tuples"]:
        mcd = dict(zip(L.OC_NAMES, tup))
        n += 1
        info = proc.ask((S("mcinfo"), L.w_mc(mcd)))
        m_ok, m_never = info[0] == S("true"), info[1] == S("true")
        r = call_real(L.real_mc, pt, mcd)
        if r[0] != "ok":
            hist["rejected"] += 1
            if r[1] != "TealInputError" or m_ok:
                issues.append({"level": "model", "part": "MethodConfig.__post_init__", "mc": mcd, "real": r[1:], "model_accepts": m_ok})
            continue
        if not m_ok:
            issues.append({"level": "model", "part": "MethodConfig.__post_init__", "mc": mcd, "real": "accepted", "model_accepts": False})
            continue
        real = r[1]
        rn = call_real(real.is_never)
        if rn != ("ok", m_never):
            issues.append({"level": "model", "part": "MethodConfig.is_never", "mc": mcd, "real": rn[1:], "model": m_never})
        ra = call_real(real.approval_cond)
        ma = proc.ask((S("acond"), L.w_mc(mcd)))
        m_kind = ma[0].name if isinstance(ma[0], Sym) else ("expr", ma[0][1])
        m_bits = ma[1]
        if ra[0] != "ok":
            issues.append({"level": "model", "part": "MethodConfig.approval_cond", "mc": mcd, "real": ra[1:], "model": repr(m_kind)})
            continue
        ac = ra[1]
        want = oracle_bits_mc(mcd)
        if isinstance(ac, int) and not isinstance(ac, pt.Expr):
            r_kind = {0: "zero", 1: "one"}.get(ac, "int %r" % ac)
            r_bits = {0: "0" * 12, 1: "1" * 12}.get(ac, "?" * 12)
            hist[r_kind if r_kind in hist else "zero"] += 1
        else:
            r_kind = ("expr", str(ac))
            hist["expr"] += 1
            v = 6 + idx % 5
            rc = call_real(lambda: pt.compileTeal(pt.Return(ac), pt.Mode.Application, version=v, assembleConstants=bool((idx // 5) % 2)))
            if rc[0] != "ok":
                issues.append({"level": "model", "part": "approval_cond expression does not compile", "mc": mcd, "real": rc[1:]})
                continue
            r_bits = cond_bits(proc, rc[1])
            hist["avm_runs"] += 12
        if r_kind != m_kind:
            issues.append({"level": "model", "part": "MethodConfig.approval_cond (form)", "mc": mcd, "real": repr(r_kind), "model": repr(m_kind)})
        if r_bits != m_bits:
            issues.append({"level": "model", "part": "MethodConfig.approval_cond (truth table)", "mc": mcd, "real": r_bits, "model": m_bits})
        # is_never configurations are refused at registration: their condition is never used
        if not bits_agree(r_bits, want) and not (rn[0] == "ok" and rn[1] and r_bits == "0" * 12):
            issues.append({"level": "oracle-cond", "part": "approval_cond truth table vs CallConfig meaning", "mc": mcd, "real": r_bits, "expected": want})
    return {"n": n, "issues": issues, "hist": hist}


def bare_outcomes(proc, teal):
    out = ""
    for o in L.run_calls(proc, teal, [], [([], oc, appid) for oc, appid in ctx12()]):
        out += {"runs": "h%d;" % o[1] if o[0] == "runs" else "", "rejects": "r;", "fails": "f;"}.get(o[0], "?;")
    return out


def oracle_bare_outcomes(bare):
    out = []
    for oc, appid in ctx12():
        if oc == 3:
            out.append(None)
            continue
        act = bare.get(L.CODE_OC[oc])
        out.append("h%d" % L.bare_hid(L.CODE_OC[oc]) if act is not None and L.cc_ok(act[1], appid == 0) else "no")
    return out


def job_bare(payload):
    pt, proc = worker_state()
    issues, n, runs = [], 0, 0
    for idx, bare in payload["tables"]:
        n += 1
        r = call_real(L.real_bare, pt, bare)
        if r[0] != "ok":
            issues.append({"level": "model", "part": "BareCallActions constructor refuses a valid table", "bare": bare, "real": r[1:]})
            continue
        rb = r[1]
        rc = call_real(rb.approval_construction)
        mb = proc.ask((S("bare"), L.w_ba(bare)))
        if rc[0] != "ok":
            issues.append({"level": "model", "part": "approval_construction raises", "bare": bare, "real": rc[1:]})
            continue
        if rc[1] is None or mb == S("none"):
            if not (rc[1] is None and mb == S("none")):
                issues.append({"level": "model", "part": "approval_construction None-ness", "bare": bare, "real": str(rc[1])[:200], "model": repr(mb)[:200]})
            re_ = call_real(rb.is_empty)
            if rc[1] is None and re_ != ("ok", True):
                issues.append({"level": "model", "part": "BareCallActions.is_empty", "bare": bare, "real": re_[1:]})
            continue
        names = {"bare_" + oc: L.bare_hid(oc) for oc in bare}
        sk = call_real(L.skeleton, pt, rc[1], names)
        if sk[0] != "ok" or sk[1] != mb[1]:
            issues.append({"level": "model", "part": "approval_construction skeleton", "bare": bare, "real": repr(sk[1])[:600], "model": repr(mb[1])[:600]})
        v = 6 + idx % 5
        rt = call_real(lambda: pt.compileTeal(rc[1], pt.Mode.Application, version=v, assembleConstants=bool((idx // 5) % 2)))
        if rt[0] != "ok":
            issues.append({"level": "model", "part": "bare-call Cond does not compile", "bare": bare, "real": rt[1:]})
            continue
        got = bare_outcomes(proc, rt[1])
        runs += 12
        if got != mb[2]:
            issues.append({"level": "model", "part": "approval_construction outcomes", "bare": bare, "real": got, "model": mb[2]})
        for g, w, (oc, appid) in zip(got.split(";"), oracle_bare_outcomes(bare), ctx12()):
            if w is None:
                continue
            if (w != "no" and g != w) or (w == "no" and g not in ("r", "f")):
                issues.append({"level": "oracle-cond", "part": "bare-call Cond vs the registered action", "bare": bare, "oc": oc, "appid": appid, "real": g, "expected": w})
    return {"n": n, "issues": issues, "runs": runs}


# ---------------------------------------------------------------------------------------------
# (c) program level
# ---------------------------------------------------------------------------------------------
def oracle_verdict(exp, obs):
    """exp: handler id or None. obs: observed outcome."""
    if exp is not None:
        return obs == ("runs", exp)
    return obs[0] in ("rejects", "fails")


def check_program(pt, proc, cfg, combos, extras=(0, 1, 2), stop_early=False, router=None, session=None):
    """Build the router of cfg once (or take the given one: a router SESSION that has been compiled before with fewer
    registrations - `session` records those earlier compilations), compile it for every (version, optimize) of combos,
    compare with the model and the oracle over the call matrix. Returns (issues, stats)."""
    issues = []
    stats = {"avm_runs": 0, "compiles": 0, "runs_handler": 0, "rejected": 0, "struct": 0}
    if router is None:
        rb = call_real(L.build_router, pt, cfg)
        if rb[0] != "ok":
            issues.append({"level": "model", "part": "registration of a configuration the model accepts", "cfg": cfg, "real": rb[1:]})
            return issues, stats
        router = rb[1]
    sigs = [L.method_sig(m) for m in cfg["methods"]]
    wcfg = L.w_cfg(cfg)
    ok = proc.ask((S("cfgok"), wcfg))
    if ok != S("true"):
        issues.append({"level": "spec", "part": "generated configuration is not cfg_ok in the model", "cfg": cfg})
        return issues, stats
    calls = L.call_matrix(cfg, extras)
    clear_calls = [(lab, args, oc, appid, d) for (lab, args, d) in L.arg_shapes(cfg, (0,)) for oc in (3, 0) for appid in (77, 0)]
    mt = proc.ask((S("table"), wcfg) + tuple(L.w_call(a, oc, appid) for _, a, oc, appid, _d in calls))[1:]
    mc_ = proc.ask((S("clear"), wcfg) + tuple(L.w_call(a, oc, appid) for _, a, oc, appid, _d in clear_calls))[1:]
    mprog = proc.ask((S("program"), wcfg))
    names = L.handler_names(cfg)
    # the extracted Coq specification against the independent oracle
    for (lab, args, oc, appid, desc), row in zip(calls, mt):
        if oc != 3 and L.p_opt(row[1]) != L.oracle_allowed(cfg, args, oc, appid):
            issues.append({"level": "spec", "part": "Coq allowed vs python oracle", "cfg": cfg, "call": [lab, oc, appid],
                           "coq": L.p_opt(row[1]), "python": L.oracle_allowed(cfg, args, oc, appid)})
    for version, opt in combos:
        rc = call_real(lambda: L.compile_router(pt, router, version, opt))
        stats["compiles"] += 1
        base = {"cfg": cfg, "version": version, "opt": opt}
        if session:
            base["session"] = [list(x) for x in session]
        if rc[0] != "ok":
            issues.append(dict(base, level="oracle", part="compile_program raises", real=rc[1:], program="approval", args=None))
            continue
        approval, clear, contract = rc[1]
        rs = call_real(lambda: [m.get_signature() for m in contract.methods])
        if rs != ("ok", sigs):
            issues.append(dict(base, level="model", part="contract methods differ from the registered ones", real=rs[1:], expected=sigs))
        msel = [(s, L.selector(s)) for s in set(re.findall(r'^method "([^"]*)"', approval + "\n" + clear, re.M))]
        # structure
        ra = call_real(lambda: router._build_program(version=version, optimize=L.optimize_of(pt, opt)))
        call_real(router._clean)
        if ra[0] == "ok":
            stats["struct"] += 1
            sk_a = call_real(L.skeleton, pt, ra[1][0], names)
            sk_c = call_real(L.skeleton, pt, ra[1][1], names)
            if sk_a != ("ok", mprog[0]):
                issues.append(dict(base, level="model", part="approval program skeleton", real=repr(sk_a[1])[:1500], model=repr(mprog[0])[:1500]))
            if sk_c != ("ok", mprog[1]):
                issues.append(dict(base, level="model", part="clear-state program skeleton", real=repr(sk_c[1])[:600], model=repr(mprog[1])[:600]))
        # behaviour: approval
        obs_a = L.run_calls(proc, approval, msel, [(a, oc, appid) for _, a, oc, appid, _d in calls])
        obs_c = L.run_calls(proc, clear, msel, [(a, oc, appid) for _, a, oc, appid, _d in clear_calls])
        for (lab, args, oc, appid, desc), row, obs in zip(calls, mt, obs_a):
            stats["avm_runs"] += 1
            rec = dict(base, program="approval", label=lab, desc=desc, args=[a.hex() for a in args], oc=oc, appid=appid, observed=list(obs))
            if obs[0] == "anomaly":
                issues.append(dict(rec, level="anomaly", part="AVM run inconclusive"))
                continue
            if obs[0] == "runs":
                stats["runs_handler"] += 1
            else:
                stats["rejected"] += 1
            if oc != 3:
                exp = L.oracle_allowed(cfg, args, oc, appid)
                if not oracle_verdict(exp, obs):
                    issues.append(dict(rec, level="oracle", part="approval program vs registration", expected=exp))
            if obs != L.p_outcome(row[0]):
                issues.append(dict(rec, level="model", part="approval program vs Dispatch.dispatch", model=list(L.p_outcome(row[0]))))
        # behaviour: clear state
        for (lab, args, oc, appid, desc), row, obs in zip(clear_calls, mc_, obs_c):
            stats["avm_runs"] += 1
            rec = dict(base, program="clear", label=lab, desc=desc, args=[a.hex() for a in args], oc=oc, appid=appid, observed=list(obs))
            if obs[0] == "anomaly":
                issues.append(dict(rec, level="anomaly", part="AVM run inconclusive"))
                continue
            exp = L.oracle_clear(cfg)
            if not oracle_verdict(exp, obs):
                issues.append(dict(rec, level="oracle", part="clear-state program vs clear_state action", expected=exp))
            if obs != L.p_outcome(row[0]):
                issues.append(dict(rec, level="model", part="clear-state program vs Dispatch.dispatch_clear", model=list(L.p_outcome(row[0]))))
        if stop_early and issues:
            break
    return issues, stats


def check_session(pt, proc, cfg, stages, extras=(0, 1)):
    """A Router used over time: stages = [(number of methods registered so far, [(version, opt) ...]) ...], the last
    stage registering all of them. After every stage each compilation is judged against ALL registrations made so
    far (oracle + model of that configuration = what a fresh router with the same registrations does)."""
    issues, tot = [], {}
    names = [m["name"] for m in cfg["methods"]]
    rb = call_real(L.build_router, pt, cfg, names[:stages[0][0]])
    if rb[0] != "ok":
        return [{"level": "model", "part": "registration of a configuration the model accepts", "cfg": cfg, "real": rb[1:]}], tot
    router = rb[1]
    done = stages[0][0]
    session = []
    for n, combos in stages:
        for m in cfg["methods"][done:n]:
            ra = call_real(L.add_method, pt, router, m)
            if ra[0] != "ok":
                return issues + [{"level": "model", "part": "registration after a compilation", "cfg": cfg, "real": ra[1:]}], tot
        done = max(done, n)
        stage_cfg = dict(cfg, methods=cfg["methods"][:done])
        for combo in combos:
            iss, st = check_program(pt, proc, stage_cfg, [combo], extras, router=router, session=session)
            issues += iss
            for k, v in st.items():
                tot[k] = tot.get(k, 0) + v
            session = session + [(names[:done], combo[0], combo[1])]
    return issues, tot


def gen_session(rng, thorough=False):
    cfg = L.gen_cfg(rng, nmeth=rng.choice([2, 2, 3, 4]))
    n = len(cfg["methods"])
    cuts = sorted(set(rng.sample(range(0, n), rng.choice([1, 1, 2]) if n > 2 else 1))) + [n]
    opts = [None, (True, None, False), (None, None, True), (None, True, False), (False, False, False)]
    stages = []
    v0 = rng.choice(range(6, 11))
    for c in cuts:
        # same version/options as the previous compile (caches keyed by nothing) and a different one
        combos = [(v0, None)] + ([(rng.choice(range(6, 11)), rng.choice(opts))] if rng.random() < 0.6 else [])
        combos = [(v, (o if (o is None or v >= 8 or o[1] in (None, False)) else (o[0], None, o[2]))) for v, o in combos]
        stages.append((c, combos))
    return cfg, stages


def job_session(payload):
    pt, proc = worker_state()
    all_issues, tot = [], {}
    for cfg, stages in payload["items"]:
        issues, stats = check_session(pt, proc, cfg, stages)
        all_issues += issues[:40]
        for k, v in stats.items():
            tot[k] = tot.get(k, 0) + v
    return {"n": len(payload["items"]), "issues": all_issues, "stats": tot}


def job_prog(payload):
    pt, proc = worker_state()
    all_issues = []
    tot = {}
    for cfg, combos, extras in payload["items"]:
        issues, stats = check_program(pt, proc, cfg, combos, extras)
        all_issues += issues[:40]
        for k, v in stats.items():
            tot[k] = tot.get(k, 0) + v
    return {"n": len(payload["items"]), "issues": all_issues, "stats": tot}


# ---------------------------------------------------------------------------------------------
# (b) registration
# ---------------------------------------------------------------------------------------------
def find_collision():
    """Two distinct signatures with the same 4-byte selector (birthday search, deterministic)."""
    seen = {}
    for i in range(2000000):
        s = "c%d()void" % i
        d = L.selector(s)
        if d in seen:
            return seen[d], s
        seen[d] = s
    return None


def registration_checks(ck, pt, proc, thorough):
    issues = []
    none_bare = L.w_ba({})

    def model_reg(ms, bare=none_bare, clear=S("none")):
        r = proc.ask((S("register"), bare, clear, tuple(ms)))
        return "ok" if r[0] == S("ok") else r[1].name

    def void_fn(name):
        def fn():
            return pt.Log(pt.Bytes("x"))
        fn.__name__ = name
        return fn

    # decorator defaults
    opts = [None] + L.CCS
    combos = list(itertools.product(opts, repeat=5))
    if not thorough:
        rng = random.Random(ck.seed + 808)
        combos = [c for c in combos if sum(x is not None for x in c) <= 1] + rng.sample(combos, 500)
    for combo in combos:
        for clear in ([None] if ck.rng.random() < 0.9 else [ck.rng.choice(L.CCS)]):
            kw = {oc: v for oc, v in zip(L.OC5, combo) if v is not None}
            if clear is not None:
                kw["clear_state"] = clear
            six = list(combo[:3]) + [clear] + list(combo[3:])
            md = proc.ask((S("decorator"),) + tuple(S("none") if v is None else S(v) for v in six))
            if md[0] == S("ok"):
                mreg = model_reg([(S("m"), L.selector("d()void"), md[1], 0)])
                m_out = ("ok", [a.name for a in md[1][1:]]) if mreg == "ok" else ("err", mreg)
            else:
                m_out = ("err", md[1].name)

            def real():
                r = pt.Router("d")
                r.method(**{k: L.real_cc(pt, v) for k, v in kw.items()})(void_fn("d"))
                mc = r.method_configs["d()void"]
                return [pt.CallConfig(getattr(mc, oc)).name.lower() for oc in L.OC_NAMES]
            rr = call_real(real)
            ck.count(("decorator", combo, clear))
            r_out = ("ok", rr[1]) if rr[0] == "ok" else ("err", rr[1])
            same = (r_out == m_out) if r_out[0] == "ok" else (m_out[0] == "err" and rr[1] == "TealInputError")
            if not same:
                issues.append({"level": "model", "part": "Router.method defaults / refusal", "kwargs": kw, "real": r_out, "model": m_out})
    # add_method_handler default config
    def real_default():
        r = pt.Router("d")
        r.add_method_handler(pt.ABIReturnSubroutine(void_fn("d")))
        mc = r.method_configs["d()void"]
        return [pt.CallConfig(getattr(mc, oc)).name.lower() for oc in L.OC_NAMES]
    rr = call_real(real_default)
    ck.count("add-default")
    if rr != ("ok", ["call", "never", "never", "never", "never", "never"]):
        issues.append({"level": "model", "part": "add_method_handler default MethodConfig", "real": rr[1:]})

    # refusals: never-executed, duplicate signature, colliding selectors; acceptance of an overload
    coll = find_collision()
    ck.coverage["selector_collision_pair"] = coll
    cases = [
        ("never", [("n0", {})], "never-executed"),
        ("dup", [("m0", {"no_op": "call"}), ("m0", {"opt_in": "all"})], "re-registering"),
        ("three-dup", [("m0", {"no_op": "call"}), ("m1", {"no_op": "call"}), ("m0", {"no_op": "all"})], "re-registering"),
        ("distinct", [("m0", {"no_op": "call"}), ("m1", {"no_op": "call"})], "ok"),
    ]
    if coll:
        a, b = coll[0][:-6], coll[1][:-6]
        cases.append(("collision", [(a, {"no_op": "call"}), (b, {"no_op": "call"})], "re-registering"))
        cases.append(("collision-rev", [(b, {"no_op": "all"}), ("m7", {"opt_in": "call"}), (a, {"no_op": "call"})], "re-registering"))
    for label, ms, want in cases:
        def real():
            r = pt.Router("d")
            for name, mc in ms:
                r.add_method_handler(pt.ABIReturnSubroutine(void_fn(name)), method_config=L.real_mc(pt, mc))
            return "ok"
        rr = call_real(real)
        m = model_reg([(S("m"), L.selector(name + "()void"), L.w_mc(mc), k) for k, (name, mc) in enumerate(ms)])
        ck.count(("registration", label))
        real_out = "ok" if rr[0] == "ok" else rr[1]
        if m != want:
            ck.model_problem("model registration of case %s gives %s, expected %s" % (label, m, want))
        if (m == "ok") != (real_out == "ok") or (real_out not in ("ok", "TealInputError")):
            issues.append({"level": "model", "part": "add_method_handler refusal (%s)" % label, "methods": ms, "real": rr[1:] if rr[0] != "ok" else "ok", "model": m})
    # overloads: same name, different arguments -> two different signatures, both registered
    def real_overload():
        r = pt.Router("d")
        def f1():
            return pt.Log(pt.Bytes("x"))
        f1.__name__ = "ov"
        def f2(a: pt.abi.Uint64):
            return pt.Log(pt.Bytes("y"))
        f2.__name__ = "ov"
        r.add_method_handler(pt.ABIReturnSubroutine(f1))
        r.add_method_handler(pt.ABIReturnSubroutine(f2))
        return sorted(r.method_sig_to_selector)
    rr = call_real(real_overload)
    ck.count("overload")
    if rr != ("ok", ["ov()void", "ov(uint64)void"]):
        issues.append({"level": "model", "part": "overloaded method names", "real": rr[1:]})

    # malformed bare-action tables
    def bad_bare(fn):
        return call_real(fn)
    h = lambda: pt.Log(pt.Bytes("B"))
    bad = [
        ("action-with-never", lambda: pt.OnCompleteAction(action=h(), call_config=pt.CallConfig.NEVER), (S("ba"), L.w_oca(1, "never")) + (L.w_oca(None, "never"),) * 5, "action-contradicts"),
        ("call-without-action", lambda: pt.OnCompleteAction(call_config=pt.CallConfig.CALL), (S("ba"), L.w_oca(None, "call")) + (L.w_oca(None, "never"),) * 5, "action-contradicts"),
        ("all-without-action", lambda: pt.OnCompleteAction(call_config=pt.CallConfig.ALL), (S("ba"),) + (L.w_oca(None, "never"),) * 4 + (L.w_oca(None, "all"), L.w_oca(None, "never")), "action-contradicts"),
        ("bare-clear-state", lambda: pt.BareCallActions(clear_state=pt.OnCompleteAction.call_only(h())), (S("ba"),) + (L.w_oca(None, "never"),) * 3 + (L.w_oca(3, "call"),) + (L.w_oca(None, "never"),) * 2, "bare-clear-state"),
        ("bare-clear-state-all", lambda: pt.BareCallActions(no_op=pt.OnCompleteAction.always(h()), clear_state=pt.OnCompleteAction.always(h())), (S("ba"), L.w_oca(1, "all")) + (L.w_oca(None, "never"),) * 2 + (L.w_oca(3, "all"),) + (L.w_oca(None, "never"),) * 2, "bare-clear-state"),
    ]
    for label, fn, wire, want in bad:
        rr = call_real(fn)
        m = model_reg([], bare=wire)
        ck.count(("bad-bare", label))
        if m != want:
            ck.model_problem("model refusal of %s is %s, expected %s" % (label, m, want))
        if not (rr[0] == "exc" and rr[1] == "TealInputError"):
            issues.append({"level": "model", "part": "malformed bare action accepted (%s)" % label, "real": repr(rr)[:200], "model": m})
    return issues


# ---------------------------------------------------------------------------------------------
# search / shrink / replay
# ---------------------------------------------------------------------------------------------
def violates(pt, proc, cfg, version, opt, program, args, oc, appid, session=None):
    """Does this single call still contradict the oracle on the real implementation? -> (bool, observed)
    session: earlier compilations of the same Router [(names of the methods registered by then, version, opt) ...];
    the remaining methods are registered afterwards and the program of the final compilation is judged."""
    if session:
        first = set(session[0][0])
        rb = call_real(L.build_router, pt, cfg, first)
        if rb[0] != "ok":
            return False, ("build", rb[1])
        have = set(m["name"] for m in cfg["methods"] if m["name"] in first)
        for names_, v_, o_ in session:
            for m in cfg["methods"]:
                if m["name"] in names_ and m["name"] not in have:
                    if call_real(L.add_method, pt, rb[1], m)[0] != "ok":
                        return False, ("build", "late registration")
                    have.add(m["name"])
            call_real(lambda: L.compile_router(pt, rb[1], v_, o_))
        for m in cfg["methods"]:
            if m["name"] not in have:
                if call_real(L.add_method, pt, rb[1], m)[0] != "ok":
                    return False, ("build", "late registration")
    else:
        rb = call_real(L.build_router, pt, cfg)
    if rb[0] != "ok":
        return False, ("build", rb[1])
    rc = call_real(lambda: L.compile_router(pt, rb[1], version, opt))
    if rc[0] != "ok":
        return False, ("compile", rc[1])
    approval, clear, _ = rc[1]
    teal = approval if program == "approval" else clear
    msel = [(s, L.selector(s)) for s in set(re.findall(r'^method "([^"]*)"', teal, re.M))]
    obs = L.run_call(proc, teal, msel, args, oc, appid)
    if obs[0] == "anomaly":
        return False, obs
    exp = L.oracle_allowed(cfg, args, oc, appid) if program == "approval" else L.oracle_clear(cfg)
    return (not oracle_verdict(exp, obs)), (obs, exp, teal)


def shrink(pt, proc, issue):
    """Greedy minimisation of configuration and call; the call stays symbolic (selector of method <name> with
    decodable arguments / raw first argument / none) so that shapes and names can change underneath it."""
    cfg, version, opt = issue["cfg"], issue["version"], issue["opt"]
    program, oc, appid = issue["program"], issue["oc"], issue["appid"]
    desc = dict(issue.get("desc") or {"first": ("raw:" + issue["args"][0]) if issue["args"] else "none", "extras": max(0, len(issue["args"]) - 1)})
    session = [list(x) for x in issue.get("session") or []]

    def test(c, d, o, sess=None):
        a = L.materialize(c, d)
        if a is None:
            return False, None
        return violates(pt, proc, c, version, o, program, a, oc, appid, session=session if sess is None else sess)
    bad, info = test(cfg, desc, opt)
    if bad and session:
        # does it need the session at all?
        b0, i0 = test(cfg, desc, opt, sess=[])
        if b0:
            session, info = [], i0
    if not bad:
        return None
    progress = True
    while progress:
        progress = False
        for c in L.shrink_cfg_steps(cfg):
            b2, i2 = test(c, desc, opt)
            if b2:
                cfg, info, progress = c, i2, True
                break
        if not progress and desc["extras"] > 0:
            d2 = dict(desc, extras=desc["extras"] - 1)
            b2, i2 = test(cfg, d2, opt)
            if b2:
                desc, info, progress = d2, i2, True
        if not progress and opt is not None and (opt[0] is not None or opt[1] is not None):
            o2 = (None, None, True) if L.asm_of(opt) else None
            b2, i2 = test(cfg, desc, o2)
            if b2:
                opt, info, progress = o2, i2, True
        if not progress and opt is not None:
            b2, i2 = test(cfg, desc, None)
            if b2:
                opt, info, progress = None, i2, True
        if not progress and len(session) > 1:
            for k in range(len(session)):
                s2 = session[:k] + session[k + 1:]
                b2, i2 = test(cfg, desc, opt, sess=s2)
                if b2:
                    session, info, progress = s2, i2, True
                    break
        if not progress:
            for k, (nm, v_, o_) in enumerate(session):
                if o_ is not None:
                    s2 = session[:k] + [[nm, v_, None]] + session[k + 1:]
                    b2, i2 = test(cfg, desc, opt, sess=s2)
                    if b2:
                        session, info, progress = s2, i2, True
                        break
    obs, exp, teal = info
    args = L.materialize(cfg, desc)
    return {"kind": "dispatch", "cfg": cfg, "version": version, "opt": opt, "program": program, "args": [a.hex() for a in args],
            "call": desc, "oc": oc, "appid": appid, "expected_handler": exp, "observed": list(obs), "teal": teal.split("\n"),
            "session": [[[n for n in nm if any(m["name"] == n for m in cfg["methods"])], v_, o_] for nm, v_, o_ in session]}


def describe(rep):
    exp = rep["expected_handler"]
    o = rep.get("opt")
    opts = "" if o is None else " (scratch_slots=%s, frame_pointers=%s, assemble_constants=%s)" % (o[0], o[1], L.asm_of(o))
    if rep.get("session"):
        opts += " of a Router compiled before (%s) and extended since" % "; ".join("v%s with methods %s" % (v_, nm) for nm, v_, o_ in rep["session"])
    return "%s program at v%d%s: call args=%s OnCompletion=%d ApplicationID=%d %s but observed %s" % (
        rep["program"], rep["version"], opts, rep["args"], rep["oc"], rep["appid"],
        ("must run handler %s only" % L.handler_tag(exp)) if exp is not None else "must be rejected", rep["observed"])


def directed_search(pt, proc, model_issues, rng, budget=60):
    """Configurations built around the cases on which model and code disagree, full matrix, every version."""
    cfgs = []
    for it in model_issues:
        if "mc" in it:
            mc = {k: v for k, v in it["mc"].items() if v != "never" and k != "clear_state"}
            if mc:
                cfgs.append({"bare": {}, "clear": None, "methods": [{"name": "m0", "hid": 0, "shape": "v0", "mc": mc, "via": "add"}]})
                cfgs.append({"bare": {oc: ["expr", "all"] for oc in L.OC5}, "clear": "expr",
                             "methods": [{"name": "m0", "hid": 0, "shape": "v0", "mc": mc, "via": "decorator"},
                                         {"name": "m1", "hid": 1, "shape": "v0", "mc": {oc: "all" for oc in L.OC5}, "via": "add"}]})
        if "bare" in it and isinstance(it["bare"], dict):
            cfgs.append({"bare": copy.deepcopy(it["bare"]), "clear": None, "methods": []})
            cfgs.append({"bare": copy.deepcopy(it["bare"]), "clear": "expr",
                         "methods": [{"name": "m0", "hid": 0, "shape": "v0", "mc": {oc: "all" for oc in L.OC5}, "via": "add"}]})
        if "cfg" in it:
            cfgs.append(copy.deepcopy(it["cfg"]))
        if "default" in it.get("part", ""):
            for via in ("default_decorator", "default_add"):
                cfgs.append({"bare": {}, "clear": None, "methods": [{"name": "m0", "hid": 0, "shape": "v0", "mc": {"no_op": "call"}, "via": via}]})
    seen, found, tried = set(), [], 0
    # Router.method keyword sets on which code and model disagree: register on the real code with the keywords as the
    # user wrote them and judge every call against the registration AS WRITTEN (no keyword -> no_op=CALL; otherwise
    # the missing ones are NEVER; all NEVER -> no call with that selector may run the handler)
    for it in model_issues:
        if "kwargs" not in it:
            continue
        kw = {k: v for k, v in it["kwargs"].items() if k != "clear_state"}
        if "clear_state" in it["kwargs"]:
            continue        # refused by the constructors; nothing to dispatch
        written = {"no_op": "call"} if not it["kwargs"] else {k: v for k, v in kw.items() if v != "never"}
        for bare in ({}, {"opt_in": ["expr", "all"]}):
            cfg = {"bare": bare, "clear": None,
                   "methods": [{"name": "m0", "hid": 0, "shape": "v0", "mc": written, "via": "decorator_kw", "kw": kw}]}
            tried += 1
            args = [L.selector("m0()void")]
            for oc in (0, 1, 2, 4, 5):
                for appid in (77, 0):
                    bad, info = violates(pt, proc, cfg, 8, None, "approval", args, oc, appid)
                    if bad:
                        found.append({"cfg": cfg, "version": 8, "opt": None, "program": "approval", "args": [a.hex() for a in args],
                                      "desc": {"first": "sel:m0", "extras": 0}, "oc": oc, "appid": appid, "level": "oracle"})
            if found:
                return found[:3], tried
    # registrations the model refuses but the code accepts (duplicate signature / colliding selectors): call every
    # method of such a router on what its own MethodConfig allows
    for it in model_issues:
        if it.get("part", "").startswith("add_method_handler refusal") and it.get("real") == "ok":
            for variant in (0, 1):
                ms = [{"name": name, "hid": k, "shape": "v0", "via": "add",
                       "mc": (mc if variant == 0 else ({"no_op": "call"} if k == 0 else {"opt_in": "call", "delete_application": "create"}))}
                      for k, (name, mc) in enumerate(it["methods"])]
                cfg = {"bare": {}, "clear": None, "methods": ms}
                tried += 1
                for m in ms:
                    for oc_name, cc in m["mc"].items():
                        for appid in (0, 77):
                            args = [L.selector(L.method_sig(m))]
                            bad, info = violates(pt, proc, cfg, 8, None, "approval", args, L.OC_CODE[oc_name], appid)
                            if bad:
                                found.append({"cfg": cfg, "version": 8, "opt": None, "program": "approval", "args": [a.hex() for a in args],
                                              "desc": {"first": "raw:" + args[0].hex(), "extras": 0}, "oc": L.OC_CODE[oc_name], "appid": appid,
                                              "level": "oracle"})
                if found:
                    return found, tried
    for cfg in cfgs:
        key = json.dumps(cfg, sort_keys=True)
        if key in seen:
            continue
        seen.add(key)
        if tried >= budget:
            break
        tried += 1
        issues, _ = check_program(pt, proc, cfg, [(v, None) for v in range(6, 11)], stop_early=True)
        found += [i for i in issues if i["level"] == "oracle" and i.get("args") is not None]
        if found:
            break
    return found, tried


def replay(path, ck, pt):
    data = json.load(open(path))
    if data.get("kind") != "dispatch":
        print(json.dumps(data, indent=1)[:4000])
        return 1
    proc = L.Proc()
    bad, info = violates(pt, proc, data["cfg"], data["version"], data.get("opt"), data["program"],
                         [bytes.fromhex(a) for a in data["args"]], data["oc"], data["appid"], session=data.get("session"))
    proc.close()
    print("configuration:", json.dumps(data["cfg"]))
    print("call: program=%s version=%s args=%s OnCompletion=%s ApplicationID=%s" % (data["program"], data["version"], data["args"], data["oc"], data["appid"]))
    if bad:
        print("expected handler: %r, observed: %r  -> STILL FAILING" % (info[1], info[0]))
        return 1
    print("observed: %r -> no longer failing" % (info[0],))
    return 0


def open_model(tries=3):
    last = None
    for k in range(tries):
        try:
            return Model("c08")
        except RuntimeError as e:
            last = e
            time.sleep(5 * (k + 1))
            coq_make(["Extract/Main_c08.vo"], tag="C08")
    raise last


# ---------------------------------------------------------------------------------------------
def main(argv):
    args = parse_args(argv)
    ck = Check("C08", args.tier)
    thorough = args.tier == "thorough"
    import pyteal as pt
    if args.replay:
        m = open_model()
        m.close()
        return replay(args.replay, ck, pt)

    ck.coverage["implementation"] = pt.__file__
    ck.run_proofs("Props/C08.v", PROOF_FILES, extra_targets=["Extract/Main_c08.vo"])
    timing = {"proofs_s": round(time.time() - ck.t0, 1)}
    model = open_model()
    model.close()

    rng = ck.rng
    # ---------------- job lists ----------------
    tuples = list(enumerate(itertools.product(L.CCS, repeat=6)))
    acond_jobs = [{"tuples": tuples[i::48]} for i in range(48)]
    tables = []
    for k, combo in enumerate(itertools.product(L.CCS, repeat=5)):
        tables.append((k, {oc: [L.ACTION_KINDS[(k + j) % len(L.ACTION_KINDS)], cc] for j, (oc, cc) in enumerate(zip(L.OC5, combo)) if cc != "never"}))
    bare_jobs = [{"tables": tables[i::32]} for i in range(32)]

    corpus = load_corpus()
    cfgs = [(c, "corpus") for c in corpus]
    smalls = L.small_cfgs()
    cfgs += [(c, "small") for c in smalls]
    n_random = 600 if thorough else 250
    for i in range(n_random):
        cfgs.append((L.gen_cfg(rng), "random"))
    # hand-picked: many methods, all shapes, all-ALL next to bare ALL on every OnCompletion
    cfgs.append(({"bare": {oc: ["expr", "all"] for oc in L.OC5}, "clear": "sub",
                  "methods": [{"name": "m%d" % k, "hid": k, "shape": sh, "mc": {oc: "all" for oc in L.OC5}, "via": "add"}
                              for k, sh in enumerate(["v0", "r0", "a1", "a2r"])]}, "hand"))
    cfgs.append(({"bare": {}, "clear": None, "methods": [{"name": "m%d" % k, "hid": k, "shape": "v0", "mc": L.gen_mc(rng), "via": "decorator"} for k in range(9)]}, "hand"))
    cfgs.append(({"bare": {}, "clear": None, "methods": []}, "hand"))
    cfgs.append(({"bare": {}, "clear": "exprret", "methods": [], "explicit_bare": True}, "hand"))
    for c in L.directed_oc_cfgs():
        cfgs.append((c, "directed"))
    # option triples: (scratch_slots, frame_pointers, assemble_constants)
    all_opts = [None, (True, None, False), (False, False, True), (None, True, False), (True, True, True), (None, None, True)]
    items = []
    src_hist = {}
    for k, (cfg, src) in enumerate(cfgs):
        src_hist[src] = src_hist.get(src, 0) + 1
        if src == "directed":
            # every version with assembled constants, and plain
            combos = [(v, (None, None, True)) for v in range(6, 11)] + [(6 + k % 5, None), (8 + k % 3, (True, True, True))]
        elif thorough or src in ("corpus", "hand"):
            combos = [(v, all_opts[(k + v) % len(all_opts)]) for v in range(6, 11)]
            if src == "hand":
                combos += [(v, None) for v in range(6, 11)] + [(v, (None, None, True)) for v in range(6, 11)]
            if thorough:
                combos += [(6 + (k + 2) % 5, (None, None, True))]
        elif src == "small":
            combos = [(6 + k % 5, None if k % 3 else all_opts[k % 6])]
        else:
            vs = rng.sample(range(6, 11), 2)
            combos = [(v, rng.choice(all_opts)) for v in vs]
        combos = [(v, (o if (o is None or v >= 8 or o[1] in (None, False)) else (o[0], None, o[2]))) for v, o in combos]
        extras = (0, 1, 2) if (thorough or src != "small") else (0, 1)
        items.append((cfg, combos, extras))
    order = list(range(len(items)))
    random.Random(ck.seed).shuffle(order)
    prog_jobs = [{"items": [items[j] for j in order[i::64]]} for i in range(64)]
    # router sessions: compile, register more, compile again
    sessions = []
    for v in range(6, 11):
        demo = {"bare": {"no_op": ["exprret", "create"]}, "clear": "exprret", "methods": [
            {"name": "m0", "hid": 0, "shape": "a2r", "mc": {"no_op": "call"}, "via": "default_decorator"},
            {"name": "m1", "hid": 1, "shape": "a2r", "mc": {"opt_in": "call"}, "via": "decorator"},
            {"name": "m2", "hid": 2, "shape": "v0", "mc": {"delete_application": "all", "no_op": "create"}, "via": "add"}]}
        sessions.append((demo, [(1, [(v, None)]), (2, [(v, None), (6 + (v + 1) % 5, (None, None, True))]), (3, [(v, None)])]))
        sessions.append(({"bare": {}, "clear": None, "methods": demo["methods"][1:]}, [(0, [(v, None)]), (2, [(v, None)])]))
    for i in range(160 if thorough else 50):
        sessions.append(gen_session(rng, thorough))
    session_jobs = [{"items": sessions[i::32]} for i in range(32)]

    # ---------------- run everything over the worker pool ----------------
    t1 = time.time()
    ctxm = multiprocessing.get_context("fork")
    acond_res, bare_res, prog_res = [], [], []
    with ctxm.Pool(NPROC) as pool:
        ra = pool.map_async(job_acond, acond_jobs, chunksize=1)
        rb = pool.map_async(job_bare, bare_jobs, chunksize=1)
        rp = pool.map_async(job_prog, prog_jobs, chunksize=1)
        rs_ = pool.map_async(job_session, session_jobs, chunksize=1)
        pt_, proc = worker_state()
        reg_issues = registration_checks(ck, pt, proc, thorough)
        acond_res, bare_res, prog_res = ra.get(3000), rb.get(3000), rp.get(3000)
        sess_res = rs_.get(3000)
    timing["correspondence_s"] = round(time.time() - t1, 1)

    issues = list(reg_issues)
    hist = {}
    for r in acond_res:
        issues += r["issues"]
        for k, v in r["hist"].items():
            hist[k] = hist.get(k, 0) + v
    for idx, tup in tuples:
        ck.count(("mc", tup))
    bare_runs = 0
    for r in bare_res:
        issues += r["issues"]
        bare_runs += r["runs"]
    for k, t in tables:
        ck.count(("bare", k), nontrivial=bool(t))
    stats = {}
    sess_stats = {}
    for r in sess_res:
        issues += r["issues"]
        for k, v in r["stats"].items():
            sess_stats[k] = sess_stats.get(k, 0) + v
    for cfg_, stages_ in sessions:
        ck.count(("session", json.dumps(cfg_, sort_keys=True), repr(stages_)))
    ck.evaluations += sess_stats.get("avm_runs", 0)
    ck.coverage["sessions"] = dict(sess_stats, sessions=len(sessions), stages_hist=count_hist(len(st) for _, st in sessions))
    for r in prog_res:
        issues += r["issues"]
        for k, v in r["stats"].items():
            stats[k] = stats.get(k, 0) + v
    for cfg, combos, extras in items:
        for c in combos:
            ck.count(("prog", json.dumps(cfg, sort_keys=True), c), nontrivial=bool(cfg["methods"] or cfg["bare"] or cfg["clear"]))
    ck.evaluations += stats.get("avm_runs", 0) + hist.get("avm_runs", 0) + bare_runs
    ck.coverage["condition_level"] = dict(hist, method_configs=len(tuples), bare_tables=len(tables), bare_avm_runs=bare_runs)
    ck.coverage["program_level"] = dict(stats, configurations=len(items), by_source=src_hist,
                                        methods_hist=count_hist(len(c["methods"]) for c, _, _ in items),
                                        bare_hist=count_hist(len(c["bare"]) for c, _, _ in items),
                                        clear_hist=count_hist(str(c["clear"]) for c, _, _ in items),
                                        versions_hist=count_hist(v for _, cs, _ in items for v, _ in cs),
                                        optimize_hist=count_hist(str(o) for _, cs, _ in items for _, o in cs))
    ck.coverage["timing"] = timing
    for cfg, combos, extras in items[:3]:
        ck.sample({"cfg": cfg, "combos": combos})

    # ---------------- classification ----------------
    by = {}
    for it in issues:
        by.setdefault(it["level"], []).append(it)
    ck.coverage["disagreements_checked"] = len(issues)
    for it in by.get("spec", [])[:3]:
        ck.model_problem("%s: %s" % (it["part"], json.dumps(it, default=repr)[:400]))
    anomalies = by.get("anomaly", [])
    if anomalies:
        # an inconclusive AVM run on the unchanged tree is a defect of the machinery; with a changed tree it may be
        # the symptom of a broken program: report as a violation without input if nothing better is found below
        ck.coverage["anomalies"] = [json.dumps(a, default=repr)[:300] for a in anomalies[:5]]

    pt_, proc = worker_state()
    oracle_issues = [i for i in by.get("oracle", []) if i.get("args") is not None]
    compile_issues = [i for i in by.get("oracle", []) if i.get("args") is None]
    reported = 0
    seen_min = set()
    for it in sorted(oracle_issues, key=lambda i: (len(i["cfg"]["methods"]) + len(i["cfg"]["bare"]), len(i["args"])))[:12]:
        rep = shrink(pt, proc, it)
        if rep is None:
            rep = {"kind": "dispatch", "cfg": it["cfg"], "version": it["version"], "opt": it["opt"], "program": it["program"], "args": it["args"],
                   "oc": it["oc"], "appid": it["appid"], "expected_handler": it.get("expected"), "observed": it["observed"], "note": "not reproducible in isolation"}
        key = json.dumps([rep["cfg"], rep["args"], rep["oc"], rep["appid"], rep["program"]], sort_keys=True)
        if key in seen_min:
            continue
        seen_min.add(key)
        known = ck.match_known(lambda f: finding_matches(f, rep))
        if known:
            ck.known(known["id"], known["what"])
            continue
        ck.violation(describe(rep), rep)
        reported += 1
        if reported >= 4:
            break
    for it in compile_issues[:2]:
        ck.violation("Router.compile_program raises %s for a registered configuration at v%d" % (it["real"], it["version"]),
                     {"kind": "compile", "cfg": it["cfg"], "version": it["version"], "opt": it["opt"], "exception": it["real"]})
        reported += 1
    for it in by.get("oracle-cond", [])[:0]:
        pass
    model_issues = by.get("model", []) + by.get("oracle-cond", [])
    if model_issues and not reported and not ck.known_seen:
        found, tried = directed_search(pt, proc, model_issues, rng)
        for it in found[:2]:
            rep = shrink(pt, proc, it)
            if rep:
                ck.violation(describe(rep), rep)
                reported += 1
        if not reported:
            first = model_issues[0]
            parts = sorted(set(i["part"] for i in model_issues))
            ck.violation("correspondence broken: %s (%d disagreements; theorem router_dispatch_correct no longer transfers); "
                         "directed search over %d configurations x versions 6..10 x full call matrix and the %d random configurations found no wrongly dispatched call"
                         % ("; ".join(parts)[:300], len(model_issues), tried, len(items)),
                         {"kind": "correspondence", "broken": parts, "first": first}, no_failing_input=True)
            reported += 1
    if anomalies and not reported:
        ck.model_problem("AVM runs inconclusive: %s" % json.dumps(anomalies[0], default=repr)[:400])
    if not ck.proof_ok and not reported:
        ck.violation("proof obligation broken: Props/C08.v or its lemmas no longer check",
                     {"kind": "proof", "broken": "router_dispatch_correct", "log": ck.proof_log[-1500:]}, no_failing_input=True)

    # ---------------- known findings replay ----------------
    for f in ck.findings:
        w = f.get("witness") or {}
        if w.get("kind") == "dispatch":
            bad, _ = violates(pt, proc, w["cfg"], w["version"], w.get("opt"), w["program"], [bytes.fromhex(a) for a in w["args"]], w["oc"], w["appid"])
            if bad:
                ck.known(f["id"], f["what"])
    proc.close()

    return ck.finish(
        level="proof",
        rule="condition level: all 4^6 MethodConfig tuples (constructor acceptance, is_never, approval_cond form + text + truth table on the AVM for OnCompletion 0..5 x ApplicationID 0/77) "
             "and all %d valid BareCallActions tables (skeleton + execution); registration: decorator keyword combinations, never-executed, duplicate signature, colliding selectors, malformed bare actions; "
             "program level: %d router configurations (corpus, 256 exhaustive-small, random 0..4 methods x 0..5 bare actions x clear_state, hand-picked) compiled with Router.compile_program at versions 6..10 "
             "with/without OptimizeOptions and assemble_constants (a directed set mentioning every OnCompletion as bare action and as method entry is compiled with assembled constants at every version), AST skeleton vs model program, approval+clear TEAL executed on the extracted AVM for first-argument in registered selectors + unknown + 3-byte prefix + 5-byte extension + none, "
             "0..2 extra arguments, OnCompletion 0..5, ApplicationID 0/77 - compared with the model's dispatch (exact) and the independent oracle; "
             "router sessions (%d): one Router compiled, extended by further methods, compiled again (same and other version/options), every compilation judged against all registrations made so far; "
             "a case is distinct by (configuration, version, optimize) resp. tuple/table; non-trivial = something is registered" % (len(tables), len(items), len(sessions)),
        trusted_base=[
            "AVM semantics of txn/txna/method/==/!=/&&/||/assert/err/bnz/bz/b/callsub/retsub/proto/frame_dig/frame_bury/log/return/store/load/btoi/itob/extract/len/concat in coq/AVM (hand-written spec)",
            "Theorems are about Router/Dispatch.v (hand model of the Cond/Assert/Reject skeleton router.py builds); handlers are abstract: 'runs h' = wrap_handler's code then Approve() - "
            "tied to the code by AST-skeleton equality, condition text equality and exact behavioural equality on the executed call matrix, on every run",
            "argument decoding / return logging of routed methods (C09) and the lowering of Cond/Assert/Seq to TEAL (C01) are not part of the model; they are exercised by the AVM runs only",
            "selectors: SHA-512/256 is not modelled; the model takes selectors as data, distinctness is a registration check (collision pair exercised against the real code)",
            "OnCompletion = ClearState is excluded for the approval program (protocol rule), ApplicationID == 0 <=> creation",
            "Extraction: ExtrOcamlBasic + ExtrOcamlNativeString, driver.ml (read-line loop)",
        ])


def count_hist(it):
    h = {}
    for x in it:
        h[str(x)] = h.get(str(x), 0) + 1
    return h


def finding_matches(f, rep):
    """class predicate of a known finding against a minimised failing case"""
    cls = f.get("class_predicate") or {}
    if not cls:
        return False
    for k, v in cls.items():
        if rep.get(k) != v:
            return False
    return True


def load_corpus():
    """minimised configurations of earlier failures (run first, every version)"""
    import os
    p = os.path.join(VERIF, "harness", "corpus", "c08.json")
    if not os.path.exists(p):
        return []
    return json.load(open(p)).get("configurations", [])


import re  # noqa: E402

if __name__ == "__main__":
    sys.exit(run_main(main))
