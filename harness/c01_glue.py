"""C01 glue: the accessor wrappers around the modelled core (Txn/Gtxn/InnerTxn/Gitxn field accessors, Global accessors,
App.* wrappers, AssetHolding/AssetParam/AppParam/AcctParam accessors).  They are one-line forwarding methods, which is where
copy-paste slips live (an accessor forwarding to its neighbour's field, two operands swapped).  The oracle is independent of
PyTeal's own tables: the FIELD a method must read is derived from the method's NAME by the naming convention of the AVM
(snake_case / camelCase -> CamelCase, with id->ID, pk->PK, url->URL), with the few irregular names listed explicitly below;
a wrapper that forwards to a class must build the same expression as the class called with the same arguments in the same order.
Everything here runs against the real code only (no model); a mismatch is a concrete failing input: the accessor."""
import inspect

IRREGULAR_TXN = {
    "global_num_byte_slices": "GlobalNumByteSlice", "global_num_uints": "GlobalNumUint",
    "local_num_byte_slices": "LocalNumByteSlice", "local_num_uints": "LocalNumUint",
}
IRREGULAR_GLOBAL = {"caller_app_address": "CallerApplicationAddress", "caller_app_id": "CallerApplicationID"}
TXN_ARRAYS = {"application_args": ("ApplicationArgs", "NumAppArgs"), "accounts": ("Accounts", "NumAccounts"), "assets": ("Assets", "NumAssets"),
              "applications": ("Applications", "NumApplications"), "logs": ("Logs", "NumLogs"),
              "approval_program_pages": ("ApprovalProgramPages", "NumApprovalProgramPages"),
              "clear_state_program_pages": ("ClearStateProgramPages", "NumClearStateProgramPages")}
UP = {"id": "ID", "pk": "PK", "url": "URL"}


def camel(name):
    return "".join(UP.get(p, p[:1].upper() + p[1:]) for p in name.split("_"))


def camel_from_mixed(name):
    """camelCase or snake_case method name -> CamelCase"""
    if "_" in name or name in UP:
        return camel(name)
    return name[:1].upper() + name[1:]


def check(pt):
    """returns (number of accessors checked, list of problem strings)"""
    problems, n = [], 0
    objs = [("Txn", pt.Txn), ("Gtxn[0]", pt.Gtxn[0]), ("Gtxn[Int(1)]", pt.Gtxn[pt.Int(1)]), ("InnerTxn", pt.InnerTxn), ("Gitxn[0]", pt.Gitxn[0])]
    for oname, obj in objs:
        for name, m in inspect.getmembers(pt.TxnObject, predicate=inspect.isfunction):
            if name.startswith("_") or name in ("makeTxnExpr", "makeTxnaExpr") or len(inspect.signature(m).parameters) != 1:
                continue
            try:
                e = getattr(obj, name)()
            except Exception as ex:  # noqa
                problems.append("%s.%s() raises %s" % (oname, name, type(ex).__name__))
                continue
            n += 1
            want = IRREGULAR_TXN.get(name, camel(name))
            got = getattr(getattr(e, "field", None), "arg_name", None)
            if got != want:
                problems.append("%s.%s() reads transaction field %s; by its name it must read %s" % (oname, name, got, want))
        for name, (acc, ln) in TXN_ARRAYS.items():
            arr = getattr(obj, name, None)
            if arr is None:
                continue
            n += 1
            got = (getattr(getattr(arr, "accessField", None), "arg_name", None), getattr(getattr(arr, "lengthField", None), "arg_name", None))
            if got != (acc, ln):
                problems.append("%s.%s is the array %s with length field %s; by its name it must be %s / %s" % (oname, name, got[0], got[1], acc, ln))
            try:
                el, le = arr[3], arr.length()
                if el.field.arg_name != acc or el.index != 3 or le.field.arg_name != ln:
                    problems.append("%s.%s[3] / .length() read %s[%s] / %s" % (oname, name, el.field.arg_name, el.index, le.field.arg_name))
            except Exception as ex:  # noqa
                problems.append("%s.%s[3] raises %s" % (oname, name, type(ex).__name__))
    for name, m in inspect.getmembers(pt.Global, predicate=lambda x: inspect.ismethod(x) or inspect.isfunction(x)):
        if name.startswith("_"):
            continue
        try:
            e = getattr(pt.Global, name)()
        except Exception:  # noqa
            continue
        n += 1
        want = IRREGULAR_GLOBAL.get(name, camel(name))
        got = getattr(getattr(e, "field", None), "arg_name", None)
        if got != want:
            problems.append("Global.%s() reads global field %s; by its name it must read %s" % (name, got, want))
    # parameter accessors: <Prefix><CamelCase(method)> as the immediate of the *_params_get / asset_holding_get op
    a0 = pt.Int(7)
    for cls, prefix, nargs in ((pt.AssetHolding, "Asset", 2), (pt.AssetParam, "Asset", 1), (pt.AppParam, "App", 1), (pt.AccountParam, "Acct", 1)):
        for name, m in inspect.getmembers(cls, predicate=lambda x: inspect.ismethod(x) or inspect.isfunction(x)):
            if name.startswith("_"):
                continue
            try:
                mv = m(*([pt.Int(1), a0][:nargs]))
                imm = list(mv.immediate_args)
            except Exception:  # noqa
                continue
            n += 1
            want = prefix + camel_from_mixed(name)
            if imm != [want]:
                problems.append("%s.%s(...) reads field %s; by its name it must read %s" % (cls.__name__, name, imm, want))
    # App.box_* wrappers forward to the Box* classes with the same arguments in the same order
    k, x, y, z, w = pt.Bytes("key"), pt.Int(11), pt.Int(22), pt.Bytes("val"), pt.Int(33)
    fwd = [("box_create", (k, x), "BoxCreate"), ("box_delete", (k,), "BoxDelete"), ("box_extract", (k, x, y), "BoxExtract"),
           ("box_replace", (k, x, z), "BoxReplace"), ("box_length", (k,), "BoxLen"), ("box_get", (k,), "BoxGet"), ("box_put", (k, z), "BoxPut"),
           ("box_resize", (k, x), "BoxResize"), ("box_splice", (k, x, y, z), "BoxSplice")]
    for wname, args, cname in fwd:
        wf, cf = getattr(pt.App, wname, None), getattr(pt, cname, None)
        if wf is None or cf is None:
            continue
        n += 1
        try:
            a, b = wf(*args), cf(*args)
            sa, sb = (str(a), str(b)) if not hasattr(a, "immediate_args") else (repr((a.op, a.immediate_args, [str(v) for v in a.args])), repr((b.op, b.immediate_args, [str(v) for v in b.args])))
            if sa != sb:
                problems.append("App.%s%s builds %s; the class %s with the same arguments builds %s" % (wname, tuple(str(v) for v in args), sa[:200], cname, sb[:200]))
        except Exception as ex:  # noqa
            problems.append("App.%s raises %s" % (wname, type(ex).__name__))
    # App state wrappers: the op is named by the method
    state = {"globalGet": "app_global_get", "globalGetEx": "app_global_get_ex", "globalPut": "app_global_put", "globalDel": "app_global_del",
             "localGet": "app_local_get", "localGetEx": "app_local_get_ex", "localPut": "app_local_put", "localDel": "app_local_del", "optedIn": "app_opted_in"}
    argsets = {"globalGet": (k,), "globalGetEx": (x, k), "globalPut": (k, z), "globalDel": (k,), "localGet": (x, k), "localGetEx": (x, y, k),
               "localPut": (x, k, z), "localDel": (x, k), "optedIn": (x, y)}
    for mname, opname in state.items():
        n += 1
        try:
            e = getattr(pt.App, mname)(*argsets[mname])
            blk, _ = e.__teal__(pt.CompileOptions(mode=pt.Mode.Application, version=8))
            ops = [str(o.getOp()) for b in pt.TealBlock.Iterate(blk) for o in b.ops]
            want_args = [str(v) for v in argsets[mname]]
            if opname not in " ".join(ops):
                problems.append("App.%s emits %s; by its name it must emit %s" % (mname, ops, opname))
            got_args = [str(v) for v in getattr(e, "args", [])]
            if got_args and got_args != want_args:
                problems.append("App.%s%s passes its operands as %s" % (mname, tuple(want_args), got_args))
        except Exception as ex:  # noqa
            problems.append("App.%s raises %s: %s" % (mname, type(ex).__name__, str(ex)[:100]))
    return n, problems
