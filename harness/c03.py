"""C03 — compile options change cost and shape, never behaviour."""
import json
import sys

from common import *  # noqa

ensure_env()
from progcorpus import *  # noqa
from gen_subs import gen_sub_program
import c02 as C02
import c03_free

PROOF_FILES = ["Proofs/OptimizeSem.v", "Proofs/OptimizeCorrect.v", "Proofs/OptimizeOptions.v"]


def reserved_scratch(res, builder):
    """final contents of user-numbered (requested-id) slots from a (ran ...) response"""
    ids = sorted(s.id for s in builder.slots.values() if s.isReservedSlot)
    table = {k: v for k, v in res[4][1]} if len(res) > 4 else {}
    return [(i, repr(table.get(i, 0))) for i in ids]


def store_dense_recipe(rng, version, app, low_ids=False):
    """store/load-dense programs over a few variables: segments of stores / uses / adjacent store;load pairs,
    separated by control flow so that they end up in different blocks; some variables have requested ids, some are
    passed by reference or accessed through a DynamicScratchVar-style index"""
    g = Gen(rng, version, app, size=rng.choice([6, 12, 25]))
    keys = ["d%d" % i for i in range(rng.choice([1, 2, 2, 3, 4]))]
    for k in keys:
        g.vars[k] = "u"
    ld = lambda k: ("op", "load", (("slot", k),), "u", ())

    def use(k):
        if app and version >= 5 and rng.random() < 0.7:
            return ("op", "log", (), "n", (("op", "itob", (), "b", (ld(k),)),))
        return ("op", "pop", (), "n", (ld(k),))

    def segment():
        out = []
        for _ in range(rng.choice([1, 2, 3, 4])):
            k = rng.choice(keys)
            kind = rng.choice(["pair", "pair", "pair", "store", "use", "use2", "index"])
            if kind == "pair":
                out.append(("op", "store", (("slot", k),), "n", (g.expr("u", 1),)))
                out.append(rng.choice([use(k), ("op", "store", (("slot", rng.choice(keys)),), "n", (("nary", "+", "u", (ld(k), I(1))),))]))
            elif kind == "store":
                out.append(("op", "store", (("slot", k),), "n", (g.expr("u", 1),)))
            elif kind == "use":
                out.append(use(k))
            elif kind == "use2":
                out.append(("op", "pop", (), "n", (("nary", "+", "u", (ld(k), ld(k))),)))
            elif version >= 5:
                # read the variable through its slot number (what DynamicScratchVar / by-reference passing do)
                out.append(("op", "pop", (), "n", (("op", "loads", (), "u", (("op", "int", (("slot", k),), "u", ()),)),)))
        return out

    stmts = []
    for _ in range(rng.choice([2, 3, 4])):
        seg = segment()
        shape = rng.choice(["plain", "if", "ifelse", "loop", "plain"])
        if shape == "plain":
            stmts += seg
        elif shape == "if":
            stmts.append(("if", g.expr("u", 1), ("seq",) + tuple(seg)))
        elif shape == "ifelse":
            stmts.append(("if", g.expr("u", 1), ("seq",) + tuple(seg), ("seq",) + tuple(segment())))
        else:
            i = g.new_var("u")
            stmts.append(("for", ("op", "store", (("slot", i),), "n", (I(0),)), ("op", "<", (), "u", (ld(i), I(rng.choice([0, 1, 2])))),
                          ("op", "store", (("slot", i),), "n", (("nary", "+", "u", (ld(i), I(1))),)), ("seq",) + tuple(seg)))
    init = tuple(("op", "store", (("slot", k),), "n", (I(0),)) for k in g.vars if rng.random() < 0.85)
    fin = ("return", ld(rng.choice(keys))) if rng.random() < 0.5 else ("exit", I(1))
    reserve = {k: (rng.randrange(0, 5) if low_ids else rng.randrange(0, 256)) for k in keys if rng.random() < (0.6 if low_ids else 0.3)}
    if len(set(reserve.values())) != len(reserve):
        reserve = {}

    def prepare(b):
        for k, i in reserve.items():
            b.request_slot(k, i)
    return prepare, ("seq",) + init + tuple(stmts) + (fin,)


def main(argv):
    args = parse_args(argv)
    if args.replay:
        data = json.load(open(args.replay))
        print(json.dumps(data, indent=1)[:8000])
        return 0
    ck = Check("C03", args.tier)
    thorough = args.tier == "thorough"
    import pyteal as pt
    rc, out = sh("%s %s/harness/translate.py" % (PY, VERIF))
    if rc != 0:
        ck.violation("translator aborted", {"broken": "harness/translate.py", "log": out[-2000:]}, no_failing_input=True)
        return ck.finish(level="proof", rule="translator failed")
    ck.run_proofs("Props/C03.v", PROOF_FILES, extra_targets=["Extract/Main.vo"])
    model = Model()
    rng = ck.rng
    stats = {"programs": 0, "variants": 0, "runs": 0, "pairs_compared": 0, "inconclusive": 0}
    mism, diffs, classes_seen = [], [], {}

    def variants_of(recipe, prepare, app, has_subs):
        """compile one program under every option setting / version at which it compiles"""
        out = []
        versions = [4, 6, 8, 9, 10] if has_subs else [6, 9]
        if thorough:
            versions = list(range(4 if has_subs else 2, 11))
        for v in versions:
            for ss in (None, True, False):
                for fp in ((None, False, True) if (v >= 8 and has_subs) else (None,)):
                    c = compile_case(pt, model, recipe, v, app, ss, fp, prepare=prepare)
                    stats["variants"] += 1
                    ck.count(("variant", c.wire_prog if c.real[0] != "build-exc" else repr(recipe), v, ss, fp), nontrivial=(c.real[0] == "ok"))
                    if c.real[0] == "ok":
                        so = same_outcome(c)
                        if so is False:
                            mism.append(c)
                        out.append(c)
        return out

    def compare(vs, app):
        if len(vs) < 2:
            return
        for _ in range(2 if not thorough else 3):
            ctx = gen_context(rng, app)
            obs = []
            for c in vs:
                r = run_teal(model, ctx, c.real[1])
                stats["runs"] += 1
                o = observable(r)
                if o is None:
                    stats["inconclusive"] += 1
                    continue
                obs.append((c, o + (repr(reserved_scratch(r, c.builder)) if o[0] == repr(S("approve")) else None,), r))
            for (c1, o1, r1), (c2, o2, r2) in zip(obs, obs[1:]):
                stats["pairs_compared"] += 1
                if o1 != o2:
                    cls = []
                    for c in (c1, c2):
                        cls += C02.classify(model, c)
                    if cls and same_outcome(c1) and same_outcome(c2):
                        for k in set(cls):
                            classes_seen[k] = classes_seen.get(k, 0) + 1
                    else:
                        diffs.append({"kind": "differential", "ctx": sx(ctx), "a": c1.describe(), "b": c2.describe(),
                                      "obs_a": repr(o1)[:1500], "obs_b": repr(o2)[:1500]})

    # known finding replay: orphan store in the main routine changes the stack at exit, in a subroutine the result
    prep, mainr = C02.witness_orphan_store()
    c_on = compile_case(pt, model, mainr, 6, True, True, None, prepare=prep)
    c_off = compile_case(pt, model, mainr, 6, True, False, None, prepare=prep)
    if c_on.real[0] == "ok" and c_off.real[0] == "ok":
        ctx = gen_context(rng, True)
        a, b = run_teal(model, ctx, c_on.real[1]), run_teal(model, ctx, c_off.real[1])
        ck.count(("known", "orphan"))
        if observable(a) != observable(b):
            if ck.match_known(lambda f: f.get("id") == "optimizer-orphan-store"):
                ck.known("optimizer-orphan-store", "scratch_slots=True deletes stores that have no cancelling load (x.store(1); x.store(a); Return(x.load()) in a subroutine): "
                         "the optimised and unoptimised programs log different results for Int(10) - g(Int(7))")
            else:
                diffs.append({"kind": "differential", "a": c_on.describe(), "b": c_off.describe(), "obs_a": repr(a)[:800], "obs_b": repr(b)[:800]})

    # ---- free-form real programs (ABI-returning routines with by-reference parameters, DynamicScratchVar, tuples ...):
    # real output vs real output across the option matrix, plus each program's own expected verdict (they approve iff
    # their own arithmetic holds); then the same programs compiled with a SHARED OptimizeOptions object that has already
    # been used for another program (options are per-compilation inputs: reuse must not change the output)
    free_stats = {"programs": 0, "variants": 0, "runs": 0, "shared_option_pairs": 0}
    fversions = list(range(6, 11)) if thorough else [6, 8, 9, 10]
    frees = c03_free.programs(pt)
    for name, minv, build in frees:
        free_stats["programs"] += 1
        variants = []
        for v in fversions:
            if v < minv:
                continue
            for ss, fp in c03_free.option_matrix(v):
                r = call_real(lambda: pt.compileTeal(build(), pt.Mode.Application, version=v, optimize=optimize_of(pt, ss, fp)))
                free_stats["variants"] += 1
                ck.count(("free", name, v, ss, fp), nontrivial=(r[0] == "ok"))
                if r[0] == "ok":
                    variants.append(((v, ss, fp), r[1]))
                elif r[1] not in PYTEAL_ERRORS:
                    diffs.append({"kind": "free-crash", "program": name, "version": v, "scratch_slots": ss, "frame_pointers": fp, "obs_a": r[1], "obs_b": "TEAL expected", "a": name, "b": name})
        for _ in range(2 if not thorough else 4):
            ctx = gen_context(rng, True)
            obs = []
            for opt, teal in variants:
                r = run_teal(model, ctx, teal)
                free_stats["runs"] += 1
                o = observable(r)
                if o is not None:
                    obs.append((opt, teal, o))
            for (o1, t1, a), (o2, t2, b) in zip(obs, obs[1:]):
                stats["pairs_compared"] += 1
                if a != b:
                    diffs.append({"kind": "free-differential", "program": name, "ctx": sx(ctx), "a": {"options": o1, "teal": t1}, "b": {"options": o2, "teal": t2},
                                  "obs_a": repr(a)[:1500], "obs_b": repr(b)[:1500]})
            for opt, teal, o in obs[:]:
                if o[0] != repr(S("approve")):
                    diffs.append({"kind": "free-verdict", "program": name, "ctx": sx(ctx), "a": {"options": opt, "teal": teal}, "b": "the program approves iff its own arithmetic holds",
                                  "obs_a": repr(o)[:1500], "obs_b": "approve"})
                    break
    # shared OptimizeOptions object: first used for a program that HAS protected slots (reserved id, index taken, by-reference),
    # then for the program under test
    byname = {n_: b_ for n_, _, b_ in frees}
    for v in ([9] if not thorough else [6, 9, 10]):
        for ss in (True, None):
            for name, minv, build in frees:
                for prev_name in ("dynamic-scratchvar", "plain-byref-after-values"):
                    if prev_name == name:
                        continue
                    shared = pt.OptimizeOptions(scratch_slots=ss)
                    call_real(lambda: pt.compileTeal(byname[prev_name](), pt.Mode.Application, version=v, optimize=shared))
                    r_shared = call_real(lambda: pt.compileTeal(build(), pt.Mode.Application, version=v, optimize=shared))
                    r_fresh = call_real(lambda: pt.compileTeal(build(), pt.Mode.Application, version=v, optimize=pt.OptimizeOptions(scratch_slots=ss)))
                    free_stats["shared_option_pairs"] += 1
                    ck.count(("shared-options", name, prev_name, v, ss))
                    if r_shared[0] == "ok" and r_fresh[0] == "ok" and r_shared[1] != r_fresh[1]:
                        ctx = gen_context(rng, True)
                        a, b = observable(run_teal(model, ctx, r_shared[1])), observable(run_teal(model, ctx, r_fresh[1]))
                        diffs.append({"kind": "shared-options", "program": name, "previous_program": prev_name, "version": v, "scratch_slots": ss, "ctx": sx(ctx),
                                      "a": {"teal_after_reusing_the_options_object": r_shared[1]}, "b": {"teal_with_fresh_options": r_fresh[1]},
                                      "obs_a": repr(a)[:800], "obs_b": repr(b)[:800]})
                    elif r_shared[0] != r_fresh[0]:
                        diffs.append({"kind": "shared-options", "program": name, "previous_program": prev_name, "version": v, "scratch_slots": ss, "a": repr(r_shared)[:500], "b": repr(r_fresh)[:500],
                                      "obs_a": r_shared[0], "obs_b": r_fresh[0]})
    ck.coverage["free_form_programs"] = free_stats

    n = 1200 if thorough else 150
    for i in range(n):
        app = rng.random() < 0.8
        kind = rng.choice(["dense"] * 7 + ["main", "subs"])
        if kind == "subs":
            prepare, recipe, _ = gen_sub_program(rng, 6, app)
            vs = variants_of(recipe, prepare, app, True)
        elif kind == "dense":
            prepare, recipe = store_dense_recipe(rng, 6, app)
            vs = variants_of(recipe, prepare, app, False)
        else:
            g = Gen(rng, 6, app, size=rng.choice([10, 20, 40]))
            recipe = g.program(depth=rng.choice([2, 3]))
            init = tuple(("op", "store", (("slot", k),), "n", ((I(0) if t == "u" else B(b"")),)) for k, t in g.vars.items())
            recipe = ("seq",) + init + (recipe,)
            vs = variants_of(recipe, None, app, False)
        stats["programs"] += 1
        compare(vs, app)
        if vs:
            ck.sample({"kind": kind, "variants": len(vs), "recipe": repr(recipe)[:300]}, limit=4)
    ck.coverage.update(stats)
    ck.coverage["failures_attributed_to_known_classes"] = classes_seen

    for d in diffs[:5]:
        ck.violation("two compilations of one program behave differently: %s vs %s" % (d["obs_a"][:80], d["obs_b"][:80]), d)
    if mism and not diffs:
        ck.violation("correspondence broken: compile_model text differs from compileTeal on %d option variants; differential execution of all real output pairs found no behavioural difference" % len(mism),
                     {"kind": "correspondence", "broken": "text equality compileTeal vs compile_model across the option matrix", "case": mism[0].describe()}, no_failing_input=True)
    if not ck.proof_ok and not diffs:
        ck.violation("proof obligation broken: Props/C03.v no longer checks", {"kind": "proof", "broken": "Props/C03.v", "log": ck.proof_log[-1500:]}, no_failing_input=True)
    ck.coverage["disagreements_checked"] = len(mism) + len(diffs) + sum(classes_seen.values())
    model.close()
    return ck.finish(
        level="proof",
        rule="each generated program (store/load-dense main routines with requested slot ids, random main routines, random call graphs) is compiled by the real compiler under "
             "scratch_slots in {None,True,False} x frame_pointers in {None,False,True} x several versions; all successful outputs are executed on the extracted AVM on identical contexts and compared "
             "pairwise on verdict, ordered log/state/inner-transaction trace and final user-numbered slots; each variant is also compared with the Coq compile model (text); "
             "distinct = (program, option setting); non-trivial = compiles",
        trusted_base=[
            "AVM semantics coq/AVM (hand-written); the comparison is between REAL outputs, so no source semantics is trusted here",
            "Comp/Passes.v optimiser model tied by text equality; theorems in Props/C03.v are about that model",
            "class predicates of known findings are computed by the Coq model (opt-orphans) and harness/progcorpus.has_ctrl_in_operand",
            "Extraction: ExtrOcamlBasic + ExtrOcamlNativeString; driver.ml",
        ])


if __name__ == "__main__":
    sys.exit(run_main(main))
