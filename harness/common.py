"""Shared machinery for every property check: environment, Coq build, extracted model process,
evidence, known findings, violation reporting."""
import hashlib
import json
import os
import random
import re
import subprocess
import sys
import time

VERIF = os.path.dirname(os.path.dirname(os.path.abspath(__file__)))
REPO = os.environ.get("PYTEAL_REPO", "/repo")
COQ = os.path.join(VERIF, "coq")
OCAML = os.path.join(VERIF, "ocaml")
PVMODEL = os.path.join(OCAML, "pvmodel")
EVIDENCE = os.path.join(VERIF, "evidence")
REPLAYS = os.path.join(VERIF, "replays")
PY = "/venv/bin/python"
NPROC = int(os.environ.get("VERIF_JOBS", "16"))

KERNEL_TB = [
    "Coq 8.16.1 kernel (coqc, full .vo build; no -vos/-vok, no native_compute; vm_compute used for closed computations)",
    "No Axiom/Parameter/Conjecture/Admitted in /verif/coq (grep is part of every check); Print Assumptions output recorded below",
]


def ensure_env():
    """Re-exec under the repo's interpreter with a pinned import path and hash seed."""
    want = {"PYTHONPATH": REPO, "PYTHONHASHSEED": os.environ.get("VERIF_HASHSEED", "0")}
    if sys.executable != PY or any(os.environ.get(k) != v for k, v in want.items()):
        env = dict(os.environ)
        env.update(want)
        env["PYTHONDONTWRITEBYTECODE"] = "1"
        os.execve(PY, [PY] + sys.argv, env)
    if REPO not in sys.path:
        sys.path.insert(0, REPO)


def seed():
    try:
        return int(os.environ.get("VERIF_SEED", "0"))
    except ValueError:
        return 0


def tier_from_env(default="quick"):
    t = os.environ.get("VERIF_TIER", default)
    return t if t in ("quick", "thorough") else default


def sh(cmd, timeout=1800, cwd=None, env=None):
    p = subprocess.run(cmd, shell=isinstance(cmd, str), cwd=cwd, env=env, capture_output=True, text=True, timeout=timeout)
    return p.returncode, p.stdout + p.stderr


# ---------------------------------------------------------------------------------------------
# Coq build
# ---------------------------------------------------------------------------------------------
FORBIDDEN = re.compile(
    r"\b(Admitted|admit|Axiom|Axioms|Parameter|Parameters|Conjecture|Hypothesis|Variable|Abort)\b|Unset\s+Guard|bypass_check|Admit\s+Obligations|-type-in-type|impredicative-set"
)


def forbidden_scan():
    """No axioms / admits / disabled checks anywhere in the development. Variables/Hypotheses are
    allowed only inside Sections (checked textually: must sit between 'Section' and 'End')."""
    bad = []
    for root, _, files in os.walk(COQ):
        for f in files:
            if not f.endswith(".v"):
                continue
            path = os.path.join(root, f)
            depth = 0
            in_comment = 0
            for ln, line in enumerate(open(path, encoding="utf-8", errors="replace"), 1):
                code = strip_coq_comments_line(line)
                if re.match(r"\s*Section\b", code):
                    depth += 1
                if re.match(r"\s*End\b", code) and depth > 0:
                    depth -= 1
                m = FORBIDDEN.search(code)
                if m:
                    w = m.group(0)
                    if w in ("Variable", "Hypothesis") and depth > 0:
                        continue
                    bad.append("%s:%d: %s" % (os.path.relpath(path, VERIF), ln, w))
    return bad


def strip_coq_comments_line(line):
    # good enough for the scan: drop (* ... *) on one line and string literals
    line = re.sub(r'"[^"]*"', '""', line)
    line = re.sub(r"\(\*.*?\*\)", "", line)
    return line


def coq_make(targets=None, timeout=3000, tag="all", keep_going=False, jobs=None):
    """Build the given .vo targets (or everything) with a per-check Makefile (Makefile.<tag>)."""
    coq_project_sync()
    mk = "Makefile." + tag
    rc, out = sh("coq_makefile -f _CoqProject -o %s" % mk, cwd=COQ)
    if rc != 0:
        return False, out
    tgt = " ".join(targets) if targets else ""
    rc, out = sh("timeout %d make -f %s %s -j%d %s" % (timeout, mk, "-k" if keep_going else "", jobs or NPROC, tgt), cwd=COQ, timeout=timeout + 60)
    if rc != 0 and not keep_going and ("Error 137" in out or "Killed" in out or "Out of memory" in out):
        # a coqc job was killed for memory under full parallelism: one retry at low parallelism
        rc, out = sh("timeout %d make -f %s -j3 %s" % (timeout, mk, tgt), cwd=COQ, timeout=timeout + 60)
    return rc == 0, out


def coq_props(prop_file, timeout=900):
    """Compile a Props/Cxx.v file on its own and collect its Print Assumptions output.
    Returns (ok, theorems, assumptions_text, log)."""
    vo = os.path.join(COQ, prop_file[:-2] + ".vo")
    if os.path.exists(vo):
        os.remove(vo)
    rc, out = sh("timeout %d coqc -Q . PV -w -notation-overridden %s" % (timeout, prop_file), cwd=COQ, timeout=timeout + 60)
    src = open(os.path.join(COQ, prop_file)).read()
    thms = re.findall(r"^\s*(?:Theorem|Lemma|Corollary)\s+([A-Za-z0-9_']+)", src, re.M)
    return rc == 0, thms, out.strip(), out


def strip_coq_comments(src):
    """remove (nested) (* ... *) comments; string literals are respected"""
    out, depth, i, n, instr = [], 0, 0, len(src), False
    while i < n:
        c = src[i]
        if depth == 0 and c == '"':
            instr = not instr
            out.append(c); i += 1; continue
        if not instr and src.startswith("(*", i):
            depth += 1; i += 2; continue
        if not instr and depth > 0 and src.startswith("*)", i):
            depth -= 1; i += 2; continue
        if depth == 0:
            out.append(c)
        i += 1
    return "".join(out)


def count_obligations(files):
    """Count statements and Qed's in the given Coq files (relative to coq/)."""
    stated = closed = 0
    names = []
    for f in files:
        src = strip_coq_comments(open(os.path.join(COQ, f)).read())
        found = re.findall(r"^\s*(?:Theorem|Lemma|Corollary|Example|Fact|Remark)\s+([A-Za-z0-9_']+)", src, re.M)
        names += ["%s:%s" % (f, n) for n in found]
        stated += len(found)
        closed += len(re.findall(r"\bQed\.|\bDefined\.", src))
    return stated, closed, names


_pv_built = set()


def coq_project_sync():
    """_CoqProject lists every .v under coq/ except the extraction scripts; regenerate the Makefile
    only when that list changes (several checks may run at once)."""
    files = []
    for root, _, fs in os.walk(COQ):
        for f in fs:
            if f.endswith(".v") and not (os.path.basename(root) == "Extract" and f.startswith("Extract")):
                files.append(os.path.relpath(os.path.join(root, f), COQ))
    files.sort()
    text = "-Q . PV\n-arg -w -arg -notation-overridden,-deprecated-hint-without-locality,-deprecated-instance-without-locality,-abstract-large-number\n" + "\n".join(files) + "\n"
    p = os.path.join(COQ, "_CoqProject")
    if not os.path.exists(p) or open(p).read() != text:
        tmp = p + ".%d" % os.getpid()
        open(tmp, "w").write(text)
        os.replace(tmp, p)
        return True
    return False


def build_pvmodel(name="main", force=False):
    """Rebuild an extracted model binary iff the Coq sources changed. name: see ocaml/build.sh."""
    if name in _pv_built and not force:
        return True, ""
    h = hashlib.sha256()
    for root, _, files in sorted(os.walk(COQ)):
        for f in sorted(files):
            if f.endswith(".v"):
                h.update(open(os.path.join(root, f), "rb").read())
    h.update(open(os.path.join(OCAML, "driver.ml"), "rb").read())
    h.update(open(os.path.join(OCAML, "build.sh"), "rb").read())
    binary = PVMODEL if name == "main" else os.path.join(OCAML, "pv_" + name)
    os.makedirs(os.path.join(OCAML, "_build"), exist_ok=True)
    stamp = os.path.join(OCAML, "_build", name + ".stamp")
    digest = h.hexdigest()
    if not force and os.path.exists(binary) and os.path.exists(stamp) and open(stamp).read() == digest:
        _pv_built.add(name)
        return True, ""
    rc, out = sh("flock %s/_build/%s.lock timeout 900 ./build.sh %s" % (OCAML, name, name), cwd=OCAML, timeout=2000)
    if rc == 0:
        open(stamp, "w").write(digest)
        _pv_built.add(name)
    return rc == 0, out


# ---------------------------------------------------------------------------------------------
# s-expressions (writer + reader) and the model process
# ---------------------------------------------------------------------------------------------
def sx_str(s):
    """Quote a str (code points < 256) or bytes for the wire."""
    if isinstance(s, str):
        b = s.encode("latin-1")
    else:
        b = bytes(s)
    out = ['"']
    for ch in b:
        c = chr(ch)
        if c == '"':
            out.append('\\"')
        elif c == "\\":
            out.append("\\\\")
        elif ch < 32 or ch >= 127:
            out.append("\\x%02x" % ch)
        else:
            out.append(c)
    out.append('"')
    return "".join(out)


def sx_hex(b):
    return "x" + bytes(b).hex()


def sx(x):
    """Python -> s-expression text. tuple/list -> list, int -> decimal, bytes -> xHEX, Sym -> atom, str -> quoted."""
    if isinstance(x, Sym):
        return x.name
    if isinstance(x, bool):
        return "true" if x else "false"
    if isinstance(x, int):
        return str(x)
    if isinstance(x, (bytes, bytearray)):
        return sx_hex(x)
    if isinstance(x, str):
        return sx_str(x)
    if isinstance(x, (list, tuple)):
        return "(" + " ".join(sx(e) for e in x) + ")"
    raise TypeError("sx: %r" % (x,))


class Sym:
    __slots__ = ("name",)

    def __init__(self, name):
        self.name = name

    def __repr__(self):
        return self.name

    def __eq__(self, o):
        return isinstance(o, Sym) and o.name == self.name

    def __hash__(self):
        return hash(("Sym", self.name))


def S(name):
    return Sym(name)


def parse_sx(text):
    """s-expression text -> nested lists; atoms -> Sym or int or bytes (xHEX); strings -> str (latin-1)."""
    pos = 0
    n = len(text)
    stack = [[]]
    while pos < n:
        c = text[pos]
        if c in " \t\r\n":
            pos += 1
        elif c == "(":
            stack.append([])
            pos += 1
        elif c == ")":
            cur = stack.pop()
            stack[-1].append(cur)
            pos += 1
        elif c == '"':
            pos += 1
            buf = []
            while text[pos] != '"':
                if text[pos] == "\\":
                    e = text[pos + 1]
                    if e == "x":
                        buf.append(chr(int(text[pos + 2 : pos + 4], 16)))
                        pos += 4
                    elif e == "n":
                        buf.append("\n")
                        pos += 2
                    else:
                        buf.append(e)
                        pos += 2
                else:
                    buf.append(text[pos])
                    pos += 1
            pos += 1
            stack[-1].append("".join(buf))
        else:
            st = pos
            while pos < n and text[pos] not in " \t\r\n()":
                pos += 1
            a = text[st:pos]
            if a.isdigit():
                stack[-1].append(int(a))
            elif a.startswith("x") and re.fullmatch(r"x([0-9a-f]{2})*", a):
                stack[-1].append(bytes.fromhex(a[1:]))
            else:
                stack[-1].append(Sym(a))
    assert len(stack) == 1 and len(stack[0]) == 1, "unbalanced response: %r" % text[:200]
    return stack[0][0]


class Model:
    """A running pvmodel process: ask(request-sexp-text) -> parsed response."""

    def __init__(self, name="main"):
        ok, out = build_pvmodel(name)
        if not ok:
            raise RuntimeError("pvmodel build failed:\n" + out[-3000:])
        binary = PVMODEL if name == "main" else os.path.join(OCAML, "pv_" + name)
        def _big_stack():
            import resource
            try:
                resource.setrlimit(resource.RLIMIT_STACK, (1 << 29, resource.getrlimit(resource.RLIMIT_STACK)[1]))
            except Exception:
                try:
                    soft, hard = resource.getrlimit(resource.RLIMIT_STACK)
                    resource.setrlimit(resource.RLIMIT_STACK, (hard, hard))
                except Exception:
                    pass
        def _limits():
            _big_stack()
            import resource
            # a model process must never outlive its check or eat the machine: cap its address space and CPU time, and
            # have the kernel kill it when the parent dies (an orphaned 40 GB pvmodel was found once during the build)
            try:
                resource.setrlimit(resource.RLIMIT_AS, (16 << 30, 16 << 30))
                resource.setrlimit(resource.RLIMIT_CPU, (7200, 7200))
            except Exception:
                pass
            try:
                import ctypes
                ctypes.CDLL("libc.so.6").prctl(1, 9)   # PR_SET_PDEATHSIG, SIGKILL
            except Exception:
                pass
        self.p = subprocess.Popen([binary], preexec_fn=_limits, stdin=subprocess.PIPE, stdout=subprocess.PIPE, text=True, encoding="latin-1", bufsize=1)
        self.n = 0

    def ask_raw(self, req):
        assert "\n" not in req
        self.p.stdin.write(req + "\n")
        self.p.stdin.flush()
        line = self.p.stdout.readline()
        if not line:
            raise RuntimeError("pvmodel died on request: " + req[:300])
        self.n += 1
        return line.rstrip("\n")

    def ask(self, req):
        if not isinstance(req, str):
            req = sx(req)
        return parse_sx(self.ask_raw(req))

    def close(self):
        try:
            self.p.stdin.close()
            self.p.wait(timeout=5)
        except Exception:
            self.p.kill()


# ---------------------------------------------------------------------------------------------
# Evidence / findings / verdict
# ---------------------------------------------------------------------------------------------
class Check:
    """Book-keeping for one property check run."""

    def __init__(self, pid, tier):
        self.pid = pid
        self.tier = tier
        self.seed = seed()
        self.rng = random.Random(self.seed * 1000003 + int(pid[1:]))
        self.t0 = time.time()
        self.violations = []          # (what, replay_path, nofail)
        self.known_seen = []
        self.coverage = {}
        self.assumptions = []
        self.notes = []
        self.samples = []
        self.evaluations = 0
        self.distinct = set()
        self.broken = []              # model-validation problems (exit 2)
        os.makedirs(EVIDENCE, exist_ok=True)
        os.makedirs(os.path.join(REPLAYS, pid), exist_ok=True)
        self.findings = [f for f in load_known_findings() if f.get("property") == pid and f.get("status") == "open"]

    # -- cases
    def count(self, key=None, nontrivial=True):
        self.evaluations += 1
        if key is not None and nontrivial:
            self.distinct.add(hashlib.sha1(repr(key).encode()).hexdigest())

    def sample(self, s, limit=6):
        if len(self.samples) < limit:
            self.samples.append(s)

    # -- outcomes
    def violation(self, what, replay, no_failing_input=False):
        """Record a violation with its replay payload (dict)."""
        blob = json.dumps(replay, sort_keys=True, default=repr)
        name = hashlib.sha1(blob.encode()).hexdigest()[:16] + ".json"
        path = os.path.join(REPLAYS, self.pid, name)
        replay = dict(replay)
        replay.setdefault("property", self.pid)
        replay.setdefault("what", what)
        replay.setdefault("replay_cmd", "./check %s --replay %s" % (self.pid, path))
        with open(path, "w") as f:
            json.dump(replay, f, indent=1, sort_keys=True, default=repr)
        self.violations.append((what, path, no_failing_input))

    def known(self, finding_id, what):
        if finding_id not in [k[0] for k in self.known_seen]:
            self.known_seen.append((finding_id, what))

    def match_known(self, pred):
        """Return the first open finding f of this property for which pred(f) holds."""
        for f in self.findings:
            try:
                if pred(f):
                    return f
            except Exception:
                pass
        return None

    def model_problem(self, what):
        self.broken.append(what)

    # -- coq
    def run_proofs(self, prop_file, proof_files, extra_targets=(), extra_props=()):
        """Build proof files, compile the property file, record obligations/assumptions.
        A failure here is a broken proof obligation: reported as a violation by the caller via
        self.proof_ok == False (after the failing-input search)."""
        bad = forbidden_scan()
        self.coverage["forbidden_scan"] = "clean" if not bad else bad
        targets = [f[:-2] + ".vo" for f in proof_files] + list(extra_targets)
        t = time.time()
        ok, log = coq_make(targets, tag=self.pid)
        self.coverage["checker_cmd"] = "cd /verif/coq && coq_makefile -f _CoqProject -o Makefile.%s && make -f Makefile.%s -j%d %s && coqc -Q . PV %s" % (self.pid, self.pid, NPROC, " ".join(targets), prop_file)
        self.proof_log = log
        okp, thms, assum, plog = (False, [], "", "")
        if ok and not bad:
            # the property files are independent of each other: compile them concurrently
            from concurrent.futures import ThreadPoolExecutor
            with ThreadPoolExecutor(max_workers=max(1, min(8, 1 + len(extra_props)))) as ex:
                futs = [ex.submit(coq_props, pf) for pf in [prop_file] + list(extra_props)]
                results = [f.result() for f in futs]
            okp, thms, assum, plog = results[0]
            self.proof_log += plog
            for (ok2, thms2, assum2, plog2) in results[1:]:
                okp = okp and ok2
                thms = thms + thms2
                assum = assum + "\n" + assum2
                self.proof_log += plog2
        stated, closed, names = count_obligations(list(proof_files) + [prop_file] + list(extra_props))
        self.coverage["obligations"] = stated
        self.coverage["discharged"] = closed if (ok and okp and not bad) else 0
        self.coverage["property_theorems"] = thms
        self.coverage["print_assumptions"] = assum.splitlines()[-40:]
        self.coverage["coq_wall_s"] = round(time.time() - t, 1)
        self.proof_ok = bool(ok and okp and not bad and stated == closed)
        self._proofs_ran = (prop_file, list(extra_props))
        if not self.proof_ok:
            self.coverage["proof_failure_log"] = self.proof_log[-2500:]
        axioms = [l for l in assum.splitlines() if l.strip() and "Closed under the global context" not in l and not l.startswith("File ") and "Warning" not in l]
        self.coverage["axioms_reported"] = axioms
        return self.proof_ok

    # -- finish
    def finish(self, level="proof", rule="", trusted_base=(), explanation=""):
        if self.broken:
            # the check's own model / oracle could not be validated against the tree under test (e.g. it cannot read what
            # the compiler emitted): on the unchanged tree this never happens; on a changed tree the property is no longer
            # shown to hold, which is a VIOLATION (without a failing input unless the search already found one)
            self.violation("model/oracle validation failed on the tree under test (%d problem(s); first: %s): the property is no longer shown to hold"
                           % (len(self.broken), str(self.broken[0])[:200]),
                           {"kind": "model-validation", "broken": "validation of the check's model/oracle against the implementation", "problems": [str(b)[:2000] for b in self.broken[:20]]},
                           no_failing_input=True)
        if getattr(self, "_proofs_ran", None) and not self.proof_ok and not self.violations:
            # safety net: a check that ran its proofs, saw them fail and recorded no violation of its own must not exit 0
            self.violation("proof obligation broken: %s no longer check(s) (forbidden-scan: %s)" % (", ".join([self._proofs_ran[0]] + self._proofs_ran[1]), self.coverage.get("forbidden_scan")),
                           {"kind": "proof", "broken": ", ".join([self._proofs_ran[0]] + self._proofs_ran[1]), "log": getattr(self, "proof_log", "")[-2500:]}, no_failing_input=True)
        cov = self.coverage
        cov.setdefault("obligations", 0)
        cov.setdefault("discharged", 0)
        cov.setdefault("checker_cmd", "n/a")
        cov["trusted_base"] = list(KERNEL_TB) + list(trusted_base)
        cov["evaluations"] = self.evaluations
        cov["distinct_nontrivial"] = len(self.distinct)
        cov["rule"] = rule
        cov["samples"] = self.samples if self.samples else ["(no sample recorded)"]
        cov["known_findings_seen"] = [k[0] for k in self.known_seen]
        cov["disagreements_checked"] = cov.get("disagreements_checked", 0)
        if explanation:
            cov["explanation"] = explanation
        if self.notes:
            cov["notes"] = self.notes
        ev = {
            "property_id": self.pid,
            "tier": self.tier,
            "seed": self.seed,
            "level": level,
            "coverage": cov,
            "assumptions": self.assumptions,
            "wall_s": round(time.time() - self.t0, 2),
            "violations": len(self.violations),
        }
        with open(os.path.join(EVIDENCE, self.pid + ".json"), "w") as f:
            json.dump(ev, f, indent=1, sort_keys=True, default=repr)
        for fid, what in self.known_seen:
            print("KNOWN-FINDING: property=%s %s" % (self.pid, what))
        if self.broken:
            for b in self.broken:
                print("MODEL-VALIDATION-FAILED: property=%s %s" % (self.pid, b))
        for what, path, nofail in self.violations[:20]:
            print("VIOLATION property=%s replay=%s%s" % (self.pid, path, " no-failing-input-found" if nofail else ""))
            print("  (%s)" % what[:300])
        print("%s %s: %d evaluations, %d distinct non-trivial, %d violations, %d known findings, %.1fs" % (
            self.pid, self.tier, self.evaluations, len(self.distinct), len(self.violations), len(self.known_seen), time.time() - self.t0))
        sys.stdout.flush()
        return 1 if self.violations else 0


def call_real(fn, *a, **kw):
    """Call into the real implementation; never let its exceptions escape.
    Returns ("ok", value) or ("exc", ExceptionClassName, message)."""
    try:
        return ("ok", fn(*a, **kw))
    except RecursionError as e:
        return ("exc", "RecursionError", str(e)[:200])
    except Exception as e:  # noqa
        return ("exc", type(e).__name__, str(e)[:300])


PYTEAL_ERRORS = ("TealInputError", "TealCompileError", "TealTypeError", "TealInternalError", "TealPragmaError")


def run_main(main):
    """Top-level safety net: an exception that escapes a check is a harness defect (exit 2) unless it
    was raised from inside the repository under test, in which case the property is no longer shown."""
    import traceback
    try:
        return main(sys.argv[1:])
    except SystemExit:
        raise
    except BaseException as e:  # noqa
        tb = traceback.format_exc()
        pid = os.path.basename(sys.argv[0])[:-3].upper()
        in_repo = any(fr.filename.startswith(REPO) for fr in traceback.extract_tb(e.__traceback__))
        print(tb[-3000:])
        # Either the implementation raised where the model expects a result, or the harness itself tripped over something the tree
        # under test produced (an output shape it cannot interpret).  On the unchanged tree neither happens (every check is run on
        # it before each commit); on a changed tree the property is no longer shown to hold: VIOLATION without a failing input.
        if not in_repo:
            print("HARNESS-ERROR: property=%s %s" % (pid, type(e).__name__))
        os.makedirs(os.path.join(REPLAYS, pid), exist_ok=True)
        path = os.path.join(REPLAYS, pid, "harness_exception.json")
        json.dump({"property": pid, "broken": ("correspondence harness: the implementation raised %s where the model expects a result" if in_repo else
                                                "correspondence harness stopped with %s while interpreting what the tree under test produced") % type(e).__name__,
                   "traceback": tb[-4000:]}, open(path, "w"), indent=1)
        print("VIOLATION property=%s replay=%s no-failing-input-found" % (pid, path))
        return 1


def load_known_findings():
    """known_findings.json plus fragments known_findings.d/*.json (same format)."""
    out = []
    paths = [os.path.join(VERIF, "known_findings.json")]
    d = os.path.join(VERIF, "known_findings.d")
    if os.path.isdir(d):
        paths += [os.path.join(d, f) for f in sorted(os.listdir(d)) if f.endswith(".json")]
    for p in paths:
        if os.path.exists(p):
            out += json.load(open(p)).get("findings", [])
    return out


def parse_args(argv):
    import argparse
    ap = argparse.ArgumentParser()
    ap.add_argument("--tier", default=tier_from_env())
    ap.add_argument("--replay", default=None)
    return ap.parse_args(argv)
