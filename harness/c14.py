"""C14 — inner method calls are marshalled per ARC-4  (InnerTxnBuilder.MethodCall / ExecuteMethodCall).

Parts (DESIGN §2.4):
  1. proofs           Props/C14.v (+ Proofs/ItxnWalk.v, Proofs/ItxnCorrect.v) about coq/Router/Itxn.v; the field tables
                      Gen/Tables.v, Gen/FieldTables.v are regenerated from /repo first
  2. spec validation  the ARC-4 client encoder of this check (c14_client.py, from the ARC-4 text) against algosdk.abi
                      and against the Coq spec (arc4_encode, pack)                              (disagreement = exit 2)
  3. correspondence   for generated calls: the REAL expression Seq(Begin(), MethodCall(...), Submit(), Approve()) (also
                      ExecuteMethodCall, also MethodCall after an unrelated transaction of the same group) is compiled at
                      versions 6..10 and executed on the extracted AVM; the recorded `(submit ...)` group must equal the
                      prediction of the extracted model `method_call` EXACTLY; for rejected calls the exception class must
                      equal the model's
  4. semantic oracle  (independent of Itxn.v) the recorded group against what the independent client prescribes:
                      selector, plain encodings in order, every reference index resolved against the RECORDED foreign
                      arrays must be the value passed, transaction arguments = the transactions immediately before the
                      call, in order, with their fields; TypeEnum / ApplicationID / extra fields of the call;
                      construction-time rejection of arguments that do not fit (PyTeal error classes)
  5. round trip       the recorded call is fed to a real PyTeal Router method of the same signature (approval program
                      executed on the AVM as a fresh call in a group made of the recorded transactions): every parameter
                      must hold the value passed
  6. failing-input search (shrinking) on a break; known findings (class: more than 15 non-transaction arguments, model ==
                      real); --replay
"""
import json
import os
import re
import sys
import time

from common import *  # noqa
import c19_abi as A
import c14_client as CL

ensure_env()

CORPUS = os.path.join(VERIF, "harness", "corpus", "c14.json")
PROOF_FILES = ["Proofs/ItxnWalk.v", "Proofs/ItxnCorrect.v", "Proofs/ItxnClient.v"]
CUR_APP = 77                      # the application executing the outer program
OUTER_SENDER = bytes(range(1, 33))
APP_ADDR = bytes([0xA0 + (i % 16) for i in range(32)])   # sender of the inner transactions (the app's account)
CREATOR_ADDR = bytes([0xC0 + (i % 16) for i in range(32)])
SPECIAL_ACCOUNTS = {"g:app": None, "g:creator": None, "g:zero": None, "t:sender": None}   # filled below
FINDING = "no-tuple-packing"

SPECIAL_ACCOUNTS.update({"g:app": APP_ADDR, "g:creator": CREATOR_ADDR, "g:zero": bytes(32), "t:sender": OUTER_SENDER})
ENUM_VALUES = {"unknown": 0, "pay": 1, "keyreg": 2, "acfg": 3, "axfer": 4, "afrz": 5, "appl": 6,
               "NoOp": 0, "OptIn": 1, "CloseOut": 2, "ClearState": 3, "UpdateApplication": 4, "DeleteApplication": 5}
ERR_CLASS = {"TealInputError": ("TealInputError",), "TealTypeError": ("TealTypeError",), "TypeError": ("TypeError",),
             "SdkError": ("ABIEncodingError", "ABITypeError")}


# ---------------------------------------------------------------------------------------------
# json <-> python (types are nested tuples, values contain bytes)
# ---------------------------------------------------------------------------------------------
def jd(x):
    if isinstance(x, (bytes, bytearray)):
        return {"$b": bytes(x).hex()}
    if isinstance(x, tuple):
        return {"$t": [jd(e) for e in x]}
    if isinstance(x, list):
        return [jd(e) for e in x]
    if isinstance(x, dict):
        return {k: jd(v) for k, v in x.items()}
    return x


def jl(x):
    if isinstance(x, dict):
        if "$b" in x and len(x) == 1:
            return bytes.fromhex(x["$b"])
        if "$t" in x and len(x) == 1:
            return tuple(jl(e) for e in x["$t"])
        return {k: jl(v) for k, v in x.items()}
    if isinstance(x, list):
        return [jl(e) for e in x]
    return x


def normalize_case(case):
    """a case read from a file: NamedTuple classes are process-local, declare them again (class numbers are renumbered)"""
    def fix(t):
        if isinstance(t, str) or not isinstance(t, tuple):
            return t
        h = t[0]
        if h == "sarr":
            return ("sarr", fix(t[1]), t[2])
        if h == "darr":
            return ("darr", fix(t[1]))
        if h == "tuple":
            return ("tuple",) + tuple(fix(x) for x in t[1:])
        if h == "named":
            return A.realistic_named(tuple(t[2]), tuple(fix(x) for x in t[3:]))
        return t
    c = dict(case)
    c["params"] = [fix(t) for t in case["params"]]
    c["args"] = [(a[0], fix(a[1])) + tuple(a[2:]) if a[0] == "abi" else a for a in case["args"]]
    return c


def is_txn(t):
    return not isinstance(t, str) and t[0] == "txn"


def is_ref(t):
    return not isinstance(t, str) and t[0] == "ref"


def non_txn(params):
    return sum(1 for t in params if not is_txn(t))


def itob(n):
    return n.to_bytes(8, "big")


# ---------------------------------------------------------------------------------------------
# TxnField tables (from the implementation's own enum; the Coq side reads the regenerated Gen tables)
# ---------------------------------------------------------------------------------------------
_fields = {}


def txn_fields():
    if not _fields:
        from pyteal import TxnField
        for f in TxnField:
            _fields[f.arg_name] = f
    return _fields


# fields used when generating transaction dicts / extra fields: name -> ("uint"|"bytes", is_array)
def field_kind(name):
    f = txn_fields()[name]
    return ("uint" if f.type_of().name == "uint64" else "bytes", bool(f.is_array))


TXN_FIELDS_BY_KIND = {
    "pay": ["Receiver", "Amount", "CloseRemainderTo", "Note", "Fee"],
    "keyreg": ["VotePK", "SelectionPK", "VoteFirst", "VoteLast", "VoteKeyDilution", "Note"],
    "acfg": ["ConfigAssetTotal", "ConfigAssetDecimals", "ConfigAssetName", "ConfigAssetUnitName", "ConfigAssetManager", "Note"],
    "axfer": ["XferAsset", "AssetAmount", "AssetReceiver", "AssetCloseTo", "Note"],
    "afrz": ["FreezeAsset", "FreezeAssetAccount", "FreezeAssetFrozen", "Note"],
    "appl": ["ApplicationID", "OnCompletion", "ApplicationArgs", "Accounts", "Assets", "Applications", "Note", "Fee"],
}
EXTRA_FIELDS = ["Fee", "Note", "OnCompletion", "Accounts", "Assets", "Applications", "RekeyTo", "Lease", "GlobalNumUint", "Sender"]


# ---------------------------------------------------------------------------------------------
# generation
# ---------------------------------------------------------------------------------------------
SIG_LEAVES = ["bool", "byte", ("uint", 8), ("uint", 16), ("uint", 32), ("uint", 64), ("uint", 64), "address", "string"]
KINDS = [k for k in A.TXN_KINDS]
REFS = A.REF_KINDS


def gen_sig_plain(rng, d):
    """a plain type as abi.type_spec_from_algosdk returns it for a type string (no StaticBytes / NamedTuple spelling)"""
    if d == 0 or rng.random() < 0.5:
        return rng.choice(SIG_LEAVES)
    k = rng.random()
    if k < 0.25:
        return ("sarr", gen_sig_plain(rng, d - 1), rng.choice([0, 1, 2, 3, 32]))
    if k < 0.5:
        return ("darr", gen_sig_plain(rng, d - 1))
    w = rng.choice([0, 1, 2, 2, 3, 4])
    return ("tuple",) + tuple(gen_sig_plain(rng, d - 1) for _ in range(w))


def gen_sig_small(rng, d):
    """as gen_sig_plain, keeping encodings far below the AVM's 4096-byte value limit"""
    for _ in range(50):
        t = gen_sig_plain(rng, d)
        try:
            if len(ref_encode(t, A.gen_value(layout(t), random_probe(), text=True, maxlen=6))) <= 500:
                return t
        except Exception:
            continue
    return ("uint", 64)


def random_probe():
    import random
    return random.Random(11)


def bytish(t):
    return t == "byte" or t == ("uint", 8)


def respell(rng, t):
    """a type spelled differently that type_spec_is_assignable_to should admit for t"""
    if isinstance(t, str):
        if t == "byte":
            return rng.choice(["byte", ("uint", 8)])
        return t
    h = t[0]
    if h == "uint":
        return rng.choice(["byte", t]) if t[1] == 8 else t
    if h == "sarr":
        if bytish(t[1]):
            opts = [("sbytes", t[2]), ("sarr", respell(rng, t[1]), t[2]), t]
            if t[2] == 32:
                opts += ["address", "address"]
            return rng.choice(opts)
        return ("sarr", respell(rng, t[1]), t[2])
    if h == "darr":
        if bytish(t[1]):
            return rng.choice(["string", "dynbytes", ("darr", respell(rng, t[1])), t])
        return ("darr", respell(rng, t[1]))
    if h == "tuple":
        ts = tuple(respell(rng, x) for x in t[1:])
        if ts and rng.random() < 0.3:
            return A.realistic_named(tuple("f%d" % i for i in range(len(ts))), ts)
        return ("tuple",) + ts
    return t


def layout(t):
    return A.parse_type_str(A.arc4_str(t))


def ref_encode(t, v):
    r = A.sdk_encode(A.to_sdk(t), v)
    if r[0] != "ok":
        raise ValueError("reference codec rejects %r : %r" % (v, t))
    return r[1]


def rand_addr(rng):
    return bytes(rng.randrange(256) for _ in range(32))


def gen_x(rng, tt, v, allow_any=True):
    """an expression of static type tt evaluating to v"""
    r = rng.random()
    if allow_any and r < 0.12:
        return ("x", "any", v, "scratch")
    return ("x", tt, v, "const" if r < 0.6 else "arg")


def gen_fval(rng, name):
    ty, arr = field_kind(name)
    def one():
        if ty == "uint":
            if name == "OnCompletion" and rng.random() < 0.7:
                return ("enum", "NoOp")
            return gen_x(rng, "uint", rng.choice([0, 1, 7, 1000, rng.randrange(1 << 32)]))
        if name in ("Accounts", "Sender", "Receiver", "CloseRemainderTo", "AssetReceiver", "AssetCloseTo", "FreezeAssetAccount",
                    "ConfigAssetManager", "RekeyTo", "Lease", "VotePK", "SelectionPK"):
            return gen_x(rng, "bytes", rand_addr(rng))
        return gen_x(rng, "bytes", bytes(rng.randrange(256) for _ in range(rng.choice([0, 1, 4, 9]))))
    if not arr:
        return one()
    if rng.random() < 0.15:
        which = {"Accounts": "accounts", "Assets": "assets", "Applications": "applications", "ApplicationArgs": "application_args"}[name]
        return ("arr", which)
    return ("list", [one() for _ in range(rng.choice([0, 1, 2, 3]))])


def gen_dict(rng, kind):
    k = kind if kind != "any" else rng.choice(KINDS[1:])
    names = [n for n in TXN_FIELDS_BY_KIND[k] if rng.random() < 0.45]
    rng.shuffle(names)
    fs = [(n, gen_fval(rng, n)) for n in names]
    fs.insert(rng.randrange(len(fs) + 1), ("TypeEnum", ("enum", k)))
    return ("dict", fs)


def gen_arg(rng, t):
    if is_txn(t):
        return gen_dict(rng, t[1])
    if is_ref(t):
        k = t[1]
        v = rand_addr(rng) if k == "account" else rng.choice([1, 5, 1000, rng.randrange(1, 1 << 40)])
        if rng.random() < 0.3:
            return ("refinst", k, v)
        if k == "account" and rng.random() < 0.3:
            src = rng.choice(sorted(SPECIAL_ACCOUNTS))
            return ("expr", ("x", "bytes", SPECIAL_ACCOUNTS[src], src))
        return ("expr", gen_x(rng, "bytes" if k == "account" else "uint", v))
    v = A.gen_value(layout(t), rng, text=True, maxlen=3)
    if rng.random() < 0.3:
        return ("expr", gen_x(rng, "bytes", ref_encode(t, v)), v)
    a = respell(rng, t)
    how = rng.choice(["decode-const", "decode-const", "decode-arg", "set"])
    return ("abi", a, v, how)


def gen_params(rng, profile):
    if profile == "small":
        n, w = rng.randrange(0, 6), (0.55, 0.2, 0.25)
    elif profile == "cutoff":
        n, w = rng.randrange(13, 21), (0.8, 0.08, 0.12)
    elif profile == "txnheavy":
        n, w = rng.randrange(2, 14), (0.3, 0.5, 0.2)
    elif profile == "refheavy":
        n, w = rng.randrange(2, 21), (0.35, 0.1, 0.55)
    else:
        n, w = rng.randrange(0, 21), (0.6, 0.15, 0.25)
    out, ntx = [], 0
    for _ in range(n):
        r = rng.random()
        if r < w[1] and ntx < 12:
            out.append(("txn", rng.choice(KINDS)))
            ntx += 1
        elif r < w[1] + w[2]:
            out.append(("ref", rng.choice(REFS)))
        else:
            out.append(gen_sig_small(rng, rng.choice([0, 0, 1, 1, 2])))
    return out


def gen_case(rng, profile, idx=0):
    params = gen_params(rng, profile)
    ret = None if rng.random() < 0.4 else gen_sig_small(rng, rng.choice([0, 0, 1]))
    r = rng.random()
    if r < 0.12:
        app_id = ("none",)
    else:
        app_id = gen_x(rng, "uint", rng.choice([1, 5, 99, 1234, rng.randrange(1, 1 << 32)]))
    extra = []
    if rng.random() < 0.45:
        names = [n for n in EXTRA_FIELDS if rng.random() < 0.25]
        rng.shuffle(names)
        extra = [(n, gen_fval(rng, n)) for n in names]
    api = rng.choice(["MethodCall", "MethodCall", "ExecuteMethodCall", "prefixed"])
    return {"name": "m%d" % (idx % 7), "params": params, "ret": ret, "app_id": app_id,
            "args": [gen_arg(rng, t) for t in params], "extra": extra, "api": api, "expect": "ok"}


NEG_KINDS = ["count-", "count+", "abi-break", "abi-wrongkind", "plain-uint-expr", "plain-none-expr", "plain-pyobj", "plain-dict",
             "plain-refinst", "plain-txninst", "ref-abi", "ref-wrong-refinst", "ref-wrong-expr", "ref-dict", "ref-pyobj",
             "txn-notdict", "txn-no-enum", "txn-int-enum", "txn-wrong-kind", "txn-odd-enum", "txn-field-type", "txn-field-shape",
             "txn-field-nonexpr", "appid-bytes", "appid-pyobj", "extra-type", "extra-shape", "sig-uint24", "ret-uint128", "abi-spell",
             "arity-short", "arity-long", "arity-nested", "sarr-len", "darr-vs-sarr"]
ARITY_KINDS = ("arity-short", "arity-long", "arity-nested", "sarr-len", "darr-vs-sarr")


def denamed(t):
    """named tuples with a placeholder class (class number < 1000) become plain tuples: their instances could not be built faithfully"""
    if isinstance(t, str):
        return t
    h = t[0]
    if h == "sarr":
        return ("sarr", denamed(t[1]), t[2])
    if h == "darr":
        return ("darr", denamed(t[1]))
    if h == "tuple":
        return ("tuple",) + tuple(denamed(x) for x in t[1:])
    if h == "named":
        ts = tuple(denamed(x) for x in t[3:])
        return ("tuple",) + ts if t[1] < 1000 else A.realistic_named(t[2], ts)
    return t


def spell_any(rng, t):
    """same layout, spelled differently in EITHER direction (the relation refuses the generalising direction)"""
    if t == "address":
        return rng.choice(["address", ("sbytes", 32), ("sarr", "byte", 32)])
    if t == "string":
        return rng.choice(["string", "dynbytes", ("darr", "byte"), ("darr", ("uint", 8))])
    if isinstance(t, str):
        return respell(rng, t)
    h = t[0]
    if h == "sarr" and not bytish(t[1]):
        return ("sarr", spell_any(rng, t[1]), t[2])
    if h == "darr" and not bytish(t[1]):
        return ("darr", spell_any(rng, t[1]))
    if h == "tuple":
        return ("tuple",) + tuple(spell_any(rng, x) for x in t[1:])
    return respell(rng, t)


def breaking_type(rng, t):
    """a type whose layout differs from t's"""
    for _ in range(40):
        c = denamed(A.mutate(rng, t, p=0.9))
        if A.has_special(c):
            continue
        try:
            if layout(c) != layout(t) and len(ref_encode(c, A.gen_value(layout(c), random_probe(), text=True, maxlen=3))) <= 500:
                return c
        except Exception:
            continue
    return ("tuple", t, "bool")


def arity_pair(rng, kind):
    """(parameter type, instance type): the same up to spelling except for ONE arity / length mismatch, placed so that
    the shared prefix of the members is pairwise assignable (what zip() would still compare)"""
    leaf = lambda: rng.choice([("uint", 64), ("uint", 64), ("uint", 8), "bool", "byte", "string", "address", ("uint", 32)])

    def tup(n):
        return ("tuple",) + tuple(leaf() if rng.random() < 0.8 else ("darr", leaf()) for _ in range(n))

    def shorter(t):
        k = rng.randrange(0, len(t) - 1)            # keep k members (possibly none): a proper prefix
        return ("tuple",) + tuple(respell(rng, x) for x in t[1:1 + k])

    def longer(t):
        return ("tuple",) + tuple(respell(rng, x) for x in t[1:]) + tuple(leaf() for _ in range(rng.choice([1, 1, 2])))

    def wrap(inner_p, inner_a):
        w = rng.randrange(5)
        pre = tuple(leaf() for _ in range(rng.choice([0, 1, 2])))
        post = tuple(leaf() for _ in range(rng.choice([0, 1])))
        if w == 0:
            return ("darr", inner_p), ("darr", inner_a)
        if w == 1:
            n = rng.choice([1, 2, 3])
            return ("sarr", inner_p, n), ("sarr", inner_a, n)
        if w == 2:
            return ("tuple",) + pre + (inner_p,) + post, ("tuple",) + tuple(respell(rng, x) for x in pre) + (inner_a,) + post
        if w == 3:
            return ("tuple", ("darr", inner_p)) + post, ("tuple", ("darr", inner_a)) + post
        return ("tuple",) + pre + (("tuple", inner_p),), ("tuple",) + pre + (("tuple", inner_a),)

    if kind == "arity-short":
        t = tup(rng.choice([1, 2, 3, 3, 4]))
        return t, shorter(t)
    if kind == "arity-long":
        t = tup(rng.choice([0, 1, 2, 3]))
        return t, longer(t)
    if kind == "arity-nested":
        t = tup(rng.choice([1, 2, 3]))
        a = shorter(t) if rng.random() < 0.5 else longer(t)
        p2, a2 = wrap(t, a)
        if rng.random() < 0.3:
            p2, a2 = wrap(p2, a2)
        return p2, a2
    if kind == "sarr-len":
        e = rng.choice([leaf(), tup(2)])
        n = rng.choice([1, 2, 3, 32])
        m = rng.choice([x for x in (n - 1, n + 1, 0) if x >= 0 and x != n])
        p, a = ("sarr", e, n), ("sarr", respell(rng, e), m)
        if bytish(e) and rng.random() < 0.5:
            a = ("sbytes", m)
        return (p, a) if rng.random() < 0.6 else wrap(p, a)
    e = rng.choice([leaf(), tup(2)])
    n = rng.choice([0, 1, 2, 3])
    p, a = ("darr", e), ("sarr", respell(rng, e), n)
    if rng.random() < 0.5:
        p, a = ("sarr", e, n), ("darr", respell(rng, e))
    return (p, a) if rng.random() < 0.6 else wrap(p, a)


def arity_arg(rng, a):
    return ("abi", a, A.gen_value(layout(a), rng, text=True, maxlen=3), rng.choice(["decode-const", "decode-const", "decode-arg"]))


def directed_negatives(rng):
    """a fixed list of shape mismatches (always run): parameter type, instance type"""
    U, B = ("uint", 64), "bool"
    pairs = [
        (("tuple", U, U, U), ("tuple", U, U)),                       # fewer members, shared prefix assignable
        (("tuple", U, U), ("tuple", U, U, U)),                       # more members
        (("tuple", U), ("tuple",)),                                  # the empty prefix
        (("tuple",), ("tuple", U)),
        (("tuple", "byte", "string"), ("tuple", ("uint", 8))),       # prefix assignable only through a respelling
        (("tuple", ("sarr", "byte", 32), U), ("tuple", "address")),
        (("tuple", U, ("tuple", B, U)), ("tuple", U, ("tuple", B))),             # arity mismatch inside a nested tuple
        (("tuple", U, ("tuple", B)), ("tuple", U, ("tuple", B, U))),
        (("darr", ("tuple", U, U)), ("darr", ("tuple", U))),                     # ... inside T[]
        (("sarr", ("tuple", U, U), 2), ("sarr", ("tuple", U, U, B), 2)),         # ... inside T[N]
        (("tuple", ("darr", ("tuple", "string", U))), ("tuple", ("darr", ("tuple", "string")))),
        (("sarr", U, 3), ("sarr", U, 2)), (("sarr", U, 2), ("sarr", U, 3)),      # static array length
        (("sarr", "byte", 32), ("sbytes", 31)), (("sarr", "byte", 31), "address"),
        (("darr", U), ("sarr", U, 3)), (("sarr", U, 3), ("darr", U)),            # T[] vs T[N]
        (("darr", "byte"), ("sbytes", 4)), (("sarr", "byte", 4), "string"),
        (("tuple", U, U, U), A.realistic_named(("a", "b"), (U, U))),             # a NamedTuple instance of another arity
    ]
    out = []
    for i, (p, a) in enumerate(pairs):
        pre = [("uint", 64)] if i % 3 == 1 else []
        c = {"name": "store", "params": pre + [p], "ret": None if i % 2 else ("uint", 64), "app_id": ("x", "uint", 5, "const"),
             "args": [gen_arg(rng, t) for t in pre] + [arity_arg(rng, a)], "extra": [],
             "api": ["MethodCall", "ExecuteMethodCall"][i % 2], "expect": "reject", "neg": "directed-shape"}
        out.append(c)
    return out


def directed_txn_matrix(rng):
    """every transaction kind as a declared parameter x every concrete kind as the argument's type_enum: a matching
    argument (or any argument for `txn`) is accepted, every other ordered pair is refused"""
    out = []
    n = 0
    for d in KINDS:                 # any, pay, keyreg, acfg, axfer, afrz, appl
        for a in KINDS[1:]:
            n += 1
            ok = d == "any" or d == a
            pre = [("uint", 64)] if n % 2 else []
            post = [("ref", "asset")] if n % 3 == 0 else [("uint", 64)]
            ps = pre + [("txn", d)] + post
            c = {"name": "freeze", "params": ps, "ret": None if n % 2 else ("uint", 64), "app_id": ("x", "uint", 9, "const"),
                 "args": [gen_arg(rng, t) for t in pre] + [gen_dict(rng, a)] + [gen_arg(rng, t) for t in post], "extra": [],
                 "api": ["MethodCall", "ExecuteMethodCall", "prefixed"][n % 3], "expect": "ok" if ok else "reject",
                 "neg": None if ok else "txn-kind-matrix"}
            out.append(c)
    return out


def directed_sender_cases(rng):
    """account arguments that are the app's own address / Txn.sender() / the creator / the zero address (as Global / Txn
    expressions and as constants), with and without extra_fields overriding Sender (a call on behalf of a rekeyed account),
    RekeyTo, extra Accounts: index 0 means the ACTUAL sender of the inner call"""
    other = bytes([0x5E]) * 32
    specials = [("x", "bytes", SPECIAL_ACCOUNTS[k], k) for k in sorted(SPECIAL_ACCOUNTS)] + \
               [("x", "bytes", APP_ADDR, "const"), ("x", "bytes", other, "const"), ("x", "bytes", APP_ADDR, "scratch")]
    extras = [[], [("Sender", ("x", "bytes", other, "const"))], [("Sender", ("x", "bytes", other, "arg")), ("Fee", ("x", "uint", 0, "const"))],
              [("RekeyTo", ("x", "bytes", other, "const")), ("Sender", ("x", "bytes", OUTER_SENDER, "const"))],
              [("Accounts", ("list", [("x", "bytes", other, "const")])), ("Sender", ("x", "bytes", other, "const"))],
              [("Sender", ("x", "bytes", APP_ADDR, "g:app"))]]
    out = []
    n = 0
    for a in specials:
        for ex in extras:
            n += 1
            second = specials[(n + 3) % len(specials)]
            c = {"name": "withdraw", "params": [("ref", "account"), ("uint", 64), ("ref", "account")], "ret": None if n % 2 else ("uint", 64),
                 "app_id": ("x", "uint", 77, "const"),
                 "args": [("expr", a), ("expr", ("x", "bytes", itob(5), "const"), 5), ("expr", second)], "extra": list(ex),
                 "api": ["ExecuteMethodCall", "MethodCall", "prefixed"][n % 3], "expect": "ok"}
            out.append(c)
    return out


def gen_negative(rng, idx):
    """a call with exactly one defect (or a tricky accepted variant); `neg` names it"""
    for _ in range(200):
        kind = NEG_KINDS[idx % len(NEG_KINDS)] if idx < 4 * len(NEG_KINDS) else rng.choice(NEG_KINDS)
        c = gen_case(rng, rng.choice(["small", "small", "any", "txnheavy", "refheavy"]), idx)
        c["api"] = rng.choice(["MethodCall", "ExecuteMethodCall"])
        ps, args = c["params"], c["args"]
        plain = [i for i, t in enumerate(ps) if not is_txn(t) and not is_ref(t)]
        refs = [i for i, t in enumerate(ps) if is_ref(t)]
        txns = [i for i, t in enumerate(ps) if is_txn(t)]
        c["neg"] = kind
        c["expect"] = "reject"
        if kind == "count-":
            if not args:
                continue
            args.pop(rng.randrange(len(args)))
        elif kind == "count+":
            args.insert(rng.randrange(len(args) + 1), ("expr", ("x", "bytes", b"\x00", "const")))
        elif kind in ("abi-break", "abi-wrongkind", "plain-uint-expr", "plain-none-expr", "plain-pyobj", "plain-dict", "plain-refinst", "plain-txninst", "abi-spell"):
            if not plain:
                continue
            i = rng.choice(plain)
            t = ps[i]
            if kind == "abi-break":
                a = breaking_type(rng, t)
                args[i] = ("abi", a, A.gen_value(layout(a), rng, text=True, maxlen=3), "decode-const")
            elif kind == "abi-spell":
                # same layout, direction the relation refuses (or admits): the model decides
                a = spell_any(rng, t)
                args[i] = ("abi", a, A.gen_value(layout(a), rng, text=True, maxlen=3), "decode-const")
                c["expect"] = "model"
            elif kind == "abi-wrongkind":
                args[i] = ("abi", ("ref", rng.choice(REFS)), 0, "none") if rng.random() < 0.5 else ("abi", ("txn", rng.choice(KINDS)), 0, "none")
            elif kind == "plain-uint-expr":
                args[i] = ("expr", ("x", "uint", 5, "const"))
            elif kind == "plain-none-expr":
                args[i] = ("expr", ("x", "none", 0, "const"))
            elif kind == "plain-pyobj":
                args[i] = ("other", rng.choice(["int", "str", "none", "class", "bytes", "list"]))
            elif kind == "plain-dict":
                args[i] = gen_dict(rng, "pay")
            elif kind == "plain-refinst":
                args[i] = ("refinst", rng.choice(REFS), 3)
            elif kind == "plain-txninst":
                args[i] = ("abi", ("txn", rng.choice(KINDS)), 0, "none")
        elif kind in ("ref-abi", "ref-wrong-refinst", "ref-wrong-expr", "ref-dict", "ref-pyobj"):
            if not refs:
                continue
            i = rng.choice(refs)
            k = ps[i][1]
            if kind == "ref-abi":
                a = rng.choice([("uint", 8), "address", ("uint", 64), "byte"])
                args[i] = ("abi", a, A.gen_value(layout(a), rng), "decode-const")
            elif kind == "ref-wrong-refinst":
                args[i] = ("refinst", rng.choice([x for x in REFS if x != k]), 3 if k == "account" else rand_addr(rng))
            elif kind == "ref-wrong-expr":
                args[i] = ("expr", ("x", "uint", 5, "const")) if k == "account" else ("expr", ("x", "bytes", rand_addr(rng), "const"))
            elif kind == "ref-dict":
                args[i] = gen_dict(rng, "pay")
            else:
                args[i] = ("other", rng.choice(["int", "str", "none", "bytes"]))
        elif kind.startswith("txn-"):
            if not txns:
                continue
            i = rng.choice(txns)
            k = ps[i][1]
            fs = list(args[i][1])
            te = [j for j, (n, _) in enumerate(fs) if n == "TypeEnum"][0]
            if kind == "txn-notdict":
                args[i] = rng.choice([("other", "int"), ("other", "list"), ("expr", ("x", "uint", 1, "const")), ("abi", ("txn", k), 0, "none")])
            elif kind == "txn-no-enum":
                fs.pop(te)
                args[i] = ("dict", fs)
            elif kind == "txn-int-enum":
                fs[te] = ("TypeEnum", rng.choice([("x", "uint", 1, "const"), ("other", "int"), ("list", [("enum", "pay")])]))
                args[i] = ("dict", fs)
            elif kind == "txn-wrong-kind":
                if k == "any":
                    continue
                fs[te] = ("TypeEnum", ("enum", rng.choice([x for x in KINDS[1:] if x != k])))
                args[i] = ("dict", fs)
            elif kind == "txn-odd-enum":
                fs[te] = ("TypeEnum", ("enum", rng.choice(["unknown", "NoOp", "OptIn", "account", "asset", "application", "txn", "foo"])))
                args[i] = ("dict", fs)
                c["expect"] = "model"      # EnumInt("txn") is accepted for a `txn` parameter
            elif kind == "txn-field-type":
                fs.append(rng.choice([("Amount", ("x", "bytes", b"ab", "const")), ("Receiver", ("x", "uint", 3, "const")),
                                      ("Accounts", ("list", [("x", "uint", 3, "const")])), ("Accounts", ("arr", "assets")),
                                      ("Note", ("x", "none", 0, "const"))]))
                fs = dedup_fields(fs)
                args[i] = ("dict", fs)
            elif kind == "txn-field-shape":
                fs.append(rng.choice([("Amount", ("list", [("x", "uint", 3, "const")])), ("Accounts", ("x", "bytes", rand_addr(rng), "const")),
                                      ("Note", ("arr", "application_args")), ("Accounts", ("other", "tuple")),
                                      ("Accounts", ("list", [("x", "bytes", rand_addr(rng), "const"), ("bad",)]))]))
                fs = dedup_fields(fs)
                args[i] = ("dict", fs)
            else:
                fs.append(("Amount", ("other", "int")))
                fs = dedup_fields(fs)
                args[i] = ("dict", fs)
        elif kind == "appid-bytes":
            c["app_id"] = ("x", "bytes", b"abc", "const")
        elif kind == "appid-pyobj":
            c["app_id"] = ("other", "int")
        elif kind == "extra-type":
            c["extra"] = dedup_fields(c["extra"] + [rng.choice([("Fee", ("x", "bytes", b"a", "const")), ("Note", ("x", "uint", 1, "const")),
                                                               ("Assets", ("list", [("x", "bytes", b"a", "const")])), ("Accounts", ("arr", "applications"))])])
        elif kind == "extra-shape":
            c["extra"] = dedup_fields(c["extra"] + [rng.choice([("Fee", ("list", [("x", "uint", 1, "const")])), ("Assets", ("x", "uint", 1, "const")),
                                                               ("Note", ("arr", "accounts")), ("Fee", ("other", "int"))])])
        elif kind in ARITY_KINDS:
            p, a = arity_pair(rng, kind)
            try:
                if layout(p) == layout(a) or len(ref_encode(a, A.gen_value(layout(a), random_probe(), text=True, maxlen=3))) > 500:
                    continue
            except Exception:
                continue
            if plain and rng.random() < 0.6:
                i = rng.choice(plain)
                ps[i] = p
            else:
                i = rng.randrange(len(ps) + 1)
                ps.insert(i, p)
                args.insert(i, None)
            args[i] = arity_arg(rng, a)
        elif kind == "sig-uint24":
            if not plain:
                continue
            i = rng.choice(plain)
            ps[i] = rng.choice([("uint", 24), ("darr", ("uint", 128)), ("tuple", "bool", ("uint", 512))])
            args[i] = ("expr", ("x", "bytes", b"\x00\x00\x00", "const"))
        elif kind == "ret-uint128":
            c["ret"] = rng.choice([("uint", 128), ("sarr", ("uint", 40), 2)])
        return c
    raise RuntimeError("gen_negative")


def dedup_fields(fs):
    seen, out = set(), []
    for n, v in reversed(fs):
        if n not in seen:
            seen.add(n)
            out.append((n, v))
    return list(reversed(out))


def small_cases(rng):
    """every signature of length <= 2 over one representative of each kind of parameter"""
    alpha = [("uint", 64), "string", ("ref", "account"), ("ref", "asset"), ("ref", "application"), ("txn", "pay"), ("txn", "any")]
    out = []
    sigs = [[]] + [[a] for a in alpha] + [[a, b] for a in alpha for b in alpha]
    for i, ps in enumerate(sigs):
        c = {"name": "s", "params": list(ps), "ret": None if i % 2 else ("uint", 64),
             "app_id": ("x", "uint", 5 + i, "const"), "args": [gen_arg(rng, t) for t in ps], "extra": [],
             "api": ["MethodCall", "ExecuteMethodCall", "prefixed"][i % 3], "expect": "ok"}
        out.append(c)
    return out


def finding_case():
    ps = [("uint", 64)] * 16
    return {"name": "f", "params": ps, "ret": None, "app_id": ("x", "uint", 5, "const"),
            "args": [("abi", ("uint", 64), i, "set") for i in range(16)], "extra": [], "api": "MethodCall", "expect": "ok"}


# ---------------------------------------------------------------------------------------------
# the real expression
# ---------------------------------------------------------------------------------------------
class Real:
    """Builds the real PyTeal objects of a case through the public constructors and collects what the outer
    transaction must contain for the run-time expressions to evaluate to the intended values."""

    def __init__(self, pt):
        self.pt = pt
        self.prelude = []
        self.oargs, self.oaccts, self.oassets, self.oapps = [], [], [], []

    def enum(self, name):
        pt = self.pt
        table = {"unknown": pt.TxnType.Unknown, "pay": pt.TxnType.Payment, "keyreg": pt.TxnType.KeyRegistration, "acfg": pt.TxnType.AssetConfig,
                 "axfer": pt.TxnType.AssetTransfer, "afrz": pt.TxnType.AssetFreeze, "appl": pt.TxnType.ApplicationCall,
                 "NoOp": pt.OnComplete.NoOp, "OptIn": pt.OnComplete.OptIn, "CloseOut": pt.OnComplete.CloseOut,
                 "ClearState": pt.OnComplete.ClearState, "UpdateApplication": pt.OnComplete.UpdateApplication,
                 "DeleteApplication": pt.OnComplete.DeleteApplication}
        return table[name] if name in table else pt.EnumInt(name)

    def const(self, v):
        return self.pt.Int(v) if isinstance(v, int) else self.pt.Bytes(v)

    def x(self, x):
        pt = self.pt
        if x[0] == "enum":
            return self.enum(x[1])
        if x[0] == "other":
            return self.pyobj(x[1])
        _, tt, v, src = x
        if tt == "none":
            return pt.Pop(pt.Int(1))
        if src == "g:app":
            return pt.Global.current_application_address()
        if src == "g:creator":
            return pt.Global.creator_address()
        if src == "g:zero":
            return pt.Global.zero_address()
        if src == "t:sender":
            return pt.Txn.sender()
        if src == "const":
            return self.const(v)
        if src == "arg":
            i = len(self.oargs)
            self.oargs.append(v if isinstance(v, bytes) else itob(v))
            e = pt.Txn.application_args[i]
            return e if isinstance(v, bytes) else pt.Btoi(e)
        sv = pt.ScratchVar(pt.TealType.anytype)
        self.prelude.append(sv.store(self.const(v)))
        return sv.load()

    def pyobj(self, tag):
        from pyteal import abi
        return {"int": 5, "str": "five", "none": None, "class": abi.Uint64, "bytes": b"five", "list": [self.pt.Int(1)],
                "tuple": (self.pt.Bytes(b"A" * 32),)}[tag]

    def fval(self, fv):
        pt = self.pt
        if fv[0] == "list":
            return [5 if e[0] == "bad" else self.x(e) for e in fv[1]]
        if fv[0] == "arr":
            return {"accounts": pt.Txn.accounts, "assets": pt.Txn.assets, "applications": pt.Txn.applications,
                    "application_args": pt.Txn.application_args}[fv[1]]
        return self.x(fv)

    def fdict(self, fs):
        F = txn_fields()
        return {F[n]: self.fval(v) for n, v in fs}

    def arg(self, a):
        pt = self.pt
        from pyteal import abi
        k = a[0]
        if k == "expr":
            return self.x(a[1])
        if k == "other":
            return self.pyobj(a[1])
        if k == "dict":
            return self.fdict(a[1])
        if k == "refinst":
            _, kind, v = a
            if kind == "account":
                inst, idx = abi.Account(), len(self.oaccts) + 1
                self.oaccts.append(v)
            elif kind == "asset":
                inst, idx = abi.Asset(), len(self.oassets)
                self.oassets.append(v)
            else:
                inst, idx = abi.Application(), len(self.oapps) + 1
                self.oapps.append(v)
            self.prelude.append(inst.decode(pt.Bytes(bytes([idx]))))
            return inst
        _, at, v, how = a
        inst = A.to_pyteal(at).new_instance()
        if A.has_special(at):
            return inst
        enc = ref_encode(at, v)
        leaf = isinstance(at, str) or at[0] == "uint"
        if how == "set" and leaf and at != "dynbytes":
            if at == "string":
                self.prelude.append(inst.set(v.decode("utf-8")))
            elif at == "address":
                self.prelude.append(inst.set(pt.Bytes(v)))
            else:
                self.prelude.append(inst.set(v))
        elif how == "decode-arg":
            i = len(self.oargs)
            self.oargs.append(enc)
            self.prelude.append(inst.decode(pt.Txn.application_args[i]))
        else:
            self.prelude.append(inst.decode(pt.Bytes(enc)))
        return inst

    def outer_arrays(self):
        return {"application_args": list(self.oargs), "accounts": [OUTER_SENDER] + self.oaccts, "assets": list(self.oassets),
                "applications": [CUR_APP] + self.oapps}

    def txn_array_content(self, which):
        """what For(i < arr.length()) arr[i] reads from the outer transaction (NumX entries starting at index 0)"""
        arrs = self.outer_arrays()
        n = {"application_args": len(self.oargs), "accounts": len(self.oaccts), "assets": len(self.oassets), "applications": len(self.oapps)}[which]
        return arrs[which][:n]


def sig_string(case):
    return CL.signature(case["name"], [A.arc4_str(t) for t in case["params"]], "void" if case["ret"] is None else A.arc4_str(case["ret"]))


PREFIX_TX = [("TypeEnum", 1), ("Amount", 77)]


def build_real(pt, case):
    """-> (Real, ('ok', expr) | ('exc', class, msg))"""
    B = pt.InnerTxnBuilder
    F = txn_fields()
    rb = Real(pt)
    objs = [rb.arg(a) for a in case["args"]]
    aid = case["app_id"]
    app_id = None if aid[0] == "none" else rb.x(aid)
    extra = rb.fdict(case["extra"]) if case["extra"] else (None if len(repr(case)) % 2 else {})
    kw = dict(app_id=app_id, method_signature=sig_string(case), args=objs, extra_fields=extra)
    if case["api"] == "ExecuteMethodCall":
        r = call_real(lambda: B.ExecuteMethodCall(**kw))
        if r[0] != "ok":
            return rb, r
        return rb, ("ok", pt.Seq(*rb.prelude, r[1], pt.Approve()))
    r = call_real(lambda: B.MethodCall(**kw))
    if r[0] != "ok":
        return rb, r
    pre = []
    if case["api"] == "prefixed":
        pre = [B.SetFields({F["TypeEnum"]: pt.TxnType.Payment, F["Amount"]: pt.Int(77)}), B.Next()]
    return rb, ("ok", pt.Seq(*rb.prelude, B.Begin(), *pre, r[1], B.Submit(), pt.Approve()))


def outer_ctx(rb, teal):
    arrs = rb.outer_arrays()
    msel = tuple((s, CL.selector(s)) for s in sorted(set(re.findall(r'^method "(.*)"$', teal, re.M))))
    fields = (("TypeEnum", 6), ("OnCompletion", 0), ("ApplicationID", CUR_APP), ("GroupIndex", 0), ("Sender", OUTER_SENDER), ("Fee", 1000),
              ("NumAppArgs", len(rb.oargs)), ("NumAccounts", len(rb.oaccts)), ("NumAssets", len(rb.oassets)), ("NumApplications", len(rb.oapps)))
    me = ((S("fields"),) + fields,
          (S("arrays"), ("ApplicationArgs", tuple(arrs["application_args"])), ("Accounts", tuple(arrs["accounts"])),
           ("Assets", tuple(arrs["assets"])), ("Applications", tuple(arrs["applications"]))))
    return (S("ctx"), (S("mode"), S("app")), (S("gi"), 0), (S("app-id"), CUR_APP), (S("group"), me),
            (S("globals"), ("GroupSize", 1), ("CurrentApplicationID", CUR_APP), ("CurrentApplicationAddress", APP_ADDR), ("CreatorAddress", CREATOR_ADDR), ("ZeroAddress", bytes(32))),
            (S("msel"),) + msel, (S("fuel"), 200000))


def submitted_groups(res):
    """('approve'|..., [group, ...]) with group = [[(field, value)...]...]"""
    if not isinstance(res, list) or not res or res[0] != S("ran"):
        return "bad-response:%r" % (res,), []
    v = res[1]
    verdict = "unsup:" + str(v[1]) if isinstance(v, list) else v.name
    groups = []
    for e in res[3][1:]:
        if e[0] == S("submit"):
            groups.append([[(kv[0], val_of(kv[1])) for kv in tx] for tx in e[1:]])
    return verdict, groups


def val_of(x):
    return x if isinstance(x, (int, bytes)) else (x.encode("latin-1") if isinstance(x, str) else x)


# ---------------------------------------------------------------------------------------------
# the model
# ---------------------------------------------------------------------------------------------
def x_sx(x, rb):
    if x[0] == "enum":
        return (S("enum"), x[1])
    _, tt, v, _src = x
    return (S("x"), S(tt), v)


def fval_sx(fv, rb):
    if fv[0] == "other":
        return S("other")
    if fv[0] == "list":
        return (S("list"),) + tuple(S("bad") if e[0] == "bad" else (S("other") if e[0] == "other" else x_sx(e, rb)) for e in fv[1])
    if fv[0] == "arr":
        tt = "uint" if fv[1] in ("assets", "applications") else "bytes"
        return (S("arr"), S(tt)) + tuple(rb.txn_array_content(fv[1]))
    return x_sx(fv, rb)


def fields_sx(fs, rb):
    return tuple((n, fval_sx(v, rb)) for n, v in fs)


def arg_sx(a, rb):
    k = a[0]
    if k == "expr":
        return (S("expr"), x_sx(a[1], rb))
    if k == "other":
        return S("other")
    if k == "dict":
        return (S("dict"),) + fields_sx(a[1], rb)
    if k == "refinst":
        return (S("refinst"), S(a[1]), a[2])
    _, at, v, _how = a
    return (S("abi"), A.ty_sx(at), 0 if A.has_special(at) else A.val_sx(v))


def sig_sx(case):
    return (S("sig"), case["name"], tuple(A.ty_sx(t) for t in case["params"]), S("void") if case["ret"] is None else A.ty_sx(case["ret"]))


def model_request(case, rb):
    aid = case["app_id"]
    a = S("none") if aid[0] == "none" else (S("other") if aid[0] == "other" else x_sx(aid, rb))
    return (S("methodcall"), CL.selector(sig_string(case)), sig_sx(case), a,
            tuple(arg_sx(x, rb) for x in case["args"]), fields_sx(case["extra"], rb))


def model_outcome(r):
    """('ok', group) | ('err', class) | ('bad', text)"""
    if isinstance(r, list) and r and r[0] == S("ok"):
        return ("ok", [[(kv[0], val_of(kv[1])) for kv in tx] for tx in r[1:]])
    if isinstance(r, list) and r and r[0] == S("err"):
        return ("err", r[1].name)
    return ("bad", repr(r)[:300])


# ---------------------------------------------------------------------------------------------
# the independent reading of a case: what was passed, at the ARC-4 level
# ---------------------------------------------------------------------------------------------
def x_value(x):
    if x[0] == "enum":
        return ENUM_VALUES.get(x[1], 0)
    return x[2]


def expand_fields(fs, rb):
    """the (field, value) sequence a dict of fields means, arrays element by element"""
    out = []
    for n, fv in fs:
        if fv[0] == "list":
            out += [(n, x_value(e)) for e in fv[1]]
        elif fv[0] == "arr":
            out += [(n, v) for v in rb.txn_array_content(fv[1])]
        else:
            out.append((n, x_value(fv)))
    return out


def client_args(case, rb):
    """arguments in the client's terms; None when the case has an argument with no ARC-4 meaning (negative cases)"""
    out = []
    for t, a in zip(case["params"], case["args"]):
        if is_txn(t):
            if a[0] != "dict":
                return None
            fs = expand_fields(a[1], rb)
            te = [v for n, v in fs if n == "TypeEnum"]
            out.append({"type": te[-1] if te else None, "fields": fs})
        elif is_ref(t):
            if a[0] == "expr":
                out.append(a[1][2])
            elif a[0] == "refinst":
                out.append(a[2])
            else:
                return None
        else:
            if a[0] == "abi":
                out.append(a[2])
            elif a[0] == "expr" and len(a) > 2:
                out.append(a[2])
            else:
                return None
    return out


def arr(tx, name):
    return [v for n, v in tx if n == name]


def scalar(tx, name):
    vs = arr(tx, name)
    return vs[-1] if vs else None


def oracle(case, rb, group):
    """discrepancies between the recorded group and what ARC-4 prescribes for the call that was made"""
    cargs = client_args(case, rb)
    if cargs is None:
        return ["the call was accepted although an argument has no ARC-4 reading: %r" % (case.get("neg"),)]
    strs = [A.arc4_str(t) for t in case["params"]]
    try:
        e = CL.expect_call(case["name"], strs, "void" if case["ret"] is None else A.arc4_str(case["ret"]), cargs)
    except CL.EncodeError as ex:
        return ["the call was accepted although an argument does not fit the signature: %s" % ex]
    if not group:
        return ["no inner transaction recorded"]
    call = group[-1]
    pre = group[:-1]
    if case["api"] == "prefixed":
        if not pre or pre[0] != PREFIX_TX:
            return ["the transaction begun before MethodCall is not first in the group: %r" % (pre[:1],)]
        pre = pre[1:]
    bad = []
    if scalar(call, "TypeEnum") != 6:
        bad.append("the call's TypeEnum is %r" % (scalar(call, "TypeEnum"),))
    aid = case["app_id"]
    callee = 0
    if aid[0] != "none":
        callee = x_value(aid)
        if scalar(call, "ApplicationID") != callee:
            bad.append("ApplicationID is %r, app_id passed is %r" % (scalar(call, "ApplicationID"), callee))
    elif scalar(call, "ApplicationID") is not None:
        bad.append("ApplicationID set although app_id is None")
    ex = expand_fields(case["extra"], rb)
    extra_args = [v for n, v in ex if n == "ApplicationArgs"]
    app_args = arr(call, "ApplicationArgs")
    if extra_args:
        if app_args[len(app_args) - len(extra_args):] != extra_args:
            bad.append("extra ApplicationArgs are not last")
        app_args = app_args[:len(app_args) - len(extra_args)]
    for n in sorted(set(n for n, _ in ex)):
        want = [v for m, v in ex if m == n]
        got = arr(call, n)
        if got[len(got) - len(want):] != want:
            bad.append("extra field %s: recorded %r, passed %r" % (n, got, want))
    if any(not isinstance(b, bytes) for b in app_args):
        bad.append("an application argument is not a byte string")
        return bad
    # index 0 of Accounts means the inner transaction's ACTUAL sender: the Sender field if the call sets one, else the app's account
    actual_sender = scalar(call, "Sender") if scalar(call, "Sender") is not None else APP_ADDR
    bad += CL.check_call(e, app_args, arr(call, "Accounts"), arr(call, "Assets"), arr(call, "Applications"), pre, actual_sender, callee)
    return bad


# ---------------------------------------------------------------------------------------------
# round trip: a PyTeal Router method of the same signature as callee
# ---------------------------------------------------------------------------------------------
def roundtrip_applicable(case):
    if case["app_id"][0] == "none" or x_value(case["app_id"]) == 0:
        return False
    for n, fv in case["extra"]:
        if n == "OnCompletion" and (fv[0] != "enum" or fv[1] != "NoOp") and not (fv[0] == "x" and fv[2] == 0):
            return False
        if n == "ApplicationArgs":
            return False
    return True


def build_callee(pt, case):
    from pyteal import abi
    params = case["params"]

    def body(ps, output):
        steps = []
        for p, t in zip(ps, params):
            if is_txn(t):
                steps.append(pt.Log(pt.Concat(pt.Bytes(b"T"), pt.Itob(p.index()), pt.Itob(p.get().type_enum()))))
            elif is_ref(t):
                if t[1] == "account":
                    steps.append(pt.Log(pt.Concat(pt.Bytes(b"A"), p.address())))
                elif t[1] == "asset":
                    steps.append(pt.Log(pt.Concat(pt.Bytes(b"S"), pt.Itob(p.asset_id()))))
                else:
                    steps.append(pt.Log(pt.Concat(pt.Bytes(b"P"), pt.Itob(p.application_id()))))
            else:
                steps.append(pt.Log(pt.Concat(pt.Bytes(b"V"), p.encode())))
        if output is not None:
            rt = case["ret"]
            steps.append(output.decode(pt.Bytes(ref_encode(rt, A.gen_value(layout(rt), __import__("random").Random(7), text=True, maxlen=2)))))
        return pt.Seq(*steps) if steps else pt.Seq(pt.Pop(pt.Int(0)))

    g = {"__body": body}
    parts = []
    for i, t in enumerate(params):
        g["T%d" % i] = A.to_pyteal(t).annotation_type()
        parts.append("p%d: T%d" % (i, i))
    if case["ret"] is not None:
        g["R"] = A.to_pyteal(case["ret"]).annotation_type()
        parts.append("*, output: R")
    src = "def %s(%s):\n    return __body([%s], %s)\n" % (
        case["name"], ", ".join(parts), ", ".join("p%d" % i for i in range(len(params))), "output" if case["ret"] is not None else "None")
    exec(src, g)
    router = pt.Router("c14callee")
    router.add_method_handler(pt.ABIReturnSubroutine(g[case["name"]]))
    return router


def callee_ctx(case, group, teal, callee_id):
    call = group[-1]
    txs = []
    for gi, tx in enumerate(group[:-1]):
        d = {"TypeEnum": 0, "Amount": 0, "Note": b"", "Fee": 0, "OnCompletion": 0, "ApplicationID": 0, "NumAppArgs": 0, "Sender": APP_ADDR}
        for n, v in tx:
            if not field_kind(n)[1]:
                d[n] = v
        d["GroupIndex"] = gi
        txs.append(((S("fields"),) + tuple(d.items()), (S("arrays"),)))
    gi = len(txs)
    aa, ac, asx, ap = arr(call, "ApplicationArgs"), arr(call, "Accounts"), arr(call, "Assets"), arr(call, "Applications")
    snd = scalar(call, "Sender") if isinstance(scalar(call, "Sender"), bytes) else APP_ADDR
    me = ((S("fields"), ("TypeEnum", 6), ("OnCompletion", 0), ("ApplicationID", callee_id), ("NumAppArgs", len(aa)), ("GroupIndex", gi),
           ("Sender", snd), ("Fee", 0), ("NumAccounts", len(ac)), ("NumAssets", len(asx)), ("NumApplications", len(ap))),
          (S("arrays"), ("ApplicationArgs", tuple(aa)), ("Accounts", tuple([snd] + ac)), ("Assets", tuple(asx)),
           ("Applications", tuple([callee_id] + ap))))
    msel = tuple((s, CL.selector(s)) for s in sorted(set(re.findall(r'^method "(.*)"$', teal, re.M))))
    return (S("ctx"), (S("mode"), S("app")), (S("gi"), gi), (S("app-id"), callee_id), (S("group"),) + tuple(txs) + (me,),
            (S("globals"), ("GroupSize", gi + 1), ("CurrentApplicationID", callee_id), ("ZeroAddress", bytes(32))),
            (S("msel"),) + msel, (S("fuel"), 400000))


def expected_callee_logs(case, rb, n_before):
    cargs = client_args(case, rb)
    out = []
    ntx = sum(1 for t in case["params"] if is_txn(t))
    j = 0
    for t, a in zip(case["params"], cargs):
        if is_txn(t):
            out.append(b"T" + itob(n_before + j) + itob(a["type"]))
            j += 1
        elif is_ref(t):
            out.append({"account": b"A", "asset": b"S", "application": b"P"}[t[1]] + (a if isinstance(a, bytes) else itob(a)))
        else:
            out.append(b"V" + CL.encode_str(A.arc4_str(t), a))
    return out


# ---------------------------------------------------------------------------------------------
# one case
# ---------------------------------------------------------------------------------------------
_models = {}


def model(name):
    if name not in _models:
        _models[name] = Model(name)
    return _models[name]


def new_out():
    return {"n": {"built": 0, "rejected": 0, "runs": 0, "oracle": 0, "roundtrip": 0, "model_requests": 0},
            "corr": [], "oracle_bad": [], "roundtrip_bad": [], "reject_bad": [], "crash": [], "model": [], "unsup": {}, "teal": None, "group": None,
            "model_outcome": None, "real_outcome": None}


def run_case(case, versions, do_roundtrip=True):
    import pyteal as pt
    out = new_out()
    rb, r = build_real(pt, case)
    mo = model_outcome(model("c14").ask(model_request(case, rb)))
    out["n"]["model_requests"] += 1
    out["model_outcome"] = mo[0] if mo[0] != "err" else "err:" + mo[1]
    if mo[0] == "bad" or (mo[0] == "err" and mo[1] == "outside-model"):
        out["model"].append("model cannot read / is not defined on the case: %r" % (mo,))
        return out
    if r[0] != "ok":
        out["n"]["rejected"] += 1
        out["real_outcome"] = "exc:" + r[1]
        if mo[0] == "ok":
            out["corr"].append({"kind": "acceptance", "real": r[1:], "model": "accepts"})
        elif r[1] not in ERR_CLASS.get(mo[1], ()):
            out["corr"].append({"kind": "error-class", "real": r[1:], "model": mo[1]})
        # property level: an argument that does not fit must be refused with a PyTeal error
        neg = case.get("neg", "")
        if r[1] not in PYTEAL_ERRORS:
            documented = (r[1] == "TypeError" and neg in ("txn-field-nonexpr", "appid-pyobj", "extra-shape", "txn-int-enum")) or \
                         (r[1] in ("ABIEncodingError",) and case.get("many_refs"))
            if not documented:
                out["crash"].append({"kind": "non-pyteal-exception", "exception": r[1:], "neg": neg})
        return out
    out["real_outcome"] = "ok"
    out["n"]["built"] += 1
    if mo[0] == "err":
        out["corr"].append({"kind": "acceptance", "real": "accepts", "model": mo[1]})
    if case["expect"] == "reject":
        out["reject_bad"].append({"kind": "accepted-misfit", "neg": case.get("neg")})
    expr = r[1]
    for v in versions:
        rc = call_real(pt.compileTeal, expr, pt.Mode.Application, version=v)
        if rc[0] != "ok":
            out["crash"].append({"kind": "compile", "version": v, "exception": rc[1:]})
            continue
        teal = rc[1]
        res = model("main").ask((S("run"), outer_ctx(rb, teal), teal))
        out["n"]["runs"] += 1
        verdict, groups = submitted_groups(res)
        if verdict.startswith("unsup") or verdict.startswith("bad-response") or verdict == "fuel":
            out["unsup"][verdict[:60]] = out["unsup"].get(verdict[:60], 0) + 1
            continue
        if verdict != "approve" or len(groups) != 1:
            out["corr"].append({"kind": "run", "version": v, "verdict": verdict, "groups": len(groups)})
            continue
        group = groups[0]
        if out["teal"] is None:
            out["teal"], out["group"] = teal, group
        if mo[0] == "ok":
            want = ([PREFIX_TX] if case["api"] == "prefixed" else []) + mo[1]
            if group != want:
                out["corr"].append({"kind": "group", "version": v, "real": group, "model": want})
        # ---- oracle (independent of the model) ----
        bad = oracle(case, rb, group)
        out["n"]["oracle"] += 1
        if bad:
            out["oracle_bad"].append({"version": v, "what": bad[:6], "group": group})
        # ---- round trip ----
        if do_roundtrip and roundtrip_applicable(case) and client_args(case, rb) is not None and v == versions[0]:
            rt = roundtrip(pt, case, rb, group, v)
            if rt is not None:
                out["n"]["roundtrip"] += 1
                if rt[0] == "unsup":
                    out["unsup"][rt[1][:60]] = out["unsup"].get(rt[1][:60], 0) + 1
                elif rt[0] == "bad":
                    out["roundtrip_bad"].append({"version": v, "what": rt[1], "group": group})
    return out


def roundtrip(pt, case, rb, group, version):
    rr = call_real(lambda: build_callee(pt, case).compile_program(version=version))
    if rr[0] != "ok":
        return None        # the Router does not take a method of this signature (not C14's subject)
    approval = rr[1][0]
    callee_id = x_value(case["app_id"])
    n_before = len(group) - 1 - sum(1 for t in case["params"] if is_txn(t))
    res = model("main").ask((S("run"), callee_ctx(case, group, approval, callee_id), approval))
    if not isinstance(res, list) or not res or res[0] != S("ran"):
        return ("unsup", "bad-response")
    v = res[1]
    if isinstance(v, list):
        return ("unsup", "unsup:" + str(v[1]))
    if v.name == "fuel":
        return ("unsup", "fuel")
    logs = [e[1] for e in res[3][1:] if e[0] == S("log")]
    logs = [l if isinstance(l, bytes) else l.encode("latin-1") for l in logs]
    try:
        want = expected_callee_logs(case, rb, n_before)
    except CL.EncodeError as ex:
        return ("bad", "an accepted argument has no ARC-4 encoding at the signature's type: %s" % ex)
    if v.name != "approve":
        return ("bad", "the callee (Router method %s) %ss the recorded call" % (sig_string(case), v.name))
    got = logs[:len(want)]
    if got != want:
        k = [i for i, (a, b) in enumerate(zip(got, want)) if a != b]
        i = k[0] if k else min(len(got), len(want))
        return ("bad", "the callee decodes parameter %d as %s, the value passed is %s" % (
            i, got[i].hex() if i < len(got) else None, want[i].hex() if i < len(want) else None))
    if case["ret"] is not None and (len(logs) != len(want) + 1 or not logs[-1].startswith(bytes.fromhex("151f7c75"))):
        return ("bad", "callee's return log missing")
    return ("ok",)


def worker(job):
    idx, case, versions = job
    try:
        return idx, run_case(case, versions)
    except Exception as e:  # noqa
        import traceback
        tb = traceback.format_exc()
        in_repo = any(fr.filename.startswith(REPO) for fr in traceback.extract_tb(e.__traceback__))
        r = new_out()
        if in_repo:
            r["crash"].append({"kind": "exception", "exception": (type(e).__name__, str(e)[:300]), "tb": tb[-1500:]})
        else:
            r["model"].append("harness exception %s: %s\n%s" % (type(e).__name__, e, tb[-1500:]))
        return idx, r


# ---------------------------------------------------------------------------------------------
# spec validation: the independent client vs algosdk and vs the Coq spec
# ---------------------------------------------------------------------------------------------
def spec_validation(ck, rng, n):
    m = model("c14")
    cnt = 0
    for i in range(n):
        t = gen_sig_plain(rng, rng.choice([0, 1, 2, 3]))
        v = A.gen_value(layout(t), rng, text=True, maxlen=4)
        s = A.arc4_str(t)
        mine = CL.encode_str(s, v)
        sdk = ref_encode(t, v)
        r = m.ask((S("encode"), A.ty_sx(t), A.val_sx(v)))
        coq = r[1] if r[0] == S("some") else None
        cnt += 1
        if not (mine == sdk == coq):
            ck.model_problem("ARC-4 encoders disagree on %s %r: client %s algosdk %s coq %r" % (s, v, mine.hex(), sdk.hex(), coq))
        parts = None
        if not isinstance(t, str) and t[0] == "tuple":
            parts = CL.split_tuple([CL.parse(A.arc4_str(x)) for x in t[1:]], mine)
            want = [CL.encode_str(A.arc4_str(x), y) for x, y in zip(t[1:], v)]
            if parts != want:
                ck.model_problem("client split_tuple wrong on %s %r" % (s, v))
    # pack: 14 alone + one tuple beyond 15
    for k in (0, 1, 14, 15, 16, 17, 20):
        ts = [gen_sig_plain(rng, rng.choice([0, 1])) for _ in range(k)]
        vs = [A.gen_value(layout(t), rng, text=True, maxlen=2) for t in ts]
        e = CL.expect_call("p", [A.arc4_str(t) for t in ts], "void", vs)
        want = []
        for sl in e.slots:
            if sl[0] == "bytes":
                want.append(sl[1])
            else:
                want.append(CL.encode_tuple([CL.parse(x) for x in sl[1]], vs[14:]))
        r = m.ask((S("pack"),) + tuple((A.ty_sx(t), A.val_sx(v)) for t, v in zip(ts, vs)))
        got = [b if isinstance(b, bytes) else b for b in r[1:]] if r[0] == S("some") else None
        cnt += 1
        if got != want:
            ck.model_problem("Coq pack and the independent client disagree for %d arguments" % k)
        # algosdk's composer packs the same way: compare through its Method/ABI types
        import algosdk.abi as sabi
        if k > 15:
            tup = sabi.TupleType([sabi.ABIType.from_string(A.arc4_str(t)) for t in ts[14:]])
            if tup.encode([A.sdk_value(sabi.ABIType.from_string(A.arc4_str(t)), v) for t, v in zip(ts[14:], vs[14:])]) != want[14]:
                ck.model_problem("tuple of the 15th.. arguments differs from algosdk")
    return cnt


# ---------------------------------------------------------------------------------------------
# shrinking
# ---------------------------------------------------------------------------------------------
def fails_oracle(case, versions):
    r = run_case(case, versions)
    return bool(r["oracle_bad"] or r["roundtrip_bad"]), r


def shrink(case, versions, budget=120):
    """smallest variant of the case that still fails the oracle / round trip"""
    best = case
    ok, _ = fails_oracle(best, versions)
    if not ok:
        return best
    changed = True
    while changed and budget > 0:
        changed = False
        cands = []
        n = len(best["params"])
        for i in range(n):
            c = dict(best)
            c["params"] = best["params"][:i] + best["params"][i + 1:]
            c["args"] = best["args"][:i] + best["args"][i + 1:]
            cands.append(c)
        if best["extra"]:
            c = dict(best)
            c["extra"] = []
            cands.append(c)
        if best["ret"] is not None:
            c = dict(best)
            c["ret"] = None
            cands.append(c)
        if best["api"] != "MethodCall":
            c = dict(best)
            c["api"] = "MethodCall"
            cands.append(c)
        for i, (t, a) in enumerate(zip(best["params"], best["args"])):
            if not is_txn(t) and not is_ref(t) and t != ("uint", 64) and len(best["args"]) == len(best["params"]):
                c = dict(best)
                c["params"] = best["params"][:i] + [("uint", 64)] + best["params"][i + 1:]
                c["args"] = best["args"][:i] + [("abi", ("uint", 64), i, "decode-const")] + best["args"][i + 1:]
                cands.append(c)
        for c in cands:
            budget -= 1
            if budget <= 0:
                break
            try:
                bad, _ = fails_oracle(c, versions)
            except Exception:
                bad = False
            if bad:
                best = c
                changed = True
                break
    return best


# ---------------------------------------------------------------------------------------------
# main
# ---------------------------------------------------------------------------------------------
def versions_for(i, tier, origin):
    if tier == "thorough" or origin in ("corpus", "finding"):
        return [6, 7, 8, 9, 10]
    return [[6, 9], [7, 10], [8, 6], [10, 7], [9, 8]][i % 5]


def case_summary(case):
    return {"signature": sig_string(case), "api": case["api"], "args": [a[0] if a[0] != "abi" else "abi:" + A.arc4_str(a[1]) for a in case["args"]],
            "extra": [n for n, _ in case["extra"]], "neg": case.get("neg")}


def is_known(case, out):
    """class predicate of the known finding: more than 15 non-transaction arguments, and the faithful model
    reproduces the real output exactly (so nothing else is wrong with the case)"""
    return non_txn(case["params"]) > 15 and not out["corr"] and not out["crash"] and not out["reject_bad"] and case["expect"] != "reject"


def main(argv):
    args = parse_args(argv)
    ck = Check("C14", args.tier)
    thorough = args.tier == "thorough"
    t0 = time.time()
    phase = {}

    # ---- (1) tables + proofs ----
    for script in ("translate.py", "c04_translate.py"):
        rc, tlog = sh("%s %s/harness/%s" % (PY, VERIF, script))
        if rc != 0:
            ck.violation("translator aborted: PyTeal's tables no longer have the expected shape", {"broken": "harness/" + script, "log": tlog[-2000:]}, no_failing_input=True)
    ck.run_proofs("Props/C14.v", PROOF_FILES, extra_targets=["Extract/Main_c14.vo", "Extract/Main.vo"])
    phase["proofs"] = round(time.time() - t0, 1)
    built, last = False, ""
    for attempt in range(3):
        # the Coq tree is shared: a concurrent regeneration of Gen/*.v between `make` and the extraction makes the
        # extraction see inconsistent .vo files — rebuild and try again before calling it a failure
        try:
            model("c14")
            model("main")
            built = True
            break
        except RuntimeError as e:
            last = str(e)
            for m_ in list(_models.values()):
                m_.close()
            _models.clear()
            coq_make(["Extract/Main_c14.vo", "Extract/Main.vo"], tag="C14")
    if not built:
        ck.violation("extracted model does not build", {"broken": "ocaml/pv_c14 / pvmodel", "log": last[-1500:]}, no_failing_input=True)
        return ck.finish(level="proof", rule="model build failed", trusted_base=[])

    if args.replay:
        return replay(ck, args.replay)

    import pyteal as pt  # noqa

    # ---- (2) spec validation ----
    t1 = time.time()
    nspec = spec_validation(ck, ck.rng, 1500 if thorough else 400)
    ck.evaluations += nspec
    ck.coverage["spec_validation_cases"] = nspec
    phase["spec"] = round(time.time() - t1, 1)

    # ---- cases ----
    cases = []
    if os.path.exists(CORPUS):
        cases += [("corpus", normalize_case(jl(c))) for c in json.load(open(CORPUS))]
    cases.append(("finding", finding_case()))
    cases += [("small", c) for c in small_cases(ck.rng)]
    cases += [("directed", c) for c in directed_negatives(ck.rng)]
    cases += [("directed", c) for c in directed_txn_matrix(ck.rng)]
    cases += [("directed", c) for c in directed_sender_cases(ck.rng)]
    nrand = 6000 if thorough else 600
    profiles = ["any", "cutoff", "small", "txnheavy", "refheavy", "any", "small"]
    for i in range(nrand):
        cases.append(("random:" + profiles[i % len(profiles)], gen_case(ck.rng, profiles[i % len(profiles)], i)))
    nneg = 2000 if thorough else 300
    for i in range(nneg):
        cases.append(("negative", gen_negative(ck.rng, i)))
    if thorough:
        many = {"name": "many", "params": [("ref", "account")] * 256, "ret": None, "app_id": ("x", "uint", 5, "const"),
                "args": [("expr", ("x", "bytes", bytes([7]) * 32, "const"))] * 256, "extra": [], "api": "MethodCall", "expect": "reject",
                "neg": "256-refs", "many_refs": True}
        cases.append(("negative", many))
    jobs = [(i, c, versions_for(i, args.tier, o)) for i, (o, c) in enumerate(cases)]

    t1 = time.time()
    for m_ in list(_models.values()):
        m_.close()
    _models.clear()
    import multiprocessing as mp
    with mp.get_context("fork").Pool(min(NPROC, 16)) as pool:
        results = pool.map(worker, jobs, chunksize=4)
    phase["cases"] = round(time.time() - t1, 1)

    # ---- aggregate ----
    tot = new_out()["n"]
    hist = {"params": {}, "non_txn_args": {}, "txn_args": {}, "ref_args": {}, "origin": {}, "api": {}, "outcome": {}, "neg_kind": {}, "arg_forms": {}, "versions": {}}
    unsup = {}
    corr, orc, rtb, rej, crash, model_bad, known_hits = [], [], [], [], [], [], []
    b = lambda d, k: d.__setitem__(k, d.get(k, 0) + 1)
    for idx, r in results:
        origin, case = cases[idx]
        ps = case["params"]
        for k, v in r["n"].items():
            tot[k] += v
        for k, v in r["unsup"].items():
            unsup[k] = unsup.get(k, 0) + v
        b(hist["params"], len(ps))
        b(hist["non_txn_args"], non_txn(ps))
        b(hist["txn_args"], len(ps) - non_txn(ps))
        b(hist["ref_args"], sum(1 for t in ps if is_ref(t)))
        b(hist["origin"], origin.split(":")[0])
        b(hist["api"], case["api"])
        b(hist["outcome"], "%s/%s" % (r["real_outcome"], r["model_outcome"]))
        if case.get("neg"):
            b(hist["neg_kind"], case["neg"])
        for a in case["args"]:
            b(hist["arg_forms"], a[0] if a[0] != "expr" else "expr:" + (a[1][1] if a[1][0] == "x" else "enum") + ":" + (a[1][3] if a[1][0] == "x" else ""))
        for v in jobs[idx][2]:
            b(hist["versions"], v)
            ck.count((idx, v, repr(case)), nontrivial=len(ps) > 0)
        model_bad += r["model"]
        known = is_known(case, r)
        for x in r["corr"]:
            corr.append((idx, x))
        for x in r["oracle_bad"]:
            (known_hits if known else orc).append((idx, x))
        for x in r["roundtrip_bad"]:
            (known_hits if known else rtb).append((idx, x))
        for x in r["reject_bad"]:
            rej.append((idx, x))
        for x in r["crash"]:
            crash.append((idx, x))
        if len(ck.samples) < 5 and origin.startswith("random") and r["group"] is not None and len(ps) in (3, 7, 12, 18) and \
                not any(s_.get("n_params") == len(ps) for s_ in ck.samples):
            s_ = case_summary(case)
            s_["n_params"] = len(ps)
            s_["recorded_group"] = [[(n, v.hex() if isinstance(v, bytes) else v) for n, v in tx] for tx in r["group"]]
            ck.sample(s_)
    ck.evaluations += tot["runs"] + tot["roundtrip"]
    ck.coverage["counts"] = tot
    ck.coverage["input_distribution"] = {k: {str(a): c for a, c in sorted(v.items(), key=lambda kv: str(kv[0]))} for k, v in hist.items()}
    ck.coverage["inconclusive_avm_verdicts"] = unsup
    ck.coverage["phase_s"] = phase
    for m_ in model_bad[:5]:
        ck.model_problem(m_)
    if sum(unsup.values()) > 0.02 * max(1, tot["runs"] + tot["roundtrip"]):
        ck.model_problem("too many inconclusive AVM runs: %r" % (unsup,))

    # ---- (4) known finding: replay against the real code ----
    fr = [r for (i, r) in results if cases[i][0] == "finding"][0]
    fcase = finding_case()
    if (fr["oracle_bad"] or fr["roundtrip_bad"]) and is_known(fcase, fr) and ck.match_known(lambda f: f["id"] == FINDING):
        n17 = len(arr(fr["group"][-1], "ApplicationArgs")) if fr["group"] else None
        ck.known(FINDING, "InnerTxnBuilder.MethodCall with 16 plain arguments records %s ApplicationArgs entries (selector + 16); ARC-4 prescribes selector + 14 + one tuple; "
                          "a Router method of the same signature does not decode the values (%d generated calls with more than 15 non-transaction arguments show it)" % (
                              n17, len(set(i for i, _ in known_hits))))
    elif known_hits and not ck.match_known(lambda f: f["id"] == FINDING):
        orc += known_hits
    ck.coverage["known_finding_cases"] = len(set(i for i, _ in known_hits))

    # ---- (5) verdict ----
    failing = orc + rtb
    reported = set()
    seen_small = set()
    t1 = time.time()
    for idx, x in failing[:40]:
        if idx in reported or len(reported) >= 3:
            continue
        reported.add(idx)
        origin, case = cases[idx]
        small = shrink(case, jobs[idx][2][:1]) if time.time() - t1 < 60 else case
        key = (sig_string(small), tuple(a[0] for a in small["args"]), small["api"])
        if key in seen_small:
            continue
        seen_small.add(key)
        _, rr = fails_oracle(small, jobs[idx][2][:1])
        what = (rr["oracle_bad"] or rr["roundtrip_bad"] or [x])[0]
        ck.violation("inner method call %s is not marshalled per ARC-4: %s" % (sig_string(small), str(what.get("what"))[:400]),
                     {"kind": "marshalling", "case": jd(small), "versions": jobs[idx][2][:1], "observed": jd(what), "original_case": jd(case)})
    for idx, x in rej[:3]:
        origin, case = cases[idx]
        ck.violation("an argument that does not fit the signature %s was accepted when the expression was built (%s)" % (sig_string(case), x.get("neg")),
                     {"kind": "accepted-misfit", "case": jd(case), "versions": jobs[idx][2][:1]})
    for idx, x in crash[:3]:
        origin, case = cases[idx]
        ck.violation("MethodCall on %s: %s %r instead of a PyTeal error / TEAL" % (sig_string(case), x.get("kind"), x.get("exception")),
                     {"kind": "crash", "case": jd(case), "versions": jobs[idx][2][:1], "observed": jd(x)})
    ck.coverage["disagreements_checked"] = len(corr) + len(orc) + len(rtb) + len(rej) + len(crash) + len(known_hits)
    ck.coverage["correspondence_mismatches"] = len(corr)
    ck.coverage["failures_by_part"] = {"correspondence_cases": len(set(i for i, _ in corr)), "oracle_cases": len(set(i for i, _ in orc)),
                                       "roundtrip_cases": len(set(i for i, _ in rtb)), "accepted_misfits": len(rej), "crashes": len(crash),
                                       "attributed_to_known_finding": len(set(i for i, _ in known_hits))}
    if corr and not (failing or rej or crash):
        idx, x = corr[0]
        ck.violation("correspondence broken: the recorded inner group / exception class differs from Router/Itxn.v method_call on %d cases "
                     "(theorem C14_itxn_method_call_correct_le15 no longer transfers); the oracle and the round trip over %d runs found no wrongly marshalled call"
                     % (len(set(i for i, _ in corr)), tot["oracle"]),
                     {"kind": "correspondence", "broken": "recorded (submit ...) group vs method_call", "case": jd(cases[idx][1]), "first": jd(x),
                      "versions": jobs[idx][2]}, no_failing_input=True)
    if not ck.proof_ok and not (failing or rej or crash or corr):
        ck.violation("proof obligation broken: Props/C14.v or Proofs/Itxn*.v no longer checks",
                     {"kind": "proof", "broken": "C14 theorems", "log": ck.proof_log[-1500:]}, no_failing_input=True)
    return finish(ck, thorough)


def finish(ck, thorough=False):
    for m_ in list(_models.values()):
        m_.close()
    _models.clear()
    return ck.finish(
        level="proof",
        rule="corpus + known-finding witness + every signature of length <= 2 over {uint64,string,account,asset,application,pay,txn} + seeded random signatures of 0..20 parameters "
             "(plain types of depth <= 2 incl. tuples/arrays, three reference kinds, seven transaction kinds, any order; void and non-void; extra fields incl. array fields and TxnArrays; "
             "arguments as ABI instances of differently spelled assignable types (decode from constant / from Txn.application_args / set), raw encoded bytes, constants, run-time reads and "
             "anytype scratch loads, reference instances, dicts) through MethodCall / ExecuteMethodCall / MethodCall after an unrelated transaction, each compiled at 2 (quick) or 5 (thorough) "
             "versions of 6..10 and run on the extracted AVM; plus one-defect negative calls of 30 kinds; a case is distinct by (case, version); non-trivial = at least one parameter",
        trusted_base=[
            "AVM semantics of itxn_begin/itxn_field/itxn_next/itxn_submit (recorded, not executed), txna/txnas/method/byte/int/store/load/ABI byte ops in coq/AVM (hand-written spec)",
            "Theorems are about Router/Itxn.v (hand model of pyteal/ast/itxn.py MethodCall/SetField(s)), tied to the code by exact equality of the recorded inner group / exception class on every run",
            "ABI/Assignable.v (model of type_spec_is_assignable_to, C19) and ABI/Spec.v (ARC-4, validated against algosdk and the independent client each run); Router/Args.v pack / resolve_* (C09 spec)",
            "arg.encode() of an ABI instance is taken to be the ARC-4 encoding of the held value (C06's subject); here it is executed, not proved",
            "SHA-512/256 (hashlib) for selectors: an oracle in the theorems; signature strings outside algosdk's grammar are not modelled",
            "independent ARC-4 client c14_client.py (trusted as the reading of ARC-4; cross-checked with algosdk.abi)",
            "Extraction: ExtrOcamlBasic + ExtrOcamlNativeString, driver.ml (read-line loop)",
        ])


def replay(ck, path):
    d = json.load(open(path))
    if "case" not in d:
        # a broken proof obligation / translator / model build: nothing to re-run beyond the proofs, which this invocation just re-checked
        if not ck.proof_ok:
            ck.violation("proof obligation still broken: %s" % d.get("broken"), {"kind": "proof", "broken": d.get("broken"), "log": ck.proof_log[-1500:]}, no_failing_input=True)
        ck.count(("replay-proof", path))
        ck.count(("replay-proof2", repr(d.get("broken"))))
        return finish(ck)
    case = normalize_case(jl(d["case"]))
    versions = d.get("versions") or [8]
    r = run_case(case, versions)
    print(json.dumps({"signature": sig_string(case), "real": r["real_outcome"], "model": r["model_outcome"], "correspondence": jd(r["corr"][:2]),
                      "oracle": jd(r["oracle_bad"][:2]), "roundtrip": jd(r["roundtrip_bad"][:2]), "rejected_misfit": jd(r["reject_bad"][:2]),
                      "crash": jd(r["crash"][:2])}, indent=1, default=repr)[:6000])
    bad = r["oracle_bad"] or r["roundtrip_bad"] or r["reject_bad"] or r["crash"]
    if bad and is_known(case, r) and ck.match_known(lambda f: f["id"] == FINDING):
        ck.known(FINDING, "replayed case has more than 15 non-transaction arguments: not packed into a tuple")
    elif bad:
        ck.violation("replayed case still fails: %s" % str(bad[0])[:300], {"kind": "replay", "case": jd(case), "versions": versions})
    elif r["corr"]:
        ck.violation("replayed case: correspondence still broken", {"kind": "correspondence", "broken": "recorded group vs method_call", "case": jd(case), "versions": versions}, no_failing_input=True)
    ck.count(("replay", repr(case)))
    ck.count(("replay2", path))
    return finish(ck)


if __name__ == "__main__":
    sys.exit(run_main(main))
