"""C06 — ABI values assembled in PyTeal encode exactly per ARC-4.

Parts (DESIGN §2.4):
  1. proofs          Props/C06.v (+ Proofs/ABIEncode*.v): descriptors, bool packing, uint_encode / uint_set,
                     _encode_tuple, Array.set, String.set, end-to-end set(...) -> arc4_encode
  2. descriptors     Python str(ts) / is_dynamic() / byte_length_static()  vs  model (ABI/Encode.v, ABI/Descr.v)
                     vs  ARC-4 spec (ABI/Spec.v)  vs  algosdk — EXHAUSTIVE over all shapes up to a node bound,
                     random deeper ones
  3. behaviour       set(...) programs built with the REAL PyTeal for every documented way of assembling a
                     value (constants, run-time expressions, copies, member instances; nested), compiled with
                     compileTeal for versions 5..10, in the scratch-slot and the frame-variable back-ends,
                     executed on the extracted AVM; the encoding (stored to scratch slot 255 and logged when the AVM's
                     1024-byte log limit allows) compared three ways:
                       (i)   algosdk.abi.ABIType.from_string(str(type_spec)).encode(value)    [reference codec]
                       (ii)  Coq spec arc4_encode                                             [ABI/Spec.v]
                       (iii) Coq model of the generated code, 4096-byte cap                   [ABI/Encode.v]
                     out-of-range Python ints must be REJECTED at construction with a PyTeal error, out-of-range
                     run-time values must make the program FAIL
  4. search          a real-vs-reference mismatch is shrunk (shape, recipe, inputs) and reported with a replay
  5. known findings  replayed; 6. verdict.      ./check C06 --replay <file> re-runs one recorded case.
"""
import itertools
import json
import multiprocessing
import os
import sys
import time

from common import *  # noqa
import c19_abi as AB
import c06_build as CB

ensure_env()

CORPUS = os.path.join(VERIF, "harness", "corpus", "c06.json")
PROOF_FILES = ["Proofs/ABITypesProof.v", "Proofs/ABISpecProof.v", "Proofs/ABIDescrProof.v",
               "Proofs/ABIEncodeOps.v", "Proofs/ABIEncodeDescr.v", "Proofs/ABIEncodeBool.v", "Proofs/ABIEncodeTuple.v",
               "Proofs/ABIEncodeLen.v", "Proofs/ABIEncodeSet.v", "Proofs/ABIEncodeCap.v", "Proofs/ABIEncodeCapComplete.v",
               "Proofs/ABIEncodeExamples.v"]
VERSIONS = [5, 6, 7, 8, 9, 10]
STRLEN_REJECT_CLASSES = ("ABIEncodingError",) + tuple(PYTEAL_ERRORS)   # see notes: algosdk's error escapes for >= 65536-byte literals


def open_model(name, tries=40):
    """start an extracted binary; another check may be replacing the (shared) binary at this very moment"""
    last = None
    for k in range(tries):
        try:
            return Model(name)
        except (PermissionError, OSError, RuntimeError) as e:  # ETXTBSY / being rewritten / concurrent rebuild failed
            last = e
            time.sleep(1.5)
    raise last


# ---------------------------------------------------------------------------------------------
# shape enumeration (descriptors)
# ---------------------------------------------------------------------------------------------
FULL_LEAVES = ["bool", "byte", ("uint", 8), ("uint", 16), ("uint", 32), ("uint", 64), "address", "string", "dynbytes",
               ("sbytes", 0), ("sbytes", 3)]
FULL_LENS = [0, 1, 8, 9]
RED_LEAVES = ["bool", "byte", ("uint", 16), "string"]
RED_LENS = [2]


def enum_types(maxsize, leaves, lens):
    """all types with at most maxsize nodes over the given leaves / static array lengths (tuples of any arity)"""
    by_size = {1: list(leaves) + [("tuple",)]}

    def seqs(total, minparts=1):
        """all sequences of types whose sizes sum to total (each >= 1)"""
        if total == 0:
            yield ()
            return
        for first in range(1, total + 1):
            for t in by_size.get(first, []):
                for rest in seqs(total - first):
                    yield (t,) + rest

    for n in range(2, maxsize + 1):
        cur = []
        for e in by_size[n - 1]:
            cur.append(("darr", e))
            for ln in lens:
                cur.append(("sarr", e, ln))
        for ch in seqs(n - 1):
            cur.append(("tuple",) + ch)
        by_size[n] = cur
    out = []
    for n in range(1, maxsize + 1):
        out += by_size[n]
    return out


def real_descr(P):
    """(str, is_dynamic, byte_length_static | exception class) of a real TypeSpec"""
    r = call_real(P.byte_length_static)
    return (str(P), bool(P.is_dynamic()), r[1] if r[0] == "ok" else "raises:" + r[1])


def check_descr(t, model, out, rich=False):
    """one shape: Python vs model (tie), Python vs algosdk (the property), spec vs algosdk (spec validation)"""
    import algosdk.abi as A
    r = call_real(lambda: real_descr(AB.to_pyteal(t)))
    if r[0] != "ok":
        out["mism"].append({"kind": "descr-raises", "t": AB.ty_text(t), "exception": r[1:]})
        return
    s, dyn, ln = r[1]
    d = model.ask((S("descr"), AB.ty_sx(t)))
    m_len = d[3] if isinstance(d[3], int) else None
    m = (d[1], d[2] == S("true"), m_len)
    real_len = ln if isinstance(ln, int) else None
    if (s, dyn, real_len) != m or (not isinstance(ln, int) and not dyn):
        out["mism"].append({"kind": "descr", "t": AB.ty_text(t), "t_json": t, "real": [s, dyn, ln], "model": [m[0], m[1], m[2]]})
    # the property: agree with the reference codec
    want_s = AB.arc4_str(t)
    try:
        a = A.ABIType.from_string(s)
        ref = (str(a), a.is_dynamic(), None if a.is_dynamic() else a.byte_len())
    except Exception as e:  # noqa
        ref = ("<algosdk rejects: %s>" % type(e).__name__, None, None)
    if ref != (s, dyn, real_len) or s != want_s:
        out["sem"].append({"kind": "descriptor", "t": AB.ty_text(t), "t_json": t, "real": [s, dyn, ln], "algosdk": list(ref), "arc4_str": want_s})
    # spec validation
    sp = (d[4], d[5] == S("true"), d[6] if isinstance(d[6], int) else None)
    try:
        a2 = A.ABIType.from_string(want_s)
        ref2 = (str(a2), a2.is_dynamic(), None if a2.is_dynamic() else a2.byte_len())
    except Exception as e:  # noqa
        ref2 = None
    if ref2 is not None and sp != ref2:
        out["model_problems"].append("ABI/Spec.v descriptor of %s: spec %r, algosdk %r" % (want_s, sp, ref2))
    if rich:
        # util.py round trips: annotation -> spec, algosdk string -> spec
        from pyteal import abi
        P = AB.to_pyteal(t)
        ra = call_real(lambda: abi.type_spec_from_annotation(P.annotation_type()))
        if ra[0] == "ok":
            if real_descr(ra[1]) != (s, dyn, ln):
                out["sem"].append({"kind": "descriptor-annotation-roundtrip", "t": AB.ty_text(t), "t_json": t, "real": list(real_descr(ra[1])), "expected": [s, dyn, ln]})
            out["hist"]["annotation_roundtrips"] = out["hist"].get("annotation_roundtrips", 0) + 1
        rs = call_real(lambda: abi.type_spec_from_algosdk(A.ABIType.from_string(s)))
        if rs[0] != "ok" or real_descr(rs[1]) != (s, dyn, ln):
            out["sem"].append({"kind": "descriptor-algosdk-roundtrip", "t": AB.ty_text(t), "t_json": t,
                               "real": list(real_descr(rs[1])) if rs[0] == "ok" else rs[1:], "expected": [s, dyn, ln]})


# ---------------------------------------------------------------------------------------------
# one behaviour case
# ---------------------------------------------------------------------------------------------
def strings_to_dynbytes(t):
    if t == "string":
        return "dynbytes"
    if isinstance(t, str):
        return t
    h = t[0]
    if h == "sarr":
        return ("sarr", strings_to_dynbytes(t[1]), t[2])
    if h == "darr":
        return ("darr", strings_to_dynbytes(t[1]))
    if h == "tuple":
        return ("tuple",) + tuple(strings_to_dynbytes(x) for x in t[1:])
    if h == "named":
        return ("tuple",) + tuple(strings_to_dynbytes(x) for x in t[3:])
    return t


def reference_encode(t, v):
    """(i) the reference codec on the type's own ARC-4 string. algosdk wants `str` for string; a string assembled
    from arbitrary bytes (Sequence[Byte] members) need not be UTF-8 — then the equivalent byte[] spelling is used."""
    ref = AB.sdk_encode(AB.to_sdk(t), v)
    if ref[0] != "ok" and ref[1] == "UnicodeDecodeError":
        ref = AB.sdk_encode(AB.to_sdk(strings_to_dynbytes(t)), v)
    return ref


def expectation(t, r, ints, byts):
    """What must happen, from the ARC-4 definition + the reference codec only:
       ('ok', bytes) | ('fail',) | ('reject',) | ('toolong', bytes) (encoding beyond the AVM's 4096-byte strings)"""
    try:
        v = CB.recipe_value(t, r, ints, byts)
    except CB.Reject as e:
        return ("reject", str(e)), None
    except CB.MustFail:
        return ("fail",), None
    ref = reference_encode(t, v)
    if ref[0] != "ok":
        return ("refcodec-error", ref[1]), v
    if len(ref[1]) > CB.AVM_MAX_BYTES:
        return ("toolong", ref[1]), v
    return ("ok", ref[1]), v


def classify_reject(cls, exp):
    """is this exception class an acceptable way of rejecting at construction?"""
    if cls in PYTEAL_ERRORS:
        return True
    if cls == "ABIEncodingError" and exp[0] == "reject" and "uint16 length prefix" in exp[1]:
        return True
    return False


class CaseResult:
    __slots__ = ("real", "want", "model", "spec", "ok_real", "ok_model", "ok_spec", "detail")


def eval_case(pt, avm, mod, t, r, backend, version, inputs_list, opt=None, teal_cache=None):
    """Compile once, run every input vector. Returns a list of dicts (one per input vector)."""
    alloc_nb = max([len(b) for (_, b) in inputs_list] + [0])
    optimize = None
    if opt == "scratch":
        optimize = pt.OptimizeOptions(scratch_slots=True)
    elif opt == "nofp" and version >= 8:
        optimize = pt.OptimizeOptions(frame_pointers=False)
    c = CB.compile_program(pt, t, r, backend, version, alloc_nb, optimize)
    out = []
    for (ints, byts) in inputs_list:
        exp, value = expectation(t, r, ints, byts)
        m = mod.ask((S("set"), CB.AVM_MAX_BYTES, AB.ty_sx(t), CB.src_sx(r, ints, byts)))
        if not (isinstance(m, list) and m and m[0] == S("set")):
            out.append({"status": "model-error", "detail": repr(m)[:300]})
            continue
        mo = m[1]
        model = (mo[0].name,) + ((mo[1],) if mo[0].name == "ok" else ())
        spec = m[3][1] if m[3][0] == S("some") else None
        res = {"exp": exp, "model": model, "spec": spec, "compile": c[0]}
        # real outcome
        if c[0] == "ok":
            fuel = 60000 + 40 * sum(len(b) for b in byts)
            real = CB.run_on_avm(avm, c[1], ints, byts, fuel)
        elif c[0] in ("reject", "compile-error"):
            real = ("reject", c[1], c[2])
        else:
            real = ("unbuildable", c[1])
        res["real"] = real
        # ---- (ii) spec vs reference codec: a disagreement is a defect of ABI/Spec.v or of this harness
        if exp[0] in ("ok", "toolong") and spec != exp[1]:
            res["spec_problem"] = "arc4_encode of the denoted value is %s, the reference codec gives %s" % (
                spec.hex() if spec is not None else None, exp[1].hex()[:200])
        if exp[0] in ("fail", "reject") and spec is not None:
            res["spec_problem"] = "arc4_encode encodes a value the harness classifies as %s" % (exp[0],)
        # ---- (i) real vs reference
        if backend == "subargs" and len(byts) >= 2 and len(byts[1]) > CB.AVM_MAX_BYTES - 2:
            res["status"] = "inconclusive"            # the carrier of the second byte-string argument adds a 2-byte prefix
        elif real[0] == "unbuildable":
            res["status"] = "unbuildable"
        elif real[0] == "inconclusive":
            res["status"] = "inconclusive"
        elif real[0] == "reject" and real[1] == "RecursionError":
            res["status"] = "compile-recursion"         # C20's territory (deep trees), not a verdict on C06
        elif real[0] == "reject" and "slots" in (real[2] or "") and exp[0] != "reject":
            res["status"] = "out-of-slots"
        else:
            if exp[0] == "ok":
                good = real[0] == "ok" and real[1] == exp[1]
            elif exp[0] == "toolong":
                good = real[0] == "fail" or (real[0] == "ok" and real[1] == exp[1])
            elif exp[0] == "fail":
                good = real[0] == "fail"
            elif exp[0] == "reject":
                good = real[0] == "reject" and classify_reject(real[1], exp)
            else:
                good = True
                res["status"] = "refcodec-error"
            res.setdefault("status", "good" if good else "BAD")
            # ---- (iii) model vs real
            realo = (real[0],) + ((real[1],) if real[0] == "ok" else ())
            if realo[0] == "reject-verdict":
                realo = ("fail?",)
            res["model_agrees"] = (model == realo)
        out.append(res)
    return c, out


def case_record(t, r, backend, version, opt, ints, byts, res, teal=None):
    d = {"kind": "behaviour", "type": AB.arc4_str(t), "t_json": t, "recipe": r, "backend": backend, "version": version, "opt": opt,
         "ints": list(ints), "bytes": [b.hex() for b in byts],
         "expected": [res["exp"][0]] + ([res["exp"][1].hex()] if res["exp"][0] in ("ok", "toolong") else list(res["exp"][1:])),
         "real": [res["real"][0]] + ([res["real"][1].hex()] if res["real"][0] == "ok" else [str(x) for x in res["real"][1:]]),
         "model": [res["model"][0]] + ([res["model"][1].hex()] if res["model"][0] == "ok" else [])}
    if teal:
        d["teal"] = teal
    return d


# ---------------------------------------------------------------------------------------------
# shrinking a real failure
# ---------------------------------------------------------------------------------------------
def simpler_cases(t, r):
    """smaller (type, recipe) variants: hoist a member, drop a member, strip a copy, recurse into members"""
    k = CB.kind(t)
    if r[0] == "copy":
        yield t, r[1]
        for (t2, r2) in simpler_cases(t, r[1]):
            if t2 == t:
                yield t, ("copy", r2)
        return
    if r[0] == "xcopy":
        yield r[1], r[2]
        return
    if r[0] != "members":
        return
    ms = r[1]
    if k in ("tuple", "named"):
        ch = list(AB.children(t))
        if len(ch) != len(ms):
            return
        for i in range(len(ms)):
            yield ch[i], ms[i]                                       # hoist
        for i in range(len(ms)):
            yield ("tuple",) + tuple(ch[:i] + ch[i + 1:]), ("members", ms[:i] + ms[i + 1:])
        for i in range(len(ms)):
            for (t2, r2) in simpler_cases(ch[i], ms[i]):
                yield ("tuple",) + tuple(ch[:i] + [t2] + ch[i + 1:]), ("members", ms[:i] + [r2] + ms[i + 1:])
    elif k in ("sarr", "darr"):
        e = t[1]
        for i in range(len(ms)):
            yield e, ms[i]
        for i in range(len(ms)):
            rest = ms[:i] + ms[i + 1:]
            yield (("sarr", e, len(rest)) if k == "sarr" else t), ("members", rest)
        for i in range(len(ms)):
            for (t2, r2) in simpler_cases(e, ms[i]):
                if t2 == e:
                    yield t, ("members", ms[:i] + [r2] + ms[i + 1:])
    elif CB.is_bytes_like(t):
        if k in ("string", "dynbytes"):
            for i in range(len(ms)):
                yield t, ("members", ms[:i] + ms[i + 1:])


def simpler_inputs(ints, byts):
    for i, x in enumerate(ints):
        for y in (0, 1, 255, 256, 65535, 65536):
            if y < x:
                yield ints[:i] + [y] + ints[i + 1:], byts
    for j, b in enumerate(byts):
        if len(b) > 0:
            yield ints, byts[:j] + [b[: len(b) // 2]] + byts[j + 1:]
            yield ints, byts[:j] + [bytes(len(b))] + byts[j + 1:]


def shrink(pt, avm, mod, t, r, backend, version, opt, ints, byts, budget=120):
    """greedy minimisation of a case on which the REAL program disagrees with the reference codec"""
    def bad(t, r, backend, ints, byts):
        try:
            _, res = eval_case(pt, avm, mod, t, r, backend, version, [(ints, byts)], opt)
        except Exception:  # noqa
            return None
        return res[0] if res and res[0].get("status") == "BAD" else None

    cur = (t, r, backend, ints, byts)
    best = bad(*cur)
    if best is None:
        return None
    spent = 0
    if backend != "main":
        b2 = bad(t, r, "main", ints, byts)
        spent += 1
        if b2 is not None:
            cur, best = (t, r, "main", ints, byts), b2
    progress = True
    while progress and spent < budget:
        progress = False
        t0, r0, be, i0, b0 = cur
        for (t2, r2) in simpler_cases(t0, r0):
            spent += 1
            if spent >= budget:
                break
            x = bad(t2, r2, be, i0, b0)
            if x is not None:
                cur, best, progress = (t2, r2, be, i0, b0), x, True
                break
        if progress:
            continue
        for (i2, b2) in simpler_inputs(list(i0), list(b0)):
            spent += 1
            if spent >= budget:
                break
            x = bad(t0, r0, be, i2, b2)
            if x is not None:
                cur, best, progress = (t0, r0, be, i2, b2), x, True
                break
    return cur, best


# ---------------------------------------------------------------------------------------------
# case generation
# ---------------------------------------------------------------------------------------------
SMALL_LEAVES = ["bool", "byte", ("uint", 16), ("uint", 64), "address", "string", ("sbytes", 3), "dynbytes"]


def directed_cases(thorough):
    """hand-picked shapes that exercise every mechanism of the anchors (type only; recipes are generated)"""
    b, u8, u16, u32, u64, s, a = "bool", ("uint", 8), ("uint", 16), ("uint", 32), ("uint", 64), "string", "address"
    out = [
        ("tuple", b, u16, s, b, b),                        # the three shapes of the Examples
        ("darr", b),
        ("darr", ("tuple", s, ("sarr", u8, 2))),
        ("tuple",), ("tuple", ("tuple",)), ("sarr", ("tuple",), 3), ("darr", ("tuple",)),
        ("tuple", s, s, u16), ("tuple", s, u16, s, u16), ("tuple", u8, s, s, s, b),     # offsets after >= 2 dynamic members
        ("tuple", b, s, b, b, s, b),                       # bool runs broken by dynamic members
        ("tuple", "dynbytes", ("darr", u32), s, ("sbytes", 3)),
        ("sarr", s, 3), ("darr", s), ("darr", ("darr", u16)), ("sarr", ("darr", b), 2),
        ("sarr", u16, 3), ("sarr", u32, 2), ("darr", u64), ("darr", u16), ("sarr", "byte", 4), ("darr", a),
        ("tuple", a, "byte", u8, u16, u32, u64, b),
        ("tuple", ("tuple", b, b), ("tuple", b), b),       # bools of nested tuples are NOT packed together
        ("sbytes", 0), ("sbytes", 1), ("sbytes", 33), "address", "string", "dynbytes", ("sarr", b, 0), ("sarr", u8, 0),
    ]
    for n in (1, 7, 8, 9, 15, 16, 17, 24, 25):
        out.append(("tuple",) + (b,) * n)
        out.append(("sarr", b, n))
        out.append(("tuple", u8) + (b,) * n + (s,) + (b,) * 2)
    out.append(AB.realistic_named(("flag", "n", "text"), (b, u16, s)))
    out.append(AB.realistic_named(("a", "b", "c", "d", "e", "f", "g"), (b, b, u64, s, a, b, ("darr", b))))
    return out


def small_behaviour_types(maxsize, leaves):
    return [t for t in enum_types(maxsize, leaves, [2]) if AB.size(t) >= 1]


def slot_estimate(r):
    """scratch slots a recipe needs: one per instance + 5 per aggregate assembled from members"""
    if r[0] == "members" and len(r[1]) > 40 and all(m == r[1][0] for m in r[1]):
        return 6 + slot_estimate(r[1][0])
    if r[0] == "copy":
        return 1 + slot_estimate(r[1])
    if r[0] == "xcopy":
        return 1 + slot_estimate(r[2])
    if r[0] == "members":
        return 6 + sum(slot_estimate(x) for x in r[1])
    return 1


def gen_inputs_for(rng, alloc, n_good, n_edge, maxlen=4):
    ins = []
    for _ in range(n_good):
        ins.append(CB.gen_inputs(rng, alloc, "good", maxlen))
    if alloc.n_ints or alloc.n_bytes:
        for _ in range(n_edge):
            ins.append(CB.gen_inputs(rng, alloc, "edge", maxlen))
    return ins


# ---------------------------------------------------------------------------------------------
# worker
# ---------------------------------------------------------------------------------------------
def new_out():
    return {"mism": [], "sem": [], "model_problems": [], "hist": {}, "keys": [], "evaluations": 0, "samples": [], "notes": []}


def bump(out, k, n=1):
    out["hist"][k] = out["hist"].get(k, 0) + n


class Procs:
    """the two extracted binaries of one worker; restarted if one of them dies on a request"""

    def __init__(self):
        self.avm = open_model("main")
        self.mod = open_model("c06")

    def restart(self):
        for m in (self.avm, self.mod):
            try:
                m.p.kill()
            except Exception:  # noqa
                pass
        self.avm = open_model("main")
        self.mod = open_model("c06")

    def close(self):
        self.avm.close()
        self.mod.close()


def run_behaviour(pt, procs, out, rng, t, r, alloc, configs, inputs_list, origin):
    """one (type, recipe) under several (backend, version, opt) configurations"""
    for (backend, version, opt) in configs:
        try:
            c, results = eval_case(pt, procs.avm, procs.mod, t, r, backend, version, inputs_list, opt)
        except Exception as e:  # noqa  (a harness / machinery defect must not masquerade as a verdict)
            out["model_problems"].append("machinery exception on %s %s v%d: %s: %s" % (AB.arc4_str(t), backend, version, type(e).__name__, str(e)[:200]))
            if isinstance(e, (RuntimeError, OSError, AssertionError)):
                procs.restart()
            continue
        fp = version >= 8 and opt != "nofp" and backend != "main"
        for (ints, byts), res in zip(inputs_list, results):
            out["evaluations"] += 1
            st = res.get("status")
            bump(out, "status:" + str(st))
            if st in ("unbuildable", "model-error"):
                if st == "model-error":
                    out["model_problems"].append("pv_c06 could not answer: " + res.get("detail", ""))
                continue
            bump(out, "backend:%s%s" % (backend, "+fp" if fp else ""))
            bump(out, "version:%d" % version)
            if opt:
                bump(out, "opt:" + opt)
            bump(out, "origin:" + origin)
            bump(out, "expect:" + res["exp"][0])
            if res["real"][0] == "reject":
                bump(out, "reject-class:" + str(res["real"][1]))
                if res["real"][1] == "ABIEncodingError":
                    note = "String/DynamicBytes.set(<bytes literal of >= 65536 bytes>) is rejected by algosdk's ABIEncodingError escaping from _encoded_byte_string, not by a PyTeal error"
                    if note not in out["notes"]:
                        out["notes"].append(note)
            out["keys"].append(repr((AB.arc4_str(t), r, backend, version, opt, ints, byts)))
            if "spec_problem" in res:
                out["model_problems"].append("ABI/Spec.v vs algosdk on %s recipe %r inputs %r %r: %s" % (AB.arc4_str(t), r, ints, byts, res["spec_problem"]))
            if st == "BAD":
                out["sem"].append(case_record(t, r, backend, version, opt, ints, byts, res, c[1] if c[0] == "ok" else None))
            elif st == "good" and not res.get("model_agrees", True):
                out["mism"].append(dict(case_record(t, r, backend, version, opt, ints, byts, res), kind="model-vs-real"))
            if st == "good" and len(out["samples"]) < 3 and AB.size(t) > 3 and res["exp"][0] == "ok" and (ints or byts):
                out["samples"].append({"type": AB.arc4_str(t), "recipe": repr(r), "backend": backend + ("+frame-pointers" if fp else ""), "version": version,
                                       "ints": list(ints), "bytes": [b.hex() for b in byts], "logged": res["exp"][1].hex()})


def pick_configs(rng, thorough, n=3, force_main=True):
    """(backend, version, opt) triples: always the main routine (scratch slots) at some version and a subroutine
    back-end at a frame-pointer version; the rest random"""
    cfgs = []
    if force_main:
        cfgs.append(("main", rng.choice(VERSIONS), rng.choice([None, None, "scratch"])))
    cfgs.append((rng.choice(["sub", "abiret", "subargs", "members_as_args"]), rng.choice([8, 9, 10]), None))
    while len(cfgs) < n:
        cfgs.append((rng.choice(CB.BACKENDS), rng.choice(VERSIONS), rng.choice([None, None, None, "scratch", "nofp"])))
    return cfgs


def worker(arg):
    shard, nshards, tier, seed_ = arg
    import random
    import pyteal as pt
    thorough = tier == "thorough"
    rng = random.Random(seed_ * 7919 + shard * 104729 + 6)
    out = new_out()
    t_start = time.time()
    procs = Procs()
    mod = procs.mod

    # ---------- 2. descriptors ----------
    if thorough:
        shapes = enum_types(5, FULL_LEAVES, FULL_LENS)
        shapes_red = enum_types(7, RED_LEAVES, RED_LENS)
    else:
        shapes = enum_types(4, FULL_LEAVES, FULL_LENS)
        shapes_red = enum_types(5, RED_LEAVES, RED_LENS)
    seen = set()
    all_shapes = []
    for t in shapes + shapes_red:
        if t not in seen:
            seen.add(t)
            all_shapes.append(t)
    mine = all_shapes[shard::nshards]
    for i, t in enumerate(mine):
        check_descr(t, mod, out, rich=(AB.size(t) <= 3 or i % 23 == 0))
        out["evaluations"] += 1
        if AB.size(t) > 1:
            out["keys"].append("descr:" + repr(t))
    bump(out, "descr:exhaustive", len(mine))
    nrand = (6000 if thorough else 1500) // nshards
    for _ in range(nrand):
        t = AB.rand_type(rng, rng.choice([2, 3, 3, 4, 5, 6]), special=0.0, named=0.15)
        check_descr(t, mod, out, rich=False)
        out["evaluations"] += 1
        out["keys"].append("descr:" + repr(t))
        bump(out, "descr:random-depth%d" % AB.depth(t))
    out["hist"]["descr_total_shapes_all_shards"] = len(all_shapes)
    t_descr = time.time()

    # ---------- 3. behaviour ----------
    # 3a corpus + directed shapes (split over the shards)
    corpus = load_corpus()
    for i, ent in enumerate(corpus):
        if i % nshards != shard:
            continue
        t, r = from_json(ent["t_json"]), from_json(ent["recipe"])
        ints, byts = ent.get("ints", []), [bytes.fromhex(x) for x in ent.get("bytes", [])]
        cfgs = [(ent.get("backend", "main"), ent.get("version", 8), ent.get("opt"))] + [("main", 6, None), ("sub", 9, None)]
        run_behaviour(pt, procs, out, rng, t, r, None, cfgs, [(ints, byts)], "corpus")
    directed = directed_cases(thorough)
    for i, t in enumerate(directed):
        if i % nshards != shard:
            continue
        for rep in range(3 if thorough else 2):
            alloc = CB.Alloc()
            r = CB.gen_recipe(t, rng, alloc, p_expr=[0.0, 0.6, 1.0][rep % 3], p_copy=0.05)
            if slot_estimate(r) > 230:
                continue
            ins = gen_inputs_for(rng, alloc, 2, 1)
            cfgs = [(be, v, None) for be in CB.BACKENDS for v in ((5, 8, 10) if not thorough else VERSIONS)]
            if not thorough:
                cfgs = [c for j, c in enumerate(cfgs) if c[0] == "main" or (j + i + rep) % 3 == 0] + [("sub", 9, "nofp"), ("main", 7, "scratch")]
            run_behaviour(pt, procs, out, rng, t, r, alloc, cfgs, ins, "directed")

    # 3b scalars at the boundaries of every width: Python int -> reject/accept, expression -> fail/accept
    scal = []
    for (t, bits) in (("byte", 8), (("uint", 8), 8), (("uint", 16), 16), (("uint", 32), 32), (("uint", 64), 64)):
        vals = [0, 1, (1 << bits) - 1, 1 << bits, (1 << bits) + 1, (1 << 64) - 1, 1 << 64, -1, 1 << (bits - 1)]
        for v in vals:
            scal.append((t, ("int", v), [], []))
            scal.append((t, ("copy", ("int", v)), [], []))
            if 0 <= v < (1 << 64):
                scal.append((t, ("iconst", v), [], []))
                scal.append((t, ("iexpr", 0), [v], []))
                scal.append((("tuple", t, "bool"), ("members", [("iexpr", 0), ("bool", True)]), [v], []))
                scal.append((("darr", t), ("members", [("int", 0), ("iexpr", 0)]), [v], []))
    # the OUTERMOST node of the source expression varies (GetBit, GetByte, ExtractUint16/32/64, Btoi, arithmetic, If,
    # scratch load, subroutine call), with run-time values below, at and above 2^N for every target width
    for (t, bits) in ((("uint", 8), 8), ("byte", 8), (("uint", 16), 16), (("uint", 32), 32), (("uint", 64), 64)):
        for w in CB.INT_WRAPS[1:]:
            for v in ((1 << bits) - 1, (1 << bits) % (1 << 64), ((1 << bits) + 1) % (1 << 64), (1 << 64) - 1, 1, 0x0123456789ABCDEF):
                scal.append((t, ("iexpr", 0, w), [v], []))
    for v in (0, 1, 2, 255, (1 << 64) - 1):
        scal.append(("bool", ("iexpr", 0), [v], []))
        scal.append(("bool", ("iconst", v), [], []))
    for bv in (True, False):
        scal.append(("bool", ("bool", bv), [], []))
        scal.append(("bool", ("copy", ("bool", bv)), [], []))
    for ln in (0, 31, 32, 33):
        scal.append(("address", ("blit", bytes(range(ln))), [], []))
        scal.append(("address", ("bexpr", 0), [], [bytes(range(ln))]))
        scal.append(("address", ("bconst", bytes(range(ln))), [], []))
        scal.append((("sbytes", 32), ("bexpr", 0), [], [bytes(range(ln))]))
        scal.append((("sbytes", 32), ("blit", bytes(range(ln))), [], []))
    scal.append(("address", ("addrstr", bytes(range(32))), [], []))
    scal.append(("address", ("addrexpr", bytes(range(32))), [], []))
    scal.append(("address", ("members", [("int", i) for i in range(32)]), [], []))
    scal.append(("address", ("members", [("int", i) for i in range(31)]), [], []))
    # lengths and counts around the byte boundary of the uint16 prefixes (254..257, 300, 1000), as literals and at run time
    for ln in (254, 255, 256, 257, 300, 1000):
        body = bytes((65 + i % 26) for i in range(ln))
        for form in ("blit", "str", "bconst"):
            scal.append(("string", (form, body), [], []))
        scal.append(("dynbytes", ("blit", body), [], []))
        scal.append(("string", ("bexpr", 0), [], [body]))
        scal.append((("tuple", "string", ("uint", 16), "dynbytes"), ("members", [("blit", body), ("int", ln), ("bexpr", 0)]), [], [body[: ln // 2]]))
        scal.append((("sbytes", ln), ("blit", body), [], []))
    for n in (255, 256, 257):
        scal.append((("darr", ("uint", 8)), ("members", [("int", 7)] * n), [], []))
        scal.append((("darr", "bool"), ("members", [("bool", True)] * n), [], []))
        scal.append((("darr", "string"), ("members", [("blit", b"")] * n), [], []))
        scal.append((("sarr", ("uint", 16), n), ("members", [("iexpr", 0)] * n), [n], []))
    scal.append(("string", ("str", "héllo 中".encode()), [], []))
    scal.append(("string", ("members", [("int", 104), ("iexpr", 0)]), [105], []))
    for k, (t, r, ints, byts) in enumerate(scal):
        if k % nshards != shard:
            continue
        vs = VERSIONS if thorough else [VERSIONS[(k + j) % 6] for j in (0, 3)]
        cfgs = [("main", v, None) for v in vs] + [("sub", v, None) for v in vs if v >= 8 or thorough] + [("abiret", 10, None), ("subargs", 8, None)]
        run_behaviour(pt, procs, out, rng, t, r, None, cfgs, [(ints, byts)], "scalar-boundary")

    # 3c every small shape
    small = small_behaviour_types(4 if thorough else 3, SMALL_LEAVES)
    for i, t in enumerate(small):
        if i % nshards != shard:
            continue
        alloc = CB.Alloc()
        r = CB.gen_recipe(t, rng, alloc, p_expr=0.6, p_copy=0.05)
        ins = gen_inputs_for(rng, alloc, 2, 1)
        run_behaviour(pt, procs, out, rng, t, r, alloc, pick_configs(rng, thorough, 3 if thorough else 2), ins, "exhaustive-small")
    out["hist"]["behaviour_small_shapes_all_shards"] = len(small)

    # 3d seeded random, deeper; a stream with deliberately invalid constants (must be rejected at construction)
    nrand = (9000 if thorough else 1900) // nshards
    for it in range(nrand):
        d = rng.choice([1, 2, 2, 3, 3, 4])
        t = AB.rand_type(rng, d, special=0.0, named=0.0)
        if rng.random() < 0.12:
            t = named_variant(rng, t)
        if AB.size(t) > (26 if thorough else 18):
            continue
        bad = rng.random() < 0.12
        alloc = CB.Alloc()
        r = CB.gen_recipe(t, rng, alloc, p_expr=rng.choice([0.2, 0.5, 0.8]), p_copy=0.06, p_bad=0.25 if bad else 0.0,
                          maxlen=rng.choice([3, 4, 9, 40]))
        if slot_estimate(r) > 220:
            bump(out, "skipped:too-many-slots")
            continue
        ins = gen_inputs_for(rng, alloc, 2, 1, maxlen=rng.choice([3, 6, 30]))
        run_behaviour(pt, procs, out, rng, t, r, alloc, pick_configs(rng, thorough, 3), ins, "random-bad-constants" if bad else "random")

    # 3e big values: around the AVM's 4096-byte strings (encodings that do not fit must fail, never come out wrong)
    if shard % 4 == 0:
        for (t, lens) in ((("tuple", "string", "string"), (2000, 2080)), (("tuple", "string", "string"), (2100, 2100)),
                          (("darr", "string"), (1300, 1300, 1300)), ("string", (4094,)), ("string", (4095,)),
                          (("tuple", "dynbytes", ("uint", 16), "string"), (4000, 80))):
            alloc = CB.Alloc()
            r = CB.gen_recipe(t, rng, alloc, p_expr=1.0, p_copy=0.0)
            ints = [7] * alloc.n_ints
            if CB.kind(t) == "darr":
                r = ("members", [("bexpr", j) for j in range(len(lens))])
                alloc.n_bytes = len(lens)
            byts = [bytes([65 + j]) * lens[j % len(lens)] for j in range(alloc.n_bytes)]
            run_behaviour(pt, procs, out, rng, t, r, alloc, [("main", 6, None), ("sub", 8, None)], [(ints, byts)], "big-values")

    # 3f construction-time limits that no AVM run can reach (Python + model only)
    if shard == 1 % nshards:
        probes = [
            (("tuple", ("sbytes", 65534), "string"), ("members", [("blit", bytes(65534)), ("blit", b"")])),     # head 65536
            (("tuple", ("sbytes", 65533), "string"), ("members", [("blit", bytes(65533)), ("blit", b"")])),     # head 65535: accepted
            ("string", ("blit", bytes(65536))), ("string", ("blit", bytes(65535))), ("dynbytes", ("blit", bytes(65536))),
            ("string", ("str", b"a" * 65536)),
            (("sarr", "string", 32768), ("members", [("blit", b"")] * 32768)),                                       # head 65536
        ]
        if thorough:
            # more than 65535 elements: Uint16.set(len(values)) must reject (PyTeal needs ~40 s to build the 65536 member expressions)
            probes.append((("darr", "bool"), ("members", [("bool", True)] * 65536)))
        for (t, r) in probes:
            b_ = call_real(CB.build_program, pt, t, r, "main", 0)       # construction only: these programs are never run
            c = ("ok", None) if b_[0] == "ok" else ("reject", b_[1], b_[2])
            m = procs.mod.ask((S("set"), CB.AVM_MAX_BYTES, AB.ty_sx(t), CB.src_sx(r, [], [])))
            exp, _ = expectation(t, r, [], [])
            model_rej = m[1][0] == S("reject")
            real_rej = c[0] in ("reject", "compile-error")
            out["evaluations"] += 1
            out["keys"].append("limit:" + AB.arc4_str(t) + str(len(r[1])))
            bump(out, "limit-probe:" + ("rejected" if real_rej else "accepted"))
            if real_rej:
                bump(out, "reject-class:" + str(c[1]))
            want_rej = exp[0] == "reject"
            if real_rej != want_rej or (real_rej and not classify_reject(c[1], exp)):
                out["sem"].append({"kind": "construction-limit", "type": AB.arc4_str(t), "t_json": t, "members": len(r[1]) if r[0] == "members" else None,
                                   "expected": "reject" if want_rej else "accept", "real": list(c[:2]) + [str(c[2])[:200] if len(c) > 2 and c[0] != "ok" else ""]})
            elif model_rej != real_rej:
                out["mism"].append({"kind": "model-vs-real-limit", "type": AB.arc4_str(t), "model": repr(m[1]), "real": c[0]})
            if real_rej and c[1] == "ABIEncodingError":
                note = "String/DynamicBytes.set(<bytes literal of >= 65536 bytes>) is rejected by algosdk's ABIEncodingError escaping from _encoded_byte_string, not by a PyTeal error"
                if note not in out["notes"]:
                    out["notes"].append(note)
    # 3g x.set(<instance of another type>) must be refused at construction (a silent acceptance would truncate / mis-frame)
    if shard == 2 % nshards:
        u8, u16, u64 = ("uint", 8), ("uint", 16), ("uint", 64)
        bad_copies = [(u16, u8), (u8, u16), (u64, u16), (u16, u64), ("bool", u8), (u8, "bool"), ("byte", u16), ("string", "address"),
                      ("address", "string"), ("dynbytes", "string"), ("string", ("darr", u8)), ("address", ("sarr", "byte", 31)),
                      (("sbytes", 3), ("sbytes", 4)), (("sarr", u8, 2), ("sarr", u8, 3)), (("sarr", u8, 2), ("darr", u8)),
                      (("darr", u8), ("darr", "byte")), (("darr", u16), ("darr", u8)), (("tuple", u8), ("tuple", u8)),
                      (("tuple", u8, "bool"), ("tuple", u8, "bool")), (("tuple", ("tuple", u8), "bool"), ("tuple", u8))]
        for (ta, tb) in bad_copies:
            x, y = AB.to_pyteal(ta).new_instance(), AB.to_pyteal(tb).new_instance()
            rr = call_real(lambda: x.set(y))
            out["evaluations"] += 1
            out["keys"].append("badcopy:%r<-%r" % (ta, tb))
            bump(out, "bad-copy:" + ("rejected:" + rr[1] if rr[0] != "ok" else "ACCEPTED"))
            if rr[0] == "ok" or rr[1] not in PYTEAL_ERRORS:
                out["sem"].append({"kind": "type-mismatch-not-refused", "type": AB.arc4_str(ta), "t_json": ta, "source_type": AB.arc4_str(tb),
                                   "expected": "PyTeal error at construction", "real": "accepted" if rr[0] == "ok" else list(rr[1:])})
    # 3h NamedTuple classes that share one qualified name (generic factory), resolved through annotations
    NT_LEAVES = ["bool", "byte", ("uint", 16), ("uint", 32), ("uint", 64), "address", "string", "dynbytes", ("sbytes", 3), ("darr", ("uint", 8)),
                 ("sarr", "bool", 9), ("tuple", "string", "bool")]
    for g in range(12 if thorough else 3):
        k = rng.choice([2, 2, 3])
        groups = [[rng.choice(NT_LEAVES) for _ in range(rng.choice([1, 2, 2, 3]))] for _ in range(k)]
        order = ["interleaved", "create-all-resolve-reverse", "create-all-resolve-forward-twice"][(g + shard) % 3]
        rseed = rng.randrange(1 << 30)
        try:
            fs = named_class_scenario(pt, procs, groups, order, rseed, out)
        except Exception as e:  # noqa
            out["model_problems"].append("machinery exception in the named-class scenario: %s: %s" % (type(e).__name__, str(e)[:200]))
            continue
        bump(out, "named-class-scenarios")
        for f in fs[:3]:
            out["sem"].append(dict(f, scenario={"groups": groups, "order": order, "rseed": rseed}))
    out["hist"]["shard_s:%02d" % shard] = round(time.time() - t_start, 1)
    out["hist"]["phase_s:descr"] = round(t_descr - t_start, 1)
    out["hist"]["phase_s:behaviour"] = round(time.time() - t_descr, 1)
    procs.close()
    return out


# ---------------------------------------------------------------------------------------------
# NamedTuple CLASSES that share one qualified name (generic factory): every class must be described by ITS OWN fields
# ---------------------------------------------------------------------------------------------
def make_record(anns):
    """the generic-factory idiom: every product is called `make_record.<locals>.Rec`"""
    from pyteal import abi

    class Rec(abi.NamedTuple):
        __annotations__ = anns

    return Rec


def make_envelope(body_cls):
    from pyteal import abi

    class Env(abi.NamedTuple):
        __annotations__ = {"tag": abi.Field[abi.Uint8], "body": abi.Field[body_cls]}

    return Env


def register_class(cls, names, ts):
    """make the class reachable from a type term (c19_abi.to_pyteal instantiates class number c >= 1000 directly)"""
    c = 1000 + len(AB._real_named)
    AB._real_named[("__c06_shared__", c)] = c
    AB._named_classes[c] = cls
    return ("named", c, tuple(names)) + tuple(ts)


def ref_descr(t):
    import algosdk.abi as A
    a = A.ABIType.from_string(AB.arc4_str(t))
    return (str(a), a.is_dynamic(), None if a.is_dynamic() else a.byte_len())


def named_class_scenario(pt, procs, groups, order, rseed, out=None):
    """groups: field-type lists; one class per list, all with the same module-qualified name. Creation and resolution
    are interleaved as `order` says. Every class, resolved through an annotation (directly, as abi.Field of an enclosing
    NamedTuple, as a subroutine parameter / output), must have the descriptors of ITS OWN fields and set(...) of its own
    fields must encode per ARC-4. Returns the list of failures (dicts)."""
    import random
    from pyteal import abi
    rng = random.Random(rseed)
    fails = []
    classes = [None] * len(groups)
    terms = [None] * len(groups)

    def create(i):
        ts = groups[i]
        names = tuple("f%d" % k for k in range(len(ts)))
        anns = {n: abi.Field[AB.to_pyteal(x).annotation_type()] for n, x in zip(names, ts)}
        classes[i] = make_record(anns)
        terms[i] = register_class(classes[i], names, ts)

    def descr_fail(i, route, got, want_t):
        want = ref_descr(want_t)
        if got != want:
            fails.append({"kind": "named-class-descriptor", "route": route, "class_index": i, "own_fields": [AB.arc4_str(x) for x in groups[i]],
                          "real": list(got) if isinstance(got, tuple) else got, "expected": list(want),
                          "same_name_classes": [[AB.arc4_str(x) for x in g] for g in groups]})

    def norm(r):
        if r[0] != "ok":
            return ("raises",) + tuple(r[1:])
        return (r[1][0], r[1][1], r[1][2] if isinstance(r[1][2], int) else None)

    def resolve(i):
        cls, t = classes[i], terms[i]
        plain = ("tuple",) + tuple(groups[i])
        r = call_real(lambda: real_descr(abi.type_spec_from_annotation(cls)))
        descr_fail(i, "type_spec_from_annotation(cls)", norm(r), plain)
        r = call_real(lambda: real_descr(cls().type_spec()))
        descr_fail(i, "cls().type_spec()", norm(r), plain)
        env = make_envelope(cls)
        envt = ("tuple", ("uint", 8), plain)
        r = call_real(lambda: real_descr(abi.type_spec_from_annotation(env)))
        descr_fail(i, "abi.Field[cls] inside an enclosing NamedTuple", norm(r), envt)

        def fn(x, *, output):
            return output.set(x)
        fn.__name__ = "f"
        fn.__annotations__ = {"x": cls, "output": cls, "return": pt.Expr}
        r = call_real(lambda: pt.ABIReturnSubroutine(fn).method_signature())
        want_sig = "f(%s)%s" % (AB.arc4_str(plain), AB.arc4_str(plain))
        if r[0] != "ok" or r[1] != want_sig:
            fails.append({"kind": "named-class-descriptor", "route": "subroutine parameter / output annotation", "class_index": i,
                          "own_fields": [AB.arc4_str(x) for x in groups[i]], "real": r[1] if r[0] == "ok" else list(r[1:]), "expected": want_sig,
                          "same_name_classes": [[AB.arc4_str(x) for x in g] for g in groups]})
        # behaviour: set(...) of its own fields, the class reached through annotations (ABI output / parameters) and directly
        envterm = register_class(env, ("tag", "body"), (("uint", 8), t))
        for (tt, cfgs) in ((t, [("abiret", 8, None), ("members_as_args", 9, None), ("main", 6, None)]), (envterm, [("abiret", 10, None), ("main", 7, None)])):
            alloc = CB.Alloc()
            rec = CB.gen_recipe(tt, rng, alloc, p_expr=0.5, p_copy=0.0)
            ins = gen_inputs_for(rng, alloc, 1, 0)
            for (be, v, opt) in cfgs:
                c, results = eval_case(pt, procs.avm, procs.mod, tt, rec, be, v, ins, opt)
                for (ints, byts), res in zip(ins, results):
                    if out is not None:
                        out["evaluations"] += 1
                        bump(out, "named-class:" + str(res.get("status")))
                        out["keys"].append("namedclass:" + repr((AB.arc4_str(tt), rec, be, v, ints, byts, len(groups))))
                    if res.get("status") == "BAD":
                        fails.append(dict(case_record(tt, rec, be, v, opt, ints, byts, res), kind="named-class-behaviour", class_index=i,
                                          same_name_classes=[[AB.arc4_str(x) for x in g] for g in groups]))

    n = len(groups)
    if order == "interleaved":
        for i in range(n):
            create(i)
            resolve(i)
        for i in range(n):
            resolve(i)
    elif order == "create-all-resolve-reverse":
        for i in range(n):
            create(i)
        for i in reversed(range(n)):
            resolve(i)
    else:  # create-all-resolve-forward-twice
        for i in range(n):
            create(i)
        for i in list(range(n)) * 2:
            resolve(i)
    return fails


def named_variant(rng, t):
    """turn the top-level tuple (if any, 1..8 members) into a NamedTuple declared the normal way"""
    if CB.kind(t) == "tuple" and 1 <= len(t) - 1 <= 8:
        try:
            return AB.realistic_named(tuple("f%d" % i for i in range(len(t) - 1)), tuple(t[1:]))
        except Exception:  # noqa
            return t
    return t


def from_json(x):
    if isinstance(x, list):
        return tuple(from_json(y) for y in x) if not (x and x[0] == "members" and len(x) == 2 and isinstance(x[1], list)) else ("members", [from_json(y) for y in x[1]])
    if isinstance(x, dict) and "hex" in x:
        return bytes.fromhex(x["hex"])
    return x


def to_json(x):
    if isinstance(x, (bytes, bytearray)):
        return {"hex": bytes(x).hex()}
    if isinstance(x, (list, tuple)):
        return [to_json(y) for y in x]
    return x


def load_corpus():
    if not os.path.exists(CORPUS):
        return []
    return json.load(open(CORPUS))


# ---------------------------------------------------------------------------------------------
# replay
# ---------------------------------------------------------------------------------------------
def replay(path):
    ent = json.load(open(path))
    import pyteal as pt
    if str(ent.get("kind", "")).startswith("named-class") and "scenario" in ent:
        sc = ent["scenario"]
        groups = [[from_json(x) for x in g] for g in sc["groups"]]
        fs = named_class_scenario(pt, Procs(), groups, sc["order"], sc["rseed"])
        print("classes sharing the name make_record.<locals>.Rec, fields in creation order: %s; order %s" % ([[AB.arc4_str(x) for x in g] for g in groups], sc["order"]))
        for f in fs[:6]:
            print("  class #%s %s via %s: real %s, expected %s" % (f.get("class_index"), f.get("own_fields", f.get("type")), f.get("route", f.get("backend")), f.get("real"), f.get("expected")))
        if fs:
            print("VIOLATION property=C06 replay=%s" % path)
            return 1
        print("status: good")
        return 0
    if ent.get("kind") not in ("behaviour", "model-vs-real") or "t_json" not in ent:
        print("replay file has no single executable case (kind=%s): %s" % (ent.get("kind"), str(ent.get("what", ""))[:300]))
        return 2
    t, r = from_json(ent["t_json"]), from_json(ent["recipe"])
    ints, byts = ent.get("ints", []), [bytes.fromhex(x) for x in ent.get("bytes", [])]
    avm, mod = open_model("main"), open_model("c06")
    c, res = eval_case(pt, avm, mod, t, r, ent.get("backend", "main"), ent.get("version", 8), [(ints, byts)], ent.get("opt"))
    res = res[0]
    print("type %s  back-end %s  version %s" % (AB.arc4_str(t), ent.get("backend"), ent.get("version")))
    print("recipe  %r" % (r,))
    print("inputs  ints=%r bytes=%r" % (ints, [b.hex() for b in byts]))
    show = lambda o: (o[0], o[1].hex()) if len(o) > 1 and isinstance(o[1], (bytes, bytearray)) else o
    print("expected (ARC-4 / algosdk): %r" % (show(res["exp"]),))
    print("real (PyTeal + AVM):        %r" % (show(res["real"]),))
    print("model (ABI/Encode.v):       %r" % (show(res["model"]),))
    if res.get("status") == "BAD":
        print("VIOLATION property=C06 replay=%s" % path)
        return 1
    print("status: %s" % res.get("status"))
    return 0


# ---------------------------------------------------------------------------------------------
# main
# ---------------------------------------------------------------------------------------------
def main(argv):
    args = parse_args(argv)
    if args.replay:
        return replay(args.replay)
    ck = Check("C06", args.tier)
    thorough = args.tier == "thorough"
    t0 = time.time()

    # ---------------- 1. proofs ----------------
    ck.run_proofs("Props/C06.v", PROOF_FILES, extra_targets=["Extract/Main_c06.vo"])
    t_proofs = time.time()
    # build both binaries once, before forking
    open_model("main").close()
    open_model("c06").close()

    # ---------------- 2/3. descriptors and behaviour, sharded ----------------
    nshards = max(1, min(NPROC, 16))
    ctx = multiprocessing.get_context("fork")
    with ctx.Pool(nshards) as pool:
        outs = pool.map(worker, [(i, nshards, args.tier, ck.seed) for i in range(nshards)], chunksize=1)
    t_work = time.time()

    mism, sem, hist = [], [], {}
    for o in outs:
        mism += o["mism"]
        sem += o["sem"]
        for p in o["model_problems"]:
            ck.model_problem(p)
        for k, v in o["hist"].items():
            if k.startswith("phase_s:"):
                hist[k] = max(hist.get(k, 0), v)
            elif k.endswith("_all_shards"):
                hist[k] = v
            else:
                hist[k] = hist.get(k, 0) + v
        ck.evaluations += o["evaluations"]
        for k in o["keys"]:
            ck.distinct.add(hashlib.sha1(k.encode()).hexdigest())
        for s_ in o["samples"]:
            ck.sample(s_)
        for n in o["notes"]:
            if n not in ck.notes:
                ck.notes.append(n)
    ck.broken = ck.broken[:12]

    # ---------------- 4. search: shrink the real failures ----------------
    import pyteal as pt
    reported = 0
    beh = [f for f in sem if f.get("kind") == "behaviour"]
    other = [f for f in sem if f.get("kind") != "behaviour"]
    if beh:
        avm, mod = open_model("main"), open_model("c06")
        seen_shapes = set()
        for f in sorted(beh, key=lambda f: len(json.dumps(to_json(f["recipe"])))):
            known = ck.match_known(lambda k: k.get("class") == "behaviour" and k["witness"].get("type") == f["type"])
            if known:
                ck.known(known["id"], known["what"])
                continue
            if reported >= 5:
                break
            t, r = f["t_json"], f["recipe"]
            sh = shrink(pt, avm, mod, t, r, f["backend"], f["version"], f.get("opt"), list(f["ints"]), [bytes.fromhex(x) for x in f["bytes"]])
            if sh is not None:
                (t2, r2, be2, i2, b2), res2 = sh
                rec = case_record(t2, r2, be2, f["version"], f.get("opt"), i2, b2, res2)
                rec["shrunk_from"] = {"type": f["type"], "backend": f["backend"]}
            else:
                rec = f
            key = (rec["type"], rec["backend"])
            if key in seen_shapes:
                continue
            seen_shapes.add(key)
            rec = json.loads(json.dumps(to_json_record(rec)))
            ck.violation("%s assembled with set(...) [%s, v%d]: the program gives %s, ARC-4 / algosdk expect %s" % (
                rec["type"], rec["backend"], rec["version"], rec["real"], rec["expected"]), rec)
            reported += 1
        avm.close()
        mod.close()
    nc = [f for f in other if str(f.get("kind", "")).startswith("named-class")]
    other = [f for f in other if not str(f.get("kind", "")).startswith("named-class")]
    for f in nc[:3]:
        ck.violation("NamedTuple classes sharing one qualified name: class #%s with fields %s resolved through %s is described / encoded as %s, expected %s (classes of that name, in creation order: %s)" % (
            f.get("class_index"), f.get("own_fields", f.get("type")), f.get("route", f.get("backend")), f.get("real"), f.get("expected"), f.get("same_name_classes")),
            to_json_record(f))
        reported += 1
    for f in sorted(other, key=lambda f: AB.size(from_json(to_json(f["t_json"]))) if "t_json" in f else 0)[:5]:
        ck.violation("%s: %s: PyTeal %s, reference %s" % (f.get("kind"), f.get("type", f.get("t")), f.get("real"), f.get("algosdk", f.get("expected"))), to_json_record(f))
        reported += 1

    # ---------------- 5. known findings ----------------
    for f in ck.findings:
        w = f.get("witness", {})
        try:
            if f.get("class") == "behaviour":
                t, r = from_json(w["t_json"]), from_json(w["recipe"])
                avm, mod = open_model("main"), open_model("c06")
                _, res = eval_case(pt, avm, mod, t, r, w.get("backend", "main"), w.get("version", 8), [(w.get("ints", []), [bytes.fromhex(x) for x in w.get("bytes", [])])])
                if res[0].get("status") == "BAD":
                    ck.known(f["id"], f["what"])
                avm.close()
                mod.close()
        except Exception as e:  # noqa
            ck.notes.append("known finding %s could not be replayed: %s" % (f.get("id"), e))

    # ---------------- 6. verdict ----------------
    if mism and not sem:
        ck.violation("correspondence broken: the real PyTeal ABI layer differs from ABI/Encode.v on %d case(s), first kind %s "
                     "(the C06 theorems no longer transfer); every real output still equals the reference codec's on the %d executions of this run"
                     % (len(mism), mism[0]["kind"], hist.get("status:good", 0)),
                     {"kind": "correspondence", "broken": "model ABI/Encode.v vs real descriptors / program outcomes", "count": len(mism),
                      "first": [to_json_record(m) for m in mism[:5]]}, no_failing_input=True)
    if not ck.proof_ok and not sem:
        ck.violation("proof obligation broken: Props/C06.v or its Proofs/ABIEncode*.v files no longer check",
                     {"kind": "proof", "broken": "C06 theorems", "log": ck.proof_log[-2500:]}, no_failing_input=True)
    ck.coverage["disagreements_checked"] = len(mism) + len(sem)
    ck.coverage["input_distribution"] = hist
    ck.coverage["exhaustive_descriptors"] = {
        "full_alphabet": {"leaves": [AB.arc4_str(x) for x in FULL_LEAVES], "static_lengths": FULL_LENS, "max_nodes": 5 if thorough else 4},
        "reduced_alphabet": {"leaves": [AB.arc4_str(x) for x in RED_LEAVES], "static_lengths": RED_LENS, "max_nodes": 7 if thorough else 5},
        "shapes": hist.get("descr_total_shapes_all_shards", 0), "every_shape_checked": True}
    ck.coverage["phase_s"] = {"proofs+build": round(t_proofs - t0, 1), "workers": round(t_work - t_proofs, 1), "search": round(time.time() - t_work, 1)}
    return ck.finish(
        level="proof",
        rule="descriptors: every type shape with <= %d nodes over the full leaf alphabet (11 leaves, static lengths 0/1/8/9, tuples of any arity) and <= %d nodes over "
             "a reduced alphabet (bool, byte, uint16, string; length 2), plus seeded random shapes of depth <= 6: str()/is_dynamic()/byte_length_static() of the real "
             "TypeSpec vs ABI/Encode.v vs ABI/Spec.v vs algosdk. behaviour: real PyTeal programs (set(...) of every documented form, nested; constants and run-time "
             "expressions) compiled for versions 5..10 in five program shapes (main routine/scratch slots; subroutine, ABI-return subroutine, subroutine with "
             "arguments, members passed as ABI arguments — frame variables from version 8), run on the extracted AVM with boundary-biased inputs; logged bytes vs "
             "algosdk vs Coq spec vs Coq model. corpus and directed shapes first, all small shapes, then seeded random. "
             "distinct = distinct (type, recipe, back-end, version, options, inputs) / descriptor shape; non-trivial = descriptor shapes with more than one node and every "
             "executed or rejected program" % (5 if thorough else 4, 7 if thorough else 5),
        trusted_base=[
            "ARC-4 spec coq/ABI/Spec.v (hand-written from the ARC-4 text; compared with algosdk on every value of this run and by C19)",
            "AVM semantics coq/AVM (hand-written; Proofs/ABIEncodeOps.v proves that the model's primitives are exec_pure of itob/extract/setbit/setbyte/!/concat)",
            "Theorems are about coq/ABI/Encode.v (hand model of bool.py, uint.py, tuple.py _encode_tuple, array_*.py, string.py, address.py set/encode and the TypeSpec "
            "descriptors), tied by exact comparison of the three-valued outcome (bytes / rejected / fails) on every program of this run",
            "The expression-level model abstracts from slot/frame allocation and op selection; those are covered only by executing the real TEAL (both back-ends)",
            "Address.set(str) / Addr(): the base32 decoding of the address literal is the assembler's (C13); the model receives the 32 decoded bytes",
            "Program constants (byte / pushbytes) are not subject to the 4096-byte cap in the model (on a node such a program exceeds the program-size limit instead)",
            "algosdk.abi 2.x as reference codec; harness recipe_value / head_len (ARC-4 re-statement used to classify expected rejections)",
            "Extraction: ExtrOcamlBasic + ExtrOcamlNativeString, ocaml/driver.ml (read-line loop)",
        ])


def to_json_record(rec):
    return {k: to_json(v) for k, v in rec.items()}


if __name__ == "__main__":
    sys.exit(run_main(main))
